---------------------------- MODULE Trace_TxConc ----------------------------
(* Recorded controlled schedules of real threads on a real TransactionManager, validated step by step
   against TxConc.tla; at the end every returned value (start epochs, commit epochs / refusals, gc counts)
   and the manager's final epoch must equal the model's. FCW / EpochsUnique / EpochsDense are invariants. *)
EXTENDS TxConc, Json, IOUtils
Ev == ndJsonDeserialize(IOEnv.TRACE)
TProg == [t \in 1..Len(Ev[1].prog) |-> Ev[1].prog[t]]
TThreads == 1..Len(Ev[1].prog)
VARIABLE l
tvars == <<vars, l>>
TStep ==
  /\ l <= Len(Ev)
  /\ l' = l + 1
  /\ LET e == Ev[l] IN
     CASE e.a = "reset" -> /\ epoch' = 0 /\ nextId' = 2 /\ tab' = EmptyF /\ cep' = EmptyF
                           /\ pc' = [t \in Threads |-> "start"] /\ ip' = [t \in Threads |-> 1] /\ my' = [t \in Threads |-> 0]
                           /\ ld' = [t \in Threads |-> 0] /\ ret' = [t \in Threads |-> <<>>] /\ g' = EmptyF
       [] e.a = "step"  -> ~Done(e.th) /\ Label(e.th) = e.lb /\ Step(e.th)
       [] e.a = "end"   -> Quiescent /\ (\A t \in Threads : e.rets[t] = ret[t]) /\ e.obs.epoch = epoch /\ UNCHANGED vars
TInit == Init /\ l = 1
TSpec == TInit /\ [][TStep]_tvars
Accepted ==
  LET d == TLCGet("stats").diameter IN
  IF d - 1 = Len(Ev) THEN TRUE ELSE PrintT(<<"REJECT", d, ToJson([a |-> Ev[d].a])>>) /\ FALSE
=============================================================================
