------------------------------ MODULE LpgLocks ------------------------------
(* Lock order of the LpgStore mutators (C20: "no combination of calls deadlocks").
   Every mutator is a sequence of lock scopes; inside a scope the locks are taken one after another and all are
   released at the end of the scope (guards going out of scope).  A step is one acquisition (enabled only when
   the lock is compatible with what the other threads hold) or the release of a whole scope.
   TLC checks the absence of deadlock over every interleaving of any two or three mutators (the initial state
   chooses which).

   Scopes transcribed from crates/grafeo-core/src/graph/lpg/store.rs (default variants):
     N nodes   E edges   CAT label / edge-type catalog   LI label_index   NL node_labels
     PI property_indexes   PR property columns   FA / BA forward / backward adjacency
   PW is the property writer mutex.  The scopes are those of the repaired tree: add_label / remove_label are one scope
   (nodes, catalog, label index, node_labels - delete_node's order), property writers take PW first.
   Switch "IndexHeldAcrossCount" (the pinned tree before the repair): add_label / remove_label keep the label
   index guard while they lock nodes for the label count - the inverse of delete_node's order. *)
EXTENDS Naturals, Sequences, FiniteSets, TLC
CONSTANTS Threads, AsIs
VARIABLES calls, sc, pos, held      \* calls: [Threads -> name of a mutator], chosen freely in the initial state
vars == <<calls, sc, pos, held>>
W(x) == <<x, "W">>
R(x) == <<x, "R">>
Held == "IndexHeldAcrossCount" \in AsIs
Scopes(m) ==
  CASE m = "create_node"  -> << <<W("CAT")>>, <<W("LI")>>, <<W("NL")>>, <<W("N")>> >>
    [] m = "delete_node"  -> << <<W("N"), W("LI"), W("NL")>>, <<R("PI")>>, <<W("PW"), R("PI"), R("PR"), W("PR")>> >>
    [] m = "set_property" -> << <<W("PW"), R("PI"), R("PR"), W("PR")>>, <<R("PR")>>, <<W("N")>> >>
    [] m = "add_label"    -> IF Held THEN << <<R("N")>>, <<W("CAT")>>, <<W("NL")>>, <<W("LI"), W("N"), R("NL")>> >>
                             ELSE << <<W("N"), W("CAT"), W("LI"), W("NL")>> >>
    [] m = "remove_label" -> IF Held THEN << <<R("N")>>, <<R("CAT")>>, <<W("NL")>>, <<W("LI"), W("N"), R("NL")>> >>
                             ELSE << <<W("N"), R("CAT"), W("LI"), W("NL")>> >>
    [] m = "create_edge"  -> << <<W("CAT")>>, <<W("E")>>, <<W("FA")>>, <<W("BA")>> >>
    [] m = "delete_edge"  -> << <<W("E")>>, <<W("FA")>>, <<W("BA")>>, <<W("PR")>> >>
    [] m = "get_node"     -> << <<R("N"), R("CAT"), R("NL"), R("PR")>> >>
    [] m = "nodes_by_label" -> << <<R("CAT"), R("LI")>> >>
    [] m = "compute_statistics" -> << <<R("N")>>, <<R("E")>>, <<R("CAT"), R("LI")>> >>
Mutators == {"create_node", "delete_node", "set_property", "add_label", "remove_label", "create_edge", "delete_edge", "get_node", "nodes_by_label", "compute_statistics"}
Init == calls \in [Threads -> Mutators] /\ sc = [t \in Threads |-> 1] /\ pos = [t \in Threads |-> 0] /\ held = [t \in Threads |-> {}]
Done(t) == sc[t] > Len(Scopes(calls[t]))
Cur(t) == Scopes(calls[t])[sc[t]]
Compatible(t, lk) == \A u \in Threads \ {t} : \A h \in held[u] : h[1] = lk[1] => (h[2] = "R" /\ lk[2] = "R")
Acquire(t) == /\ ~Done(t) /\ pos[t] < Len(Cur(t))
              /\ Compatible(t, Cur(t)[pos[t] + 1])
              /\ held' = [held EXCEPT ![t] = @ \cup {Cur(t)[pos[t] + 1]}] /\ pos' = [pos EXCEPT ![t] = @ + 1] /\ UNCHANGED <<sc, calls>>
Release(t) == /\ ~Done(t) /\ pos[t] = Len(Cur(t))
              /\ held' = [held EXCEPT ![t] = {}] /\ pos' = [pos EXCEPT ![t] = 0] /\ sc' = [sc EXCEPT ![t] = @ + 1] /\ UNCHANGED calls
Finished == (\A t \in Threads : Done(t)) /\ UNCHANGED vars
Next == (\E t \in Threads : Acquire(t) \/ Release(t)) \/ Finished
Spec == Init /\ [][Next]_vars
\* stated as an invariant so that the violating state is reported by name
NoDeadlock == (\A t \in Threads : Done(t)) \/ (\E t \in Threads : ENABLED Acquire(t) \/ ENABLED Release(t))
\* the documented lock order (store.rs "Lock Ordering"): within a scope, levels never decrease
LevelOf(x) == CASE x = "PW" -> 0 [] x = "N" -> 1 [] x = "E" -> 2 [] x = "CAT" -> 3 [] x = "LI" -> 5 [] x = "NL" -> 6 [] x = "PI" -> 7 [] x = "PR" -> 9 [] x = "FA" -> 10 [] x = "BA" -> 10
\* every scope of every mutator respects the documented order
Ordered == \A m \in Mutators : \A i \in DOMAIN Scopes(m) : \A j, k \in DOMAIN Scopes(m)[i] : j < k => LevelOf(Scopes(m)[i][j][1]) <= LevelOf(Scopes(m)[i][k][1])
=============================================================================
