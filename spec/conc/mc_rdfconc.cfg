SPECIFICATION Spec
CONSTANTS
  Threads = {1, 2}
  Prog = <<>>
  S = {1}
  P = {1}
  O = {1, 2}
  AsIs = {"SplitIndexUpdate"}
INVARIANT Mirror
INVARIANT Linearizable
CHECK_DEADLOCK FALSE
