------------------------------ MODULE RdfConc ------------------------------
(* Concurrent use of RdfStore (C20, C13): one action per critical section of insert()/remove()
   (rdf/store.rs), i.e. per stretch of code between two yield points of the cfg(grafeo_verif) hook.
   Threads run fixed programs (sequences of <<"ins"|"rem", triple>>).

   Switch "SplitIndexUpdate" (as-is on the pinned tree): the primary set and the three indexes are
   updated in separate critical sections.  Repaired: the primary write lock is held across the
   index updates, so each mutation is one atomic step after the optimistic contains-check. *)
EXTENDS Naturals, Sequences, FiniteSets, TLC
CONSTANTS Threads, Prog, S, P, O, AsIs
VARIABLES set, si, pi, oi, pc, ip, ret
vars == <<set, si, pi, oi, pc, ip, ret>>
Univ == S \X P \X O
Init == /\ set = {} /\ si = [s \in S |-> <<>>] /\ pi = [p \in P |-> <<>>] /\ oi = [o \in O |-> <<>>]
        /\ pc = [t \in Threads |-> "start"] /\ ip = [t \in Threads |-> 1] /\ ret = [t \in Threads |-> <<>>]
Done(t) == ip[t] > Len(Prog[t])
Op(t) == Prog[t][ip[t]]
Tr(t) == Op(t)[2]
Without(q, x) == SelectSeq(q, LAMBDA y : y # x)
Split == "SplitIndexUpdate" \in AsIs
\* label of the yield point thread t is parked at
Label(t) == IF pc[t] = "start" THEN (IF Op(t)[1] = "ins" THEN "rdf.ins.check" ELSE "rdf.rem.primary") ELSE pc[t]
Finish(t, r) == /\ ip' = [ip EXCEPT ![t] = @ + 1] /\ pc' = [pc EXCEPT ![t] = "start"] /\ ret' = [ret EXCEPT ![t] = Append(@, r)]
Goto(t, lb) == pc' = [pc EXCEPT ![t] = lb] /\ UNCHANGED <<ip, ret>>
AllIdxIns(x) == /\ si' = [si EXCEPT ![x[1]] = Append(@, x)] /\ pi' = [pi EXCEPT ![x[2]] = Append(@, x)] /\ oi' = [oi EXCEPT ![x[3]] = Append(@, x)]
AllIdxRem(x) == /\ si' = [si EXCEPT ![x[1]] = Without(@, x)] /\ pi' = [pi EXCEPT ![x[2]] = Without(@, x)] /\ oi' = [oi EXCEPT ![x[3]] = Without(@, x)]

Step(t) ==
  /\ ~Done(t)
  /\ LET lb == Label(t)  x == Tr(t) IN
     CASE lb = "rdf.ins.check" ->                    \* optimistic contains() under the read lock
            IF x \in set THEN Finish(t, FALSE) /\ UNCHANGED <<set, si, pi, oi>>
            ELSE Goto(t, "rdf.ins.primary") /\ UNCHANGED <<set, si, pi, oi>>
       [] lb = "rdf.ins.primary" ->                  \* primary insert under the write lock
            IF x \in set THEN Finish(t, FALSE) /\ UNCHANGED <<set, si, pi, oi>>
            ELSE /\ set' = set \cup {x}
                 /\ IF Split THEN Goto(t, "rdf.ins.subj") /\ UNCHANGED <<si, pi, oi>>
                    ELSE AllIdxIns(x) /\ Finish(t, TRUE)
       [] lb = "rdf.ins.subj" -> si' = [si EXCEPT ![x[1]] = Append(@, x)] /\ Goto(t, "rdf.ins.pred") /\ UNCHANGED <<set, pi, oi>>
       [] lb = "rdf.ins.pred" -> pi' = [pi EXCEPT ![x[2]] = Append(@, x)] /\ Goto(t, "rdf.ins.obj") /\ UNCHANGED <<set, si, oi>>
       [] lb = "rdf.ins.obj"  -> oi' = [oi EXCEPT ![x[3]] = Append(@, x)] /\ Finish(t, TRUE) /\ UNCHANGED <<set, si, pi>>
       [] lb = "rdf.rem.primary" ->
            IF x \notin set THEN Finish(t, FALSE) /\ UNCHANGED <<set, si, pi, oi>>
            ELSE /\ set' = set \ {x}
                 /\ IF Split THEN Goto(t, "rdf.rem.subj") /\ UNCHANGED <<si, pi, oi>>
                    ELSE AllIdxRem(x) /\ Finish(t, TRUE)
       [] lb = "rdf.rem.subj" -> si' = [si EXCEPT ![x[1]] = Without(@, x)] /\ Goto(t, "rdf.rem.pred") /\ UNCHANGED <<set, pi, oi>>
       [] lb = "rdf.rem.pred" -> pi' = [pi EXCEPT ![x[2]] = Without(@, x)] /\ Goto(t, "rdf.rem.obj") /\ UNCHANGED <<set, si, oi>>
       [] lb = "rdf.rem.obj"  -> oi' = [oi EXCEPT ![x[3]] = Without(@, x)] /\ Finish(t, TRUE) /\ UNCHANGED <<set, si, pi>>
Next == \E t \in Threads : Step(t)
Spec == Init /\ [][Next]_vars

Quiescent == \A t \in Threads : Done(t)
Range(q) == {q[i] : i \in DOMAIN q}
Once(q, X) == Range(q) = X /\ Len(q) = Cardinality(X)
\* C20 / C13: once the threads finish, every index mirrors the primary set, each triple once
Mirror == Quiescent =>
          /\ \A s \in S : Once(si[s], {x \in set : x[1] = s})
          /\ \A p \in P : Once(pi[p], {x \in set : x[2] = p})
          /\ \A o \in O : Once(oi[o], {x \in set : x[3] = o})
\* C20: outcome (final set and every returned flag) equals some sequential order of the operations
RECURSIVE SeqRun(_, _, _)
\* runs the remaining operations in the order given by `order` (sequence of thread ids); returns <<set, rets>>
SeqRun(order, X, st) ==
  IF order = <<>> THEN <<X, st.r>>
  ELSE LET t == Head(order)  o == Prog[t][st.i[t]]  x == o[2]
           res == IF o[1] = "ins" THEN x \notin X ELSE x \in X
           X2 == IF o[1] = "ins" THEN X \cup {x} ELSE X \ {x}
       IN SeqRun(Tail(order), X2, [i |-> [st.i EXCEPT ![t] = @ + 1], r |-> [st.r EXCEPT ![t] = Append(@, res)]])
TotalOps == LET RECURSIVE Sum(_) Sum(T) == IF T = {} THEN 0 ELSE LET t == CHOOSE t \in T : TRUE IN Len(Prog[t]) + Sum(T \ {t}) IN Sum(Threads)
Orders == {o \in [1..TotalOps -> Threads] : \A t \in Threads : Cardinality({i \in 1..TotalOps : o[i] = t}) = Len(Prog[t])}
Linearizable == Quiescent =>
   \E o \in Orders : SeqRun(o, {}, [i |-> [t \in Threads |-> 1], r |-> [t \in Threads |-> <<>>]]) = <<set, ret>>
=============================================================================
