SPECIFICATION TSpec
CONSTANTS
  Threads <- TThreads
  Prog <- TProg
  S = {1, 2, 3}
  P = {1, 2}
  O = {1, 2, 3}
  AsIs = {}
INVARIANT Mirror
INVARIANT Linearizable
POSTCONDITION Accepted
CHECK_DEADLOCK FALSE
