------------------------------- MODULE BufMgr -------------------------------
(* BufferManager::try_allocate / MemoryGrant release under concurrency (C20: "the memory manager never
   hands out more than its hard limit and its accounting returns to zero when all grants are released").
   try_allocate = load `allocated`, compare with the hard limit (eviction finds nothing to evict: no
   consumers registered) | add.  Switch "CheckThenAdd" (as-is on the pinned tree): the second step is a
   plain fetch_add, so two threads that both passed the check overshoot the limit.  Repaired: the add
   re-checks atomically (compare-and-swap loop) and fails if the limit would be exceeded. *)
EXTENDS Naturals, Sequences, FiniteSets, TLC
CONSTANTS Threads, Prog, Hard, AsIs
VARIABLES alloc, pc, ip, held, ret
vars == <<alloc, pc, ip, held, ret>>
Init == alloc = 0 /\ pc = [t \in Threads |-> "start"] /\ ip = [t \in Threads |-> 1]
        /\ held = [t \in Threads |-> <<>>] /\ ret = [t \in Threads |-> <<>>]
Done(t) == ip[t] > Len(Prog[t])
Op(t) == Prog[t][ip[t]]
\* release ops have no yield point: they run as part of the step that finishes the previous op
RECURSIVE Absorb(_, _, _)
Absorb(t, i, st) ==
  IF i > Len(Prog[t]) \/ Prog[t][i][1] # "release" THEN <<i, st>>
  ELSE IF st.h = <<>> THEN Absorb(t, i + 1, [st EXCEPT !.r = Append(@, [released |-> FALSE, after |-> st.a])])
  ELSE LET sz == st.h[Len(st.h)] IN
       Absorb(t, i + 1, [a |-> st.a - sz, h |-> SubSeq(st.h, 1, Len(st.h) - 1), r |-> Append(st.r, [released |-> TRUE, after |-> st.a - sz])])
\* when the program ends the thread drops the grants it still holds
Final(t, i, st) == IF i > Len(Prog[t]) THEN [st EXCEPT !.a = st.a - (LET RECURSIVE Sum(_) Sum(q) == IF q = <<>> THEN 0 ELSE Head(q) + Sum(Tail(q)) IN Sum(st.h)), !.h = <<>>] ELSE st
FinishOp(t, r, a, h) ==
  LET x == Absorb(t, ip[t] + 1, [a |-> a, h |-> h, r |-> Append(ret[t], r)])
      y == Final(t, x[1], x[2]) IN
  /\ ip' = [ip EXCEPT ![t] = x[1]] /\ pc' = [pc EXCEPT ![t] = "start"]
  /\ alloc' = y.a /\ held' = [held EXCEPT ![t] = y.h] /\ ret' = [ret EXCEPT ![t] = y.r]
Label(t) == IF pc[t] = "start" THEN "buf.alloc.load" ELSE pc[t]
Step(t) ==
  /\ ~Done(t)
  /\ LET sz == Op(t)[2] IN
     CASE Label(t) = "buf.alloc.load" ->
            IF alloc + sz > Hard THEN FinishOp(t, [granted |-> FALSE, after |-> alloc], alloc, held[t])
            ELSE pc' = [pc EXCEPT ![t] = "buf.alloc.add"] /\ UNCHANGED <<alloc, ip, held, ret>>
       [] Label(t) = "buf.alloc.add" ->
            IF "CheckThenAdd" \notin AsIs /\ alloc + sz > Hard
            THEN FinishOp(t, [granted |-> FALSE, after |-> alloc], alloc, held[t])
            ELSE FinishOp(t, [granted |-> TRUE, after |-> alloc + sz], alloc + sz, Append(held[t], sz))
Next == \E t \in Threads : Step(t)
Spec == Init /\ [][Next]_vars
Quiescent == \A t \in Threads : Done(t)
WithinLimit == alloc <= Hard
ZeroAtEnd == Quiescent => alloc = 0
=============================================================================
