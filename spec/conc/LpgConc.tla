------------------------------ MODULE LpgConc ------------------------------
(* Concurrent use of the property-graph store (C20, C14): one step per critical section of the LpgStore
   mutators (crates/grafeo-core/src/graph/lpg/store.rs, default non-tiered variants), i.e. per stretch of code
   between two yield points of the cfg(grafeo_verif) hook.  Each mutator takes and releases several locks in
   turn (primary map, label index, node_labels, property index, property columns, adjacency lists).

   Threads run fixed programs.  Operations (label "A", property key k1, which has a property index):
     <<"cn", l>>     create_node, with label A iff l = 1          -> id
     <<"dn", n>>     delete_node                                   -> BOOLEAN
     <<"al", n>>     add_label(n, "A")                             -> BOOLEAN
     <<"rl", n>>     remove_label(n, "A")                          -> BOOLEAN
     <<"sp", n, v>>  set_node_property(n, "k1", v)                 -> 0
     <<"ce", a, b>>  create_edge(a, b)                             -> id
     <<"de", e>>     delete_edge(e)                                -> BOOLEAN

   Mechanism state (record s): what the code keeps, structure by structure.  The answers of the access paths
   are DEFINED from it (MObs) exactly as the accessors compute them (nodes_by_label reads the label index,
   find_nodes_by_property the property index, edges_from / degrees the adjacency lists, get_node the primary
   map + node_labels + property columns).

   The property: at quiescence the returned values and every access path equal those of SOME sequential
   order of the operations (Linearizable), under the sequential meaning SeqOp (the one LpgStore.tla gives).

   The sections are those of the repaired tree: create_node, delete_node, create_edge and delete_edge still update
   their structures in several lock scopes (which is harmless: TLC finds no schedule that is not linearizable), while
   set_node_property (index entry + value, under the property writer lock) and add_label / remove_label (liveness check,
   node_labels, label index, under the node map's lock) are one step each.
   Switches - the pinned tree before the repairs, each must violate Linearizable:
     "SplitProps"   set_node_property moves the index entry and stores the value in two steps; delete_node likewise
     "SplitLabels"  add_label / remove_label check liveness, update node_labels and update the label index in three steps *)
EXTENDS Naturals, Sequences, FiniteSets, TLC
CONSTANTS Threads, Prog, AsIs
VARIABLE s
vars == <<s>>
SplitProps == "SplitProps" \in AsIs
SplitLabels == "SplitLabels" \in AsIs
InitOps == Prog.init
TOps(t) == Prog.threads[t]
RECURSIVE CountIn(_, _)
CountIn(q, k) == IF q = <<>> THEN 0 ELSE (IF Head(q)[1] = k THEN 1 ELSE 0) + CountIn(Tail(q), k)
RECURSIVE SumT(_, _)
SumT(T, k) == IF T = {} THEN 0 ELSE LET t == CHOOSE x \in T : TRUE IN CountIn(TOps(t), k) + SumT(T \ {t}, k)
NN == CountIn(InitOps, "cn") + SumT(Threads, "cn")      \* node ids ever handed out
NE == CountIn(InitOps, "ce") + SumT(Threads, "ce")
Vals == 1..3

\* ------------------------------------------------------------------ sequential meaning (abstract graph)
G0 == [nn |-> 0, live |-> {}, hasA |-> {}, pr |-> [n \in 1..NN |-> 0], ne |-> 0, elive |-> {}, ends |-> <<>>]
SeqOp(g, op) ==
  CASE op[1] = "cn" -> [g |-> [g EXCEPT !.nn = @ + 1, !.live = @ \cup {g.nn + 1}, !.hasA = IF op[2] = 1 THEN @ \cup {g.nn + 1} ELSE @], r |-> g.nn + 1]
    [] op[1] = "dn" -> IF op[2] \in g.live THEN [g |-> [g EXCEPT !.live = @ \ {op[2]}, !.hasA = @ \ {op[2]}, !.pr[op[2]] = 0], r |-> TRUE]
                       ELSE [g |-> g, r |-> FALSE]
    [] op[1] = "al" -> IF op[2] \in g.live /\ op[2] \notin g.hasA THEN [g |-> [g EXCEPT !.hasA = @ \cup {op[2]}], r |-> TRUE] ELSE [g |-> g, r |-> FALSE]
    [] op[1] = "rl" -> IF op[2] \in g.live /\ op[2] \in g.hasA THEN [g |-> [g EXCEPT !.hasA = @ \ {op[2]}], r |-> TRUE] ELSE [g |-> g, r |-> FALSE]
    [] op[1] = "sp" -> [g |-> [g EXCEPT !.pr[op[2]] = op[3]], r |-> 0]      \* set_node_property does not look at liveness
    [] op[1] = "ce" -> [g |-> [g EXCEPT !.ne = @ + 1, !.elive = @ \cup {g.ne + 1}, !.ends = Append(@, <<op[2], op[3]>>)], r |-> g.ne + 1]
    [] op[1] = "de" -> IF op[2] \in g.elive THEN [g |-> [g EXCEPT !.elive = @ \ {op[2]}], r |-> TRUE] ELSE [g |-> g, r |-> FALSE]
RECURSIVE SeqAll(_, _)
SeqAll(g, ops) == IF ops = <<>> THEN g ELSE SeqAll(SeqOp(g, Head(ops)).g, Tail(ops))
GInit == SeqAll(G0, InitOps)
\* every access path, defined from the abstract graph
ObsOf(g) ==
  [gn  |-> [n \in 1..NN |-> IF n \in g.live THEN <<1, IF n \in g.hasA THEN 1 ELSE 0, g.pr[n]>> ELSE <<0, 0, 0>>],
   ge  |-> [e \in 1..NE |-> IF e \in g.elive THEN <<1, g.ends[e][1], g.ends[e][2]>> ELSE <<0, 0, 0>>],
   la  |-> g.hasA, ids |-> g.live, nc |-> Cardinality(g.live), ec |-> Cardinality(g.elive),
   fp  |-> [v \in Vals |-> {n \in 1..NN : g.pr[n] = v}],
   out |-> [n \in 1..NN |-> {e \in g.elive : g.ends[e][1] = n}],
   inn |-> [n \in 1..NN |-> {e \in g.elive : g.ends[e][2] = n}]]

\* ------------------------------------------------------------------ mechanism
SInit ==
  LET g == GInit IN
  [nextN |-> g.nn, nextE |-> g.ne, alive |-> g.live, nlDom |-> g.live, nlA |-> g.hasA, li |-> g.hasA, catA |-> (\E i \in DOMAIN InitOps : InitOps[i][1] = "cn" /\ InitOps[i][2] = 1) \/ (\E i \in DOMAIN InitOps : InitOps[i][1] = "al"),
   pv |-> g.pr, px |-> [v \in Vals |-> {n \in 1..NN : g.pr[n] = v}],
   ealive |-> g.elive, ends |-> g.ends, fadj |-> g.elive, badj |-> g.elive,
   pc |-> [t \in Threads |-> "start"], ip |-> [t \in Threads |-> 1], ret |-> [t \in Threads |-> <<>>], loc |-> [t \in Threads |-> 0]]
Init == s = SInit
Done(st, t) == st.ip[t] > Len(TOps(t))
Op(st, t) == TOps(t)[st.ip[t]]
First(op) == CASE op[1] = "cn" -> "lpg.cn.id" [] op[1] = "dn" -> "lpg.dn.start" [] op[1] = "al" -> "lpg.al.check" [] op[1] = "rl" -> "lpg.rl.check"
               [] op[1] = "sp" -> "lpg.sp.index" [] op[1] = "ce" -> "lpg.ce.id" [] op[1] = "de" -> "lpg.de.start"
\* label of the yield point thread t is parked at
Label(st, t) == IF st.pc[t] = "start" THEN First(Op(st, t)) ELSE st.pc[t]
Fin(st, t, r) == [st EXCEPT !.ip[t] = @ + 1, !.pc[t] = "start", !.ret[t] = Append(@, r)]
Go(st, t, lb) == [st EXCEPT !.pc[t] = lb]
PxDrop(px, n, old) == IF old = 0 THEN px ELSE [px EXCEPT ![old] = @ \ {n}]
\* one critical section of thread t
Sec(st, t) ==
  LET op == Op(st, t)  lb == Label(st, t)  n == op[2]  id == st.loc[t] IN
  CASE lb = "lpg.cn.id"    -> Go([st EXCEPT !.nextN = @ + 1, !.loc[t] = st.nextN + 1], t, IF op[2] = 1 THEN "lpg.cn.label" ELSE "lpg.cn.nl")
    [] lb = "lpg.cn.label" -> Go([st EXCEPT !.li = @ \cup {id}, !.catA = TRUE], t, "lpg.cn.nl")
    [] lb = "lpg.cn.nl"    -> Go([st EXCEPT !.nlDom = @ \cup {id}, !.nlA = IF op[2] = 1 THEN @ \cup {id} ELSE @], t, "lpg.cn.node")
    [] lb = "lpg.cn.node"  -> Fin([st EXCEPT !.alive = @ \cup {id}], t, id)
    \* delete_node: primary map, label index and node_labels under one set of locks, then the property index, then the columns
    [] lb = "lpg.dn.start" -> IF n \notin st.alive THEN Fin(st, t, FALSE)
                              ELSE Go([st EXCEPT !.alive = @ \ {n}, !.nlDom = @ \ {n}, !.nlA = @ \ {n}, !.li = IF n \in st.nlA THEN @ \ {n} ELSE @], t, "lpg.dn.props")
    [] lb = "lpg.dn.props" -> IF SplitProps THEN Go([st EXCEPT !.px = PxDrop(@, n, st.pv[n])], t, "lpg.dn.remove_all")
                              ELSE Fin([st EXCEPT !.px = PxDrop(@, n, st.pv[n]), !.pv[n] = 0], t, TRUE)
    [] lb = "lpg.dn.remove_all" -> Fin([st EXCEPT !.pv[n] = 0], t, TRUE)
    \* set_node_property: the index is moved from the old value (read now) to the new one, then the value is written
    [] lb = "lpg.sp.index" -> IF SplitProps THEN Go([st EXCEPT !.px = [PxDrop(@, n, st.pv[n]) EXCEPT ![op[3]] = @ \cup {n}]], t, "lpg.sp.set")
                              ELSE Fin([st EXCEPT !.px = [PxDrop(@, n, st.pv[n]) EXCEPT ![op[3]] = @ \cup {n}], !.pv[n] = op[3]], t, 0)
    [] lb = "lpg.sp.set"   -> Fin([st EXCEPT !.pv[n] = op[3]], t, 0)
    \* add_label: liveness check, node_labels, label index: three lock scopes
    [] lb = "lpg.al.check" -> IF n \notin st.alive THEN Fin(st, t, FALSE)
                              ELSE IF SplitLabels THEN Go(st, t, "lpg.al.nl")
                              ELSE IF n \in st.nlA THEN Fin([st EXCEPT !.catA = TRUE], t, FALSE)
                              ELSE Fin([st EXCEPT !.nlDom = @ \cup {n}, !.nlA = @ \cup {n}, !.catA = TRUE, !.li = @ \cup {n}], t, TRUE)
    [] lb = "lpg.al.nl"    -> IF n \in st.nlA THEN Fin([st EXCEPT !.catA = TRUE], t, FALSE)
                              ELSE Go([st EXCEPT !.nlDom = @ \cup {n}, !.nlA = @ \cup {n}, !.catA = TRUE], t, "lpg.al.index")
    [] lb = "lpg.al.index" -> Fin([st EXCEPT !.li = @ \cup {n}], t, TRUE)
    [] lb = "lpg.rl.check" -> IF n \notin st.alive THEN Fin(st, t, FALSE)
                              ELSE IF SplitLabels THEN Go(st, t, "lpg.rl.nl")
                              ELSE IF ~st.catA \/ n \notin st.nlA THEN Fin(st, t, FALSE)
                              ELSE Fin([st EXCEPT !.nlA = @ \ {n}, !.li = @ \ {n}], t, TRUE)
    [] lb = "lpg.rl.nl"    -> IF ~st.catA \/ n \notin st.nlA THEN Fin(st, t, FALSE) ELSE Go([st EXCEPT !.nlA = @ \ {n}], t, "lpg.rl.index")
    [] lb = "lpg.rl.index" -> Fin([st EXCEPT !.li = @ \ {n}], t, TRUE)
    [] lb = "lpg.ce.id"    -> Go([st EXCEPT !.nextE = @ + 1, !.loc[t] = st.nextE + 1, !.ealive = @ \cup {st.nextE + 1}, !.ends = Append(@, <<op[2], op[3]>>)], t, "lpg.ce.fwd")
    [] lb = "lpg.ce.fwd"   -> Go([st EXCEPT !.fadj = @ \cup {id}], t, "lpg.ce.bwd")
    [] lb = "lpg.ce.bwd"   -> Fin([st EXCEPT !.badj = @ \cup {id}], t, id)
    [] lb = "lpg.de.start" -> IF n \notin st.ealive THEN Fin(st, t, FALSE) ELSE Go([st EXCEPT !.ealive = @ \ {n}], t, "lpg.de.fwd")
    [] lb = "lpg.de.fwd"   -> Go([st EXCEPT !.fadj = @ \ {n}], t, "lpg.de.bwd")
    [] lb = "lpg.de.bwd"   -> Fin([st EXCEPT !.badj = @ \ {n}], t, TRUE)
Step(t) == /\ ~Done(s, t)
           /\ s' = Sec(s, t)
Next == \E t \in Threads : Step(t)
Spec == Init /\ [][Next]_vars

\* ------------------------------------------------------------------ what the access paths answer in mechanism state st
MObs(st) ==
  [gn  |-> [n \in 1..NN |-> IF n \in st.alive THEN <<1, IF n \in st.nlA THEN 1 ELSE 0, st.pv[n]>> ELSE <<0, 0, 0>>],
   ge  |-> [e \in 1..NE |-> IF e \in st.ealive THEN <<1, st.ends[e][1], st.ends[e][2]>> ELSE <<0, 0, 0>>],
   la  |-> st.li, ids |-> st.alive, nc |-> Cardinality(st.alive), ec |-> Cardinality(st.ealive),
   fp  |-> st.px,
   out |-> [n \in 1..NN |-> {e \in st.fadj : e <= Len(st.ends) /\ st.ends[e][1] = n}],
   inn |-> [n \in 1..NN |-> {e \in st.badj : e <= Len(st.ends) /\ st.ends[e][2] = n}]]

\* ------------------------------------------------------------------ properties
Quiescent == \A t \in Threads : Done(s, t)
TotalOps == LET RECURSIVE Sum(_) Sum(T) == IF T = {} THEN 0 ELSE LET t == CHOOSE t \in T : TRUE IN Len(TOps(t)) + Sum(T \ {t}) IN Sum(Threads)
Orders == {o \in [1..TotalOps -> Threads] : \A t \in Threads : Cardinality({i \in 1..TotalOps : o[i] = t}) = Len(TOps(t))}
RECURSIVE SeqRun(_, _, _, _)
\* runs the operations in the order given by `order` (a sequence of thread ids); returns <<graph, rets>>
SeqRun(order, g, ix, rs) ==
  IF order = <<>> THEN <<g, rs>>
  ELSE LET t == Head(order)  x == SeqOp(g, TOps(t)[ix[t]])
       IN SeqRun(Tail(order), x.g, [ix EXCEPT ![t] = @ + 1], [rs EXCEPT ![t] = Append(@, x.r)])
Outcomes == {SeqRun(o, GInit, [t \in Threads |-> 1], [t \in Threads |-> <<>>]) : o \in Orders}
\* returned values rets (per thread) and observation ob are those of some sequential order
LinObs(rets, ob) == \E x \in Outcomes : x[2] = rets /\ ObsOf(x[1]) = ob
Linearizable == Quiescent => LinObs(s.ret, MObs(s))
\* C20: identifiers are unique (each id is returned once)
RetIds(k) == UNION {{<<t, i>> : i \in {j \in DOMAIN s.ret[t] : TOps(t)[j][1] = k}} : t \in Threads}
UniqueIds == \A k \in {"cn", "ce"} : \A a, b \in RetIds(k) : a # b => s.ret[a[1]][a[2]] # s.ret[b[1]][b[2]]
\* C20 / C14: once the threads finish, the derived structures mirror the primary data
LabelMirror == Quiescent => /\ s.li = {n \in s.alive : n \in s.nlA} /\ s.nlA \subseteq s.alive
PropMirror == Quiescent => \A v \in Vals : s.px[v] = {n \in 1..NN : s.pv[n] = v}
AdjMirror == Quiescent => s.fadj = s.ealive /\ s.badj = s.ealive
=============================================================================
