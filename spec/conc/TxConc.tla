------------------------------- MODULE TxConc -------------------------------
(* Concurrent use of TransactionManager (C03 "commits issued concurrently from several threads", C20
   "commit epochs are unique and increasing"): one action per stretch of code between two yield points.
   begin_with_isolation = fetch_add(next_tx_id) | load(current_epoch) | insert under the table lock;
   commit() and gc() are single critical sections (table lock held throughout); record_write is part of
   the step that precedes the next yield point.

   Switch "BeginEpochOutsideLock" (as-is on the pinned tree): the epoch is loaded before the table lock is
   taken, so commit()+gc() of another thread can slip between the load and the insert.  Repaired: the load
   happens under the table lock (load+insert one step). *)
EXTENDS Naturals, Sequences, FiniteSets, TLC
CONSTANTS Threads, Prog, AsIs
VARIABLES epoch, nextId, tab, cep, pc, ip, my, ld, ret, g
vars == <<epoch, nextId, tab, cep, pc, ip, my, ld, ret, g>>
Put(f, k, v) == [x \in DOMAIN f \cup {k} |-> IF x = k THEN v ELSE f[x]]
Drop(f, K) == [x \in DOMAIN f \ K |-> f[x]]
EmptyF == [x \in {} |-> 0]
Init == /\ epoch = 0 /\ nextId = 2 /\ tab = EmptyF /\ cep = EmptyF
        /\ pc = [t \in Threads |-> "start"] /\ ip = [t \in Threads |-> 1] /\ my = [t \in Threads |-> 0]
        /\ ld = [t \in Threads |-> 0] /\ ret = [t \in Threads |-> <<>>] /\ g = EmptyF
Done(t) == ip[t] > Len(Prog[t])
Op(t) == Prog[t][ip[t]]
Split == "BeginEpochOutsideLock" \in AsIs
FirstLabel(o) == CASE o[1] = "begin" -> "tx.begin.id" [] o[1] = "commit" -> "tx.commit" [] o[1] = "gc" -> "tx.gc" [] OTHER -> "none"
\* ops without a yield point (record_write) are executed as part of the step that reaches the next yield point
RECURSIVE Absorb(_, _, _, _)
\* runs yield-free ops of thread t starting at index i on table T; returns <<i', T', rets, g'>>
Absorb(t, i, st, tx) ==
  IF i > Len(Prog[t]) \/ FirstLabel(Prog[t][i]) # "none" THEN <<i, st>>
  ELSE LET o == Prog[t][i] IN    \* <<"write", e>>
       Absorb(t, i + 1, [T |-> [st.T EXCEPT ![tx].ws = @ \cup {o[2]}], r |-> Append(st.r, TRUE),
                         G |-> [st.G EXCEPT ![tx].ws = @ \cup {o[2]}]], tx)
Label(t) == IF pc[t] = "start" THEN FirstLabel(Op(t)) ELSE pc[t]
NewInfo(st) == [state |-> "active", start |-> st, ws |-> {}]
NewGhost == [cc |-> {}, ws |-> {}, out |-> "none", live |-> TRUE, ce |-> 0]
Outcome(tx, T, C) ==
  IF \E o \in DOMAIN C \ {tx} : C[o] > T[tx].start /\ o \in DOMAIN T /\ T[o].ws \cap T[tx].ws # {} THEN "ww" ELSE "ok"
GcRemoved(T, C) ==
  LET act == {x \in DOMAIN T : T[x].state = "active"} IN
  {x \in DOMAIN T : \/ T[x].state = "aborted"
                    \/ T[x].state = "committed" /\ (IF act = {} THEN TRUE ELSE x \in DOMAIN C /\ \A a \in act : C[x] < T[a].start)}
\* finish the current op with result r, then absorb following yield-free ops
FinishOp(t, r, T, G, tx) ==
  LET a == Absorb(t, ip[t] + 1, [T |-> T, r |-> Append(ret[t], r), G |-> G], tx) IN
  /\ ip' = [ip EXCEPT ![t] = a[1]] /\ pc' = [pc EXCEPT ![t] = "start"]
  /\ tab' = a[2].T /\ ret' = [ret EXCEPT ![t] = a[2].r] /\ g' = a[2].G

Step(t) ==
  /\ ~Done(t)
  /\ LET lb == Label(t) IN
     CASE lb = "tx.begin.id" ->
            /\ my' = [my EXCEPT ![t] = nextId] /\ nextId' = nextId + 1
            /\ pc' = [pc EXCEPT ![t] = "tx.begin.load"]
            /\ UNCHANGED <<epoch, tab, cep, ip, ld, ret, g>>
       [] lb = "tx.begin.load" ->
            IF Split
            THEN /\ ld' = [ld EXCEPT ![t] = epoch] /\ pc' = [pc EXCEPT ![t] = "tx.begin.insert"]
                 /\ g' = Put(g, my[t], NewGhost)                      \* the transaction's lifetime starts when it reads the epoch
                 /\ UNCHANGED <<epoch, nextId, tab, cep, ip, my, ret>>
            ELSE /\ ld' = [ld EXCEPT ![t] = epoch]
                 /\ FinishOp(t, [start |-> epoch], Put(tab, my[t], NewInfo(epoch)), Put(g, my[t], NewGhost), my[t])
                 /\ UNCHANGED <<epoch, nextId, cep, my>>
       [] lb = "tx.begin.insert" ->
            /\ FinishOp(t, [start |-> ld[t]], Put(tab, my[t], NewInfo(ld[t])), g, my[t])
            /\ UNCHANGED <<epoch, nextId, cep, my, ld>>
       [] lb = "tx.commit" ->
            LET tx == my[t]  o == Outcome(tx, tab, cep) IN
            IF o = "ok"
            THEN /\ epoch' = epoch + 1 /\ cep' = Put(cep, tx, epoch + 1)
                 /\ FinishOp(t, [ok |-> epoch + 1], [tab EXCEPT ![tx].state = "committed"],
                             [x \in DOMAIN g |-> IF x = tx THEN [g[x] EXCEPT !.out = "ok", !.live = FALSE, !.ce = epoch + 1]
                                                 ELSE IF g[x].live THEN [g[x] EXCEPT !.cc = @ \cup {tx}] ELSE g[x]], tx)
                 /\ UNCHANGED <<nextId, my, ld>>
            ELSE /\ FinishOp(t, [err |-> o], tab, [g EXCEPT ![tx].out = o], tx)
                 /\ UNCHANGED <<epoch, nextId, cep, my, ld>>
       [] lb = "tx.gc" ->
            LET rm == GcRemoved(tab, cep) IN
            /\ cep' = Drop(cep, rm)
            /\ FinishOp(t, Cardinality(rm), Drop(tab, rm), g, my[t])
            /\ UNCHANGED <<epoch, nextId, my, ld>>
Next == \E t \in Threads : Step(t)
Spec == Init /\ [][Next]_vars
Quiescent == \A t \in Threads : Done(t)
Committed == {x \in DOMAIN g : g[x].out = "ok"}
\* C03: two committed transactions with overlapping lifetimes have disjoint write sets
FCW == \A a, b \in Committed : a # b /\ b \in g[a].cc => g[a].ws \cap g[b].ws = {}
\* C20: commit epochs are unique and increasing (1, 2, 3, ... in commit order)
EpochsUnique == \A a, b \in Committed : a # b => g[a].ce # g[b].ce
EpochsDense == {g[a].ce : a \in Committed} = 1..epoch
=============================================================================
