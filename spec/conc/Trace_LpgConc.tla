--------------------------- MODULE Trace_LpgConc ---------------------------
(* Validates recorded runs of real threads on a real LpgStore.
   Controlled runs (events "step"): every granted step (thread, yield label) must be the LpgConc section of that
   thread at that label; at the end every returned value equals the model's and every access path of the store
   equals MObs of the model's mechanism state - so the code does what the mechanism model says, section by
   section.  Whether that end state is explained by a sequential order is then decided by LinObs: a run that is
   not is printed as <<"NONLIN", line>> (oracle style; the run continues so that every run is judged).
   Free-running runs (end event with free = TRUE, no steps): only LinObs of what the store returned. *)
EXTENDS LpgConc, Json, IOUtils
Ev == ndJsonDeserialize(IOEnv.TRACE)
ToOp(o) == IF Len(o) = 3 THEN <<o[1], o[2], o[3]>> ELSE <<o[1], o[2]>>
Ops(q) == [i \in DOMAIN q |-> ToOp(q[i])]
TProg == [init |-> Ops(Ev[1].prog.init), threads |-> [t \in 1..Len(Ev[1].prog.threads) |-> Ops(Ev[1].prog.threads[t])]]
TThreads == 1..Len(Ev[1].prog.threads)
VARIABLE l
tvars == <<vars, l>>
SetOf(q) == {q[i] : i \in DOMAIN q}
\* the recorded observation in the shape of MObs / ObsOf
RecObs(o) ==
  [gn  |-> [n \in 1..NN |-> <<o.gn[n][1], o.gn[n][2], o.gn[n][3]>>],
   ge  |-> [e \in 1..NE |-> <<o.ge[e][1], o.ge[e][2], o.ge[e][3]>>],
   la  |-> SetOf(o.la), ids |-> SetOf(o.ids), nc |-> o.nc, ec |-> o.ec,
   fp  |-> [v \in Vals |-> SetOf(o.fp[v])],
   out |-> [n \in 1..NN |-> SetOf(o.out[n])],
   inn |-> [n \in 1..NN |-> SetOf(o.inn[n])]]
\* lists without duplicates, degrees agree with the lists
WellFormed(o) == /\ Len(o.la) = Cardinality(SetOf(o.la)) /\ Len(o.ids) = Cardinality(SetOf(o.ids))
                 /\ \A v \in Vals : Len(o.fp[v]) = Cardinality(SetOf(o.fp[v]))
                 \* lookup by edge type: exactly the live edges (all of type T), each once, and every live edge names its type
                 /\ Len(o.ebt) = Cardinality(SetOf(o.ebt))
                 /\ SetOf(o.ebt) = {e \in 1..o.ne : o.ge[e][1] = 1}
                 /\ \A e \in 1..o.ne : o.ge[e][1] = 1 => o.ety[e] = 1
                 /\ \A n \in 1..NN : /\ Len(o.out[n]) = Cardinality(SetOf(o.out[n])) /\ o.od[n] = Len(o.out[n])
                                     /\ Len(o.inn[n]) = Cardinality(SetOf(o.inn[n])) /\ o.idg[n] = Len(o.inn[n])
RecRets(e) == [t \in Threads |-> [i \in 1..Len(e.rets[t]) |-> e.rets[t][i]]]
EndOk(e) ==
  IF "free" \in DOMAIN e THEN WellFormed(e.obs)
  ELSE /\ Quiescent
       /\ RecRets(e) = s.ret
       /\ e.obs.nn = NN /\ e.obs.ne = NE
       /\ WellFormed(e.obs)
       /\ RecObs(e.obs) = MObs(s)
Judge(e) == IF LinObs(RecRets(e), RecObs(e.obs)) THEN TRUE ELSE PrintT(<<"NONLIN", l>>)
TStep ==
  /\ l <= Len(Ev)
  /\ l' = l + 1
  /\ LET e == Ev[l] IN
     CASE e.a = "reset" -> s' = SInit
       [] e.a = "step"  -> ~Done(s, e.th) /\ Label(s, e.th) = e.lb /\ s' = Sec(s, e.th)
       [] e.a = "end"   -> EndOk(e) /\ Judge(e) /\ UNCHANGED s
TInit == Init /\ l = 1
TSpec == TInit /\ [][TStep]_tvars
Accepted ==
  LET d == TLCGet("stats").diameter IN
  IF d - 1 = Len(Ev) THEN TRUE
  ELSE /\ PrintT(<<"REJECT", d, ToJson([a |-> Ev[d].a])>>)
       /\ FALSE
=============================================================================
