----------------------------- MODULE EdgeTypes -----------------------------
(* C20, the name registry behind create_edge: LpgStore::get_or_create_edge_type_id (and its twin for labels).

   Lock scopes, as in the code:
     Fast(t)    read lock on type_to_id: a registered name returns its id at once
     Slow(t)    write locks on type_to_id and id_to_type: look again (the double check); if the name is still
                unknown, id = |id_to_type|, insert name -> id, push the name
     Store(t)   the edge record is written with the id the thread obtained (create_edge's own section, later)
   Switch "NoDoubleCheck": the slow path does not look again (or looks but still allocates: `entry().or_insert(id)`
   followed by an unconditional push and `return id` - seeded change C20d), so two first edges of one type get two ids.

   Property: at quiescence lookup by type name finds exactly the edges created with that name (TypeMirror) and every
   edge's id resolves to the name it was created with (NameOk); ids of distinct names are distinct (Injective). *)
EXTENDS Naturals, Sequences, FiniteSets
CONSTANTS Threads, Names, AsIs
\* every thread creates one edge; Want[t] is the type name it uses
CONSTANT Want
VARIABLES toId, toName, pc, got, edges
vars == <<toId, toName, pc, got, edges>>
NoId == 99
Init == /\ toId = [n \in Names |-> NoId] /\ toName = <<>>
        /\ pc = [t \in Threads |-> "fast"] /\ got = [t \in Threads |-> NoId] /\ edges = {}
Fast(t) == /\ pc[t] = "fast"
           /\ IF toId[Want[t]] # NoId THEN got' = [got EXCEPT ![t] = toId[Want[t]]] /\ pc' = [pc EXCEPT ![t] = "store"]
              ELSE got' = got /\ pc' = [pc EXCEPT ![t] = "slow"]
           /\ UNCHANGED <<toId, toName, edges>>
Slow(t) == /\ pc[t] = "slow"
           /\ IF toId[Want[t]] # NoId /\ "NoDoubleCheck" \notin AsIs
              THEN got' = [got EXCEPT ![t] = toId[Want[t]]] /\ UNCHANGED <<toId, toName>>
              ELSE LET id == Len(toName) IN
                   /\ got' = [got EXCEPT ![t] = id]
                   \* `entry().or_insert(id)`: a mapping that exists is kept
                   /\ toId' = [toId EXCEPT ![Want[t]] = IF @ = NoId THEN id ELSE @]
                   /\ toName' = Append(toName, Want[t])
           /\ pc' = [pc EXCEPT ![t] = "store"]
           /\ UNCHANGED edges
Store(t) == /\ pc[t] = "store"
            /\ edges' = edges \cup {[by |-> t, tid |-> got[t]]}
            /\ pc' = [pc EXCEPT ![t] = "done"]
            /\ UNCHANGED <<toId, toName, got>>
Next == \E t \in Threads : Fast(t) \/ Slow(t) \/ Store(t)
Spec == Init /\ [][Next]_vars
Quiescent == \A t \in Threads : pc[t] = "done"
\* edges_with_type(name): the edges whose type id is the one the name maps to
ByType(n) == IF toId[n] = NoId THEN {} ELSE {e \in edges : e.tid = toId[n]}
TypeMirror == Quiescent => \A n \in Names : ByType(n) = {e \in edges : Want[e.by] = n}
NameOk == \A e \in edges : e.tid < Len(toName) /\ toName[e.tid + 1] = Want[e.by]
Injective == \A a, b \in Names : (a # b /\ toId[a] # NoId) => toId[a] # toId[b]
=============================================================================
