--------------------------- MODULE Trace_RdfConc ---------------------------
(* Validates recorded controlled schedules of real threads on a real RdfStore: every granted step
   (thread, yield label) must be the enabled RdfConc step of that thread at that label; at the end
   every returned flag equals the model's, and the complete quiescent projection of the store
   equals the lookups defined from the model's primary set (so a torn index is a rejection).
   Mirror and Linearizable are evaluated as invariants on every state. *)
EXTENDS RdfConc, Json, IOUtils
Ev == ndJsonDeserialize(IOEnv.TRACE)
TProg == [t \in 1..Len(Ev[1].prog) |-> Ev[1].prog[t]]
TThreads == 1..Len(Ev[1].prog)
VARIABLE l
tvars == <<vars, l>>
Code(t) == t[1] * 100 + t[2] * 10 + t[3]
Codes(X) == {Code(t) : t \in X}
Is(q, X) == Range(q) = X /\ Len(q) = Cardinality(X)
Matches(pat, t) == (pat[1] = 0 \/ pat[1] = t[1]) /\ (pat[2] = 0 \/ pat[2] = t[2]) /\ (pat[3] = 0 \/ pat[3] = t[3])
Find(X, pat) == {t \in X : Matches(pat, t)}
SO == 1..3    \* the harness store is projected over 3 subjects x 2 predicates x 3 objects
PatIdx(pat) == pat[1] * 12 + pat[2] * 4 + pat[3] + 1
EndOk(e) ==
  /\ Quiescent
  /\ \A t \in Threads : e.rets[t] = ret[t]
  /\ e.obs.len = Cardinality(set) /\ Is(e.obs.tr, Codes(set))
  /\ \A pat \in (0..3) \X (0..2) \X (0..3) : Is(e.obs.f[PatIdx(pat)], Codes(Find(set, pat)))
  /\ \A s \in 1..3 : Is(e.obs.ws[s], Codes(Find(set, <<s, 0, 0>>)))
  /\ \A p \in 1..2 : Is(e.obs.wp[p], Codes(Find(set, <<0, p, 0>>)))
  /\ \A o \in 1..3 : Is(e.obs.wo[o], Codes(Find(set, <<0, 0, o>>)))
  /\ Is(e.obs.subj, {x[1] : x \in set}) /\ Is(e.obs.pred, {x[2] : x \in set}) /\ Is(e.obs.obj, {x[3] : x \in set})
  /\ e.obs.stats = <<Cardinality(set), Cardinality({x[1] : x \in set}), Cardinality({x[2] : x \in set}), Cardinality({x[3] : x \in set})>>
TStep ==
  /\ l <= Len(Ev)
  /\ l' = l + 1
  /\ LET e == Ev[l] IN
     CASE e.a = "reset" -> /\ set' = {} /\ si' = [s \in S |-> <<>>] /\ pi' = [p \in P |-> <<>>] /\ oi' = [o \in O |-> <<>>]
                           /\ pc' = [t \in Threads |-> "start"] /\ ip' = [t \in Threads |-> 1] /\ ret' = [t \in Threads |-> <<>>]
       [] e.a = "step"  -> ~Done(e.th) /\ Label(e.th) = e.lb /\ Step(e.th)
       [] e.a = "end"   -> EndOk(e) /\ UNCHANGED vars
TInit == Init /\ l = 1
TSpec == TInit /\ [][TStep]_tvars
Accepted ==
  LET d == TLCGet("stats").diameter IN
  IF d - 1 = Len(Ev) THEN TRUE
  ELSE /\ PrintT(<<"REJECT", d, ToJson([a |-> Ev[d].a])>>)
       /\ FALSE
=============================================================================
