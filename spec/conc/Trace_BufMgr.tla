---------------------------- MODULE Trace_BufMgr ----------------------------
(* Recorded controlled schedules of real threads on a real BufferManager validated against BufMgr.tla:
   every grant decision and every accounting value read back must equal the model's; WithinLimit and
   ZeroAtEnd are invariants. *)
EXTENDS BufMgr, Json, IOUtils
Ev == ndJsonDeserialize(IOEnv.TRACE)
TProg == [t \in 1..Len(Ev[1].prog.threads) |-> Ev[1].prog.threads[t]]
TThreads == 1..Len(Ev[1].prog.threads)
VARIABLE l
tvars == <<vars, l>>
TStep ==
  /\ l <= Len(Ev)
  /\ l' = l + 1
  /\ LET e == Ev[l] IN
     CASE e.a = "reset" -> /\ alloc' = 0 /\ pc' = [t \in Threads |-> "start"] /\ ip' = [t \in Threads |-> 1]
                           /\ held' = [t \in Threads |-> <<>>] /\ ret' = [t \in Threads |-> <<>>]
       [] e.a = "step"  -> ~Done(e.th) /\ Label(e.th) = e.lb /\ Step(e.th)
       [] e.a = "end"   -> Quiescent /\ (\A t \in Threads : e.rets[t] = ret[t]) /\ e.obs.allocated = alloc /\ e.obs.hard = Hard /\ UNCHANGED vars
TInit == Init /\ l = 1
TSpec == TInit /\ [][TStep]_tvars
Accepted ==
  LET d == TLCGet("stats").diameter IN
  IF d - 1 = Len(Ev) THEN TRUE ELSE PrintT(<<"REJECT", d, ToJson([a |-> Ev[d].a])>>) /\ FALSE
=============================================================================
