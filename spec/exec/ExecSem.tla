------------------------------ MODULE ExecSem ------------------------------
(* C17: the sequential meaning of an operator pipeline over a table, and the judgement of every recorded run.

   A table is a sequence of rows, a row a sequence of integer cells, NULL a distinguished cell.  A pipeline is a
   sequence of operators:
       filter(col, f, v) | notnull(col) | project(exprs) | limit(n) | skip(n) | skiplimit(s, n)
       | distinct | sort(keys) | agg(group, aggs)          (agg only as the last operator)
   Seq(ops, rows) is what "simple sequential execution" returns.  Each case of the trace carries the table, the
   pipeline and the rows returned by every execution mode (pull-based and push-based with several chunk sizes,
   spilling sort / aggregation under several thresholds, the parallel pipeline with several worker counts and
   morsel sizes); TLC checks each run against Seq (sequence equality for sequential modes, bag equality for
   parallel runs and for aggregation, whose group order is unspecified), that no mode failed and that no spill
   file is left.  Tables too large to evaluate here ("big": around the 1024-row morsel and 2048-row chunk
   boundaries) are checked for agreement of all modes with the first one.
   "merge" cases check the parallel merge helpers against the same definitions on a partitioned table.
   "join" cases check the hash join and the nested-loop join, under every chunking of their inputs, against JoinDef. *)
EXTENDS Naturals, Integers, Sequences, FiniteSets, TLC, SequencesExt, Json, IOUtils
Cases == ndJsonDeserialize(IOEnv.TRACE)
VARIABLE l
NULL == 0 - 999999
Rng(s) == {s[i] : i \in DOMAIN s}
Min2(a, b) == IF a < b THEN a ELSE b
Abs(x) == IF x < 0 THEN 0 - x ELSE x
\* ---------------------------------------------------------------- stateless operators
Holds(f, a, b) == CASE f = "eq" -> a = b [] f = "ne" -> a # b [] f = "lt" -> a < b [] f = "le" -> a <= b [] f = "gt" -> a > b [] f = "ge" -> a >= b
\* column predicates treat NULL as a value that is different from every integer and not ordered with any:
\* NULL <> v holds, every other comparison with NULL does not (pull ExpressionPredicate and push ColumnPredicate alike)
Keep(op, r) == IF op.op = "notnull" THEN r[op.col] # NULL
               ELSE IF r[op.col] = NULL THEN op.f = "ne" ELSE Holds(op.f, r[op.col], op.v)
EvalP(e, r) == CASE e.k = "col" -> r[e.c] [] e.k = "const" -> e.v
                 [] e.k = "add" -> IF r[e.a] = NULL \/ r[e.b] = NULL THEN NULL ELSE r[e.a] + r[e.b]
Window(rows, s, n) == IF s >= Len(rows) THEN <<>> ELSE SubSeq(rows, s + 1, Min2(Len(rows), s + n))
\* first occurrences, in input order
Distinct(rows) == LET idx == SelectSeq([i \in DOMAIN rows |-> i], LAMBDA i : \A j \in 1..(i - 1) : rows[j] # rows[i]) IN [k \in DOMAIN idx |-> rows[idx[k]]]
\* ---------------------------------------------------------------- ordering
\* one key: NULLs first or last as asked, then the direction reverses the whole comparison (NULL placement included) -
\* this is what every implementation in the code base does (push, pull, external sort, k-way merge)
Cmp1(k, a, b) ==       \* -1, 0, 1
  LET raw == IF a = NULL /\ b = NULL THEN 0
             ELSE IF a = NULL THEN (IF k.nf THEN 0 - 1 ELSE 1)
             ELSE IF b = NULL THEN (IF k.nf THEN 1 ELSE 0 - 1)
             ELSE IF a < b THEN 0 - 1 ELSE IF a > b THEN 1 ELSE 0
  IN IF k.desc THEN 0 - raw ELSE raw
RECURSIVE CmpKeys(_, _, _, _)
CmpKeys(keys, i, x, y) == IF i > Len(keys) THEN 0
                          ELSE LET c == Cmp1(keys[i], x[keys[i].col], y[keys[i].col]) IN IF c # 0 THEN c ELSE CmpKeys(keys, i + 1, x, y)
Sorted(keys, rows) == \A i \in 1..(Len(rows) - 1) : CmpKeys(keys, 1, rows[i], rows[i + 1]) <= 0
Sort(keys, rows) == SortSeq(rows, LAMBDA x, y : CmpKeys(keys, 1, x, y) < 0)       \* the generator makes the keys total (a unique last key)
\* ---------------------------------------------------------------- sequential meaning (everything but agg)
Apply(op, rows) ==
  CASE op.op \in {"filter", "notnull"} -> SelectSeq(rows, LAMBDA r : Keep(op, r))
    [] op.op = "project" -> [i \in DOMAIN rows |-> [j \in DOMAIN op.exprs |-> EvalP(op.exprs[j], rows[i])]]
    [] op.op = "limit" -> Window(rows, 0, op.n)
    [] op.op = "skip" -> Window(rows, op.n, Len(rows))
    [] op.op = "skiplimit" -> Window(rows, op.s, op.n)
    [] op.op = "distinct" -> Distinct(rows)
    [] op.op = "sort" -> Sort(op.keys, rows)
RECURSIVE SeqFrom(_, _, _)
SeqFrom(ops, i, rows) == IF i > Len(ops) \/ ops[i].op = "agg" THEN rows ELSE SeqFrom(ops, i + 1, Apply(ops[i], rows))
HasAgg(ops) == ops # <<>> /\ ops[Len(ops)].op = "agg"
\* ---------------------------------------------------------------- aggregation (last operator): judged per output row
RECURSIVE SumSeq(_, _)
SumSeq(s, i) == IF i > Len(s) THEN 0 ELSE s[i] + SumSeq(s, i + 1)
AggCellOk(a, G, cell) ==     \* G: the group's rows; a: [f, col]
  LET vals == SelectSeq([i \in DOMAIN G |-> G[i][a.col]], LAMBDA x : x # NULL)
      sum == SumSeq(vals, 1)  n == Len(vals)
  IN CASE a.f = "count_star" -> cell = Len(G)
       [] a.f = "count" -> cell = n
       [] a.f = "sum" -> cell = sum                                     \* SUM of nothing is 0
       [] a.f = "min" -> IF n = 0 THEN cell = NULL ELSE cell \in Rng(vals) /\ \A x \in Rng(vals) : cell <= x
       [] a.f = "max" -> IF n = 0 THEN cell = NULL ELSE cell \in Rng(vals) /\ \A x \in Rng(vals) : cell >= x
       [] a.f = "avg" -> IF n = 0 THEN cell = NULL
                         ELSE LET th == IF cell >= 500000000 THEN cell - 1000000000 ELSE cell * 1000 IN   \* thousandths
                              2 * Abs(th * n - sum * 1000) <= n
AggOk(op, rows, out) ==
  LET ng == Len(op.group)
      keyOf(r) == [j \in 1..ng |-> r[op.group[j]]]
      keys == {keyOf(rows[i]) : i \in DOMAIN rows}
      rowOk(o, G) == Len(o) = ng + Len(op.aggs) /\ \A j \in DOMAIN op.aggs : AggCellOk(op.aggs[j], G, o[ng + j])
  IN IF ng = 0 THEN Len(out) = 1 /\ rowOk(out[1], rows)                  \* one row, also over an empty input
     ELSE /\ Len(out) = Cardinality(keys)
          /\ {[j \in 1..ng |-> out[i][j]] : i \in DOMAIN out} = keys      \* every group once
          /\ \A i \in DOMAIN out : rowOk(out[i], SelectSeq(rows, LAMBDA r : keyOf(r) = [j \in 1..ng |-> out[i][j]]))
\* ---------------------------------------------------------------- bags
BagOf(s) == [r \in Rng(s) |-> Cardinality({i \in DOMAIN s : s[i] = r})]
BagEq(a, b) == Len(a) = Len(b) /\ (IF Cardinality(Rng(a)) = Len(a) THEN Rng(a) = Rng(b) ELSE BagOf(a) = BagOf(b))
\* ---------------------------------------------------------------- judging one pipeline case
RunOk(c, r) ==
  /\ ~r.panic /\ ~r.err /\ r.left = 0
  /\ IF c.big THEN (IF r.kind = "par" \/ c.mode = "bag" THEN BagEq(r.rows, c.runs[1].rows) ELSE r.rows = c.runs[1].rows)
     ELSE LET pre == SeqFrom(c.ops, 1, c.rows) IN
          IF HasAgg(c.ops) THEN AggOk(c.ops[Len(c.ops)], pre, r.rows)
          ELSE IF r.kind = "par" THEN BagEq(r.rows, pre) ELSE r.rows = pre
PipelineFailing(c) == {c.runs[i].name : i \in {j \in DOMAIN c.runs : ~RunOk(c, c.runs[j])}}
\* ---------------------------------------------------------------- merge helpers on a partitioned table
RECURSIVE Concat(_, _)
Concat(ss, i) == IF i > Len(ss) THEN <<>> ELSE ss[i] \o Concat(ss, i + 1)
MergeParts(c) ==
  LET keys == << [col |-> 1, desc |-> c.desc, nf |-> c.desc], [col |-> c.ncols, desc |-> FALSE, nf |-> FALSE] >>
      all == Concat(c.parts, 1)
      vals == SelectSeq([i \in DOMAIN c.rows |-> c.rows[i][2]], LAMBDA x : x # NULL)
      proj == [i \in DOMAIN c.rows |-> <<c.rows[i][1], c.rows[i][2]>>]
  IN << <<"partition_is_the_table", all = c.rows>>,
        <<"sorted_runs", \A p \in DOMAIN c.parts : c.runs[p] = Sort(keys, c.parts[p])>>,
        <<"merge_sorted_runs", c.merged = Sort(keys, c.rows)>>,
        <<"merge_sorted_chunks", c.merged_chunks = Sort(keys, c.rows)>>,
        <<"sequential_sort", c.whole = Sort(keys, c.rows)>>,
        <<"merge_distinct_results", Len(c.distinct) = Cardinality(Rng(proj)) /\ Rng(c.distinct) = Rng(proj)>>,
        <<"accumulator_merge", /\ c.acc.count = Len(vals) /\ c.acc.sum = SumSeq(vals, 1)
                               /\ AggCellOk([f |-> "min", col |-> 2], c.rows, c.acc.min) /\ AggCellOk([f |-> "max", col |-> 2], c.rows, c.acc.max)
                               /\ AggCellOk([f |-> "avg", col |-> 2], c.rows, c.acc.avg)>>,
        <<"fold", /\ c.fold.count = Cardinality({i \in DOMAIN vals : vals[i] > 0}) /\ c.fold.sum = SumSeq(vals, 1)
                  /\ AggCellOk([f |-> "min", col |-> 2], c.rows, c.fold.min) /\ AggCellOk([f |-> "max", col |-> 2], c.rows, c.fold.max)
                  /\ c.fold.stats[1] = Len(vals) /\ c.fold.stats[2] = SumSeq(vals, 1)
                  /\ AggCellOk([f |-> "min", col |-> 2], c.rows, c.fold.stats[3]) /\ AggCellOk([f |-> "max", col |-> 2], c.rows, c.fold.stats[4])>>,
        \* morsels cover 0..n exactly once, in order, each at most the requested size
        <<"morsels", LET m == c.morsels.ranges  n == Len(c.rows) IN
                     IF n = 0 THEN m = <<>>
                     ELSE /\ m # <<>> /\ m[1][1] = 0 /\ m[Len(m)][2] = n
                          /\ \A i \in DOMAIN m : m[i][1] < m[i][2] /\ m[i][2] - m[i][1] <= c.morsels.size
                          /\ \A i \in 1..(Len(m) - 1) : m[i][2] = m[i + 1][1]>> >>
MergeFailing(c) == IF c.panic THEN {"panic"} ELSE LET P == MergeParts(c) IN {P[i][1] : i \in {j \in DOMAIN P : ~P[j][2]}}
\* ---------------------------------------------------------------- joins
\* A "join" case: tables c.L and c.R (rows <<key, value, unique id>>; ids 1..), a join type and, per run (one operator
\* with one chunking of its two inputs), the result as a list of codes lid * 10000 + rid (0 for the NULL-extended side)
\* and the flag `cols_ok` (every output cell is the cell of the source row the code names).  The definition: rows pair
\* up when their keys are equal and not NULL.  Cases whose tables contain NULL keys (c.nullkeys) are judged for
\* agreement between the chunkings of each operator only (the two operators treat NULL keys differently in outer joins),
\* and so are the cases whose output exceeds one 2048-row chunk (c.big: too many pairs to enumerate here).
Code(li, ri) == li * 10000 + ri
JPairs(c) == {<<i, j>> \in (DOMAIN c.L) \X (DOMAIN c.R) : c.L[i][1] # NULL /\ c.L[i][1] = c.R[j][1]}
JoinDef(c) ==
  LET P == JPairs(c)
      inner == {Code(c.L[p[1]][3], c.R[p[2]][3]) : p \in P}
      lun == {Code(c.L[i][3], 0) : i \in {i \in DOMAIN c.L : ~\E p \in P : p[1] = i}}
      run_ == {Code(0, c.R[j][3]) : j \in {j \in DOMAIN c.R : ~\E p \in P : p[2] = j}}
  IN CASE c.type = "inner" -> inner
       [] c.type = "left" -> inner \cup lun
       [] c.type = "right" -> inner \cup run_
       [] c.type = "full" -> inner \cup lun \cup run_
       [] c.type = "cross" -> {Code(c.L[i][3], c.R[j][3]) : i \in DOMAIN c.L, j \in DOMAIN c.R}
       [] c.type = "semi" -> {Code(c.L[p[1]][3], 0) : p \in P}
       [] c.type = "anti" -> lun
JoinFailing(c) ==
  IF c.panic THEN {"panic"}
  ELSE UNION { LET r == c.runs[i]
                   first == CHOOSE j \in DOMAIN c.runs : c.runs[j].op = r.op /\ \A k \in DOMAIN c.runs : c.runs[k].op = r.op => j <= k IN
               IF r.err THEN {r.name}
               ELSE IF ~r.cols_ok THEN {r.name}
               \* each pair once: the codes are distinct, so set equality plus length is bag equality
               ELSE IF ~c.nullkeys /\ ~c.big /\ ~(Rng(r.codes) = JoinDef(c) /\ Len(r.codes) = Cardinality(JoinDef(c))) THEN {r.name}
               ELSE IF r.codes # c.runs[first].codes THEN {r.name}      \* codes are recorded sorted
               ELSE {} : i \in DOMAIN c.runs }
Failing(c) == IF c.k = "pipeline" THEN PipelineFailing(c) ELSE IF c.k = "join" THEN JoinFailing(c) ELSE MergeFailing(c)
Init == l = 1
Step == /\ l <= Len(Cases)
        /\ (LET f == Failing(Cases[l]) IN IF f = {} THEN TRUE ELSE PrintT(<<"MISMATCH", l, Cases[l].cid, f>>))
        /\ l' = l + 1
Spec == Init /\ [][Step]_l
=============================================================================
