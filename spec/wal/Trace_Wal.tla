----------------------------- MODULE Trace_Wal -----------------------------
(* Trace validation for Wal.tla.  Events come from the harness `gv wal` driving a real persistent
   GrafeoDB: API calls with the number of records the WAL hook saw, explicit sync / checkpoint /
   close, crashes (the on-disk image cut to a byte length per file, reported as records kept + torn
   flag), opens with the set `match` of history positions whose full dump equals the recovered dump,
   and `probe` events: hypothetical crash images / single-bit flips opened on a copy. After every
   event the per-file counters (records appended, flushed, fsynced) derived from the hook must equal
   the model's. *)
EXTENDS Wal, Json, IOUtils
Ev == ndJsonDeserialize(IOEnv.TRACE)
VARIABLE l
tvars == <<vars, l>>

St(fs) == [f \in 1..Len(fs) |-> <<Len(fs[f].recs), fs[f].w, fs[f].s>>]
\* observed per-file counters: appended and fsynced records (hook) are exact; the records found on disk are at
\* least what the durability-mode step flushed (a BufWriter may write through earlier)
StOk(fs, st) == /\ Len(st) = Len(fs)
                /\ \A f \in 1..Len(fs) : st[f][1] = Len(fs[f].recs) /\ st[f][3] = fs[f].s
                                          /\ st[f][2] >= fs[f].w /\ st[f][2] <= Len(fs[f].recs)
\* where the files end after the call, as observed: the rotation oracle of Wal!RotCond
Tg(e) == [f \in 1..Len(e.st) |-> e.st[f][1]]
LastId(h) == IF h = <<>> THEN 0 ELSE h[Len(h)]
InSeq(x, q) == \E j \in DOMAIN q : q[j] = x

Reset == /\ files' = <<NewFile>> /\ meta' = 0 /\ open' = TRUE /\ mem' = {}
         /\ issued' = 0 /\ durable' = 0 /\ crashes' = 0 /\ ckpts' = 0 /\ closes' = 0 /\ flips' = 0
         /\ hist' = <<>> /\ okRec' = TRUE /\ rsince' = 0

\* an API call that logged m data records (+ its commit marker); id taken from the trace
IssueId(i, m, tg) ==
  /\ open
  /\ LET recs == [j \in 1..m |-> OpR(i)] \o (IF "NoCommitMarkerBeforeClose" \in AsIs \/ m = 0 THEN <<>> ELSE <<Cm>>)
         st == LogManyG(<<files, rsince>>, recs, tg)
     IN /\ issued' = issued + 1 /\ mem' = (IF m = 0 THEN mem ELSE mem \cup {i})
        /\ hist' = (IF m = 0 THEN hist ELSE Append(hist, i))
        /\ files' = st[1] /\ rsince' = st[2]
        /\ durable' = DurOf(st[1], meta, hist', durable)
  /\ UNCHANGED <<meta, open, crashes, ckpts, closes, flips, okRec>>

\* what had been promised when the crash struck: for an image that can only come from a crash inside rotate()
\* (an older file shorter than its fsynced length) the rotation's own fsync is not counted
DurableAt(img) == IF \E f \in 1..Len(files) : img[f][1] < files[f].s
                  THEN LeadIn(hist, RecoveredOf(SyncedOnly(PreRotate(files, img)), meta), 0) ELSE durable
CrashImg(img) ==
  /\ open /\ open' = FALSE /\ crashes' = crashes + 1
  /\ Len(img) = Len(files)
  /\ \A f \in 1..Len(files) : img[f][1] >= Floor(files, f) /\ img[f][1] <= Len(files[f].recs) /\ (img[f][2] => img[f][1] < Len(files[f].recs))
  /\ files' = ImageOf(files, img) /\ rsince' = 0
  /\ durable' = DurableAt(img)
  /\ UNCHANGED <<meta, mem, issued, ckpts, closes, flips, hist, okRec>>

\* a hypothetical crash image (and optional bit flip) opened on a copy: no state change
FlipImg(fs, fl) == IF fl[1] = 0 THEN fs ELSE [fs EXCEPT ![fl[1]].recs = [@ EXCEPT ![fl[2]] = Junk]]
ProbeOk(e) ==
  /\ Len(e.img) = Len(files)
  /\ \A f \in 1..Len(files) : e.img[f][1] >= Floor(files, f) /\ e.img[f][1] <= Len(files[f].recs)
  /\ LET fs == FlipImg(ImageOf(files, e.img), e.flip)
         R == RecoveredOf(fs, meta)
         k == PrefixLen(R, hist)
     IN /\ e.ok                                             \* recovery is total: the open succeeded
        /\ k <= Len(hist)                                   \* some prefix of the issued operations
        /\ (e.flip[1] = 0 => k >= DurableAt(e.img))                \* at least everything before the last sync
        /\ InSeq(LastId(SubSeq(hist, 1, k)), e.match)       \* and the real database shows exactly that prefix

TStep ==
  /\ l <= Len(Ev)
  /\ l' = l + 1
  /\ LET e == Ev[l] IN
     CASE e.a = "reset" -> Reset /\ e.mode = Mode
       [] e.a = "op"    -> IssueId(e.i, e.nrec, Tg(e)) /\ (e.chg => e.nrec > 0) /\ e.fresh /\ StOk(files', e.st)
       [] e.a = "sync"  -> Sync /\ e.ok /\ StOk(files', e.st)
       [] e.a = "ckpt"  -> CheckpointG(Tg(e)) /\ e.ok /\ StOk(files', e.st)
       [] e.a = "close" -> CloseG(Tg(e)) /\ e.ok /\ StOk(files', e.st)
       [] e.a = "crash" -> CrashImg(e.img)
       [] e.a = "open"  -> OpenG(Tg(e)) /\ e.ok /\ okRec' /\ InSeq(LastId(hist'), e.match) /\ StOk(files', e.st)
       [] e.a = "probe" -> ProbeOk(e) /\ UNCHANGED vars

TInit == Init /\ l = 1
TSpec == TInit /\ [][TStep]_tvars
Accepted ==
  LET d == TLCGet("stats").diameter IN
  IF d - 1 = Len(Ev) THEN TRUE
  ELSE /\ PrintT(<<"REJECT", d, ToJson(Ev[d])>>)
       /\ FALSE
=============================================================================
