SPECIFICATION Spec
CONSTANTS
  MaxOps = 3
  MaxLog = 4
  Mode = "Flush"
  BatchN = 3
  AsIs = {}
  MaxCrashes = 2
  MaxCkpt = 1
  MaxCloses = 1
  MaxFlips = 1
INVARIANT Consistent
INVARIANT RecoveryOk
INVARIANT DurableBounded
CHECK_DEADLOCK FALSE
