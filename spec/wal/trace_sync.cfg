SPECIFICATION TSpec
CONSTANTS
  MaxOps = 100000
  MaxLog = 100000
  Mode = "Sync"
  BatchN = 3
  AsIs = {}
  MaxCrashes = 100000
  MaxCkpt = 100000
  MaxCloses = 100000
  MaxFlips = 0
POSTCONDITION Accepted
CHECK_DEADLOCK FALSE
