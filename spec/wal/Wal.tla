-------------------------------- MODULE Wal --------------------------------
(* Durability model of a persistent GrafeoDB (C05, C06): WalManager (log.rs), WalRecovery
   (recovery.rs) and the way GrafeoDB (database.rs) uses them.

   A log file is a sequence of records plus two counters: w = records that reached the OS
   (BufWriter flushed), s = records made durable by fsync.  Records are abstract:
     [k |-> "op", i |-> op id]   one data record of API call i (a call logs m >= 0 of them)
     [k |-> "commit"] [k |-> "ckpt"] [k |-> "abort"]   control records
     [k |-> "junk"]   a torn or corrupt record (what a crash or a bit flip leaves behind)

   Actions follow the code's steps: Issue (log_wal x m + commit_wal), IssueUnlogged (mutations
   that never reach the log), Sync (WalManager::sync), Checkpoint (wal_checkpoint), Close, Crash
   (process death: BufWriter contents lost, any un-fsynced suffix of every file lost, first lost
   record possibly torn), BitFlip, Open (recover_internal + repair + abort marker).

   Ghost: hist = op ids that must be present; durable = length of the prefix of hist guaranteed by
   the last successful fsync; okRec = every Open so far produced a prefix of hist >= durable.

   Deviation switches (AsIs):  repaired position = what the fix: commits implement.
     "NoCommitMarkerBeforeClose"  API calls log no commit marker            (fixed f1d0160)
     "CheckpointDropsPending"     wal_checkpoint writes no commit marker     (fixed 426d63f)
     "RotateWithoutFsync"         rotate() does not fsync the old file       (fixed b562c6a)
     "ContinueAfterBadRecord"     recovery continues with later files        (fixed ce86a4c)
     "AppendBehindGarbage"        open appends behind a torn tail            (fixed 210e1a9)
     "KeepUncommittedTail"        no abort marker after recovery             (fixed 210e1a9)
     "SkipPreCheckpointFiles"     recovery skips files before the checkpoint's file although no
                                  snapshot of their contents exists          (known; WalManager level)
     "UnloggedOps"                some mutations are never logged            (known)
     "RepairNewestOnly"           repair() looks for a torn tail in the newest file only (hypothetical: never in
                                  the tree; kept as the vacuity guard of the crash-inside-rotate window)
*)
EXTENDS Naturals, Sequences, FiniteSets, TLC
CONSTANTS MaxOps, MaxLog, Mode, BatchN, AsIs, MaxCrashes, MaxCkpt, MaxCloses, MaxFlips
VARIABLES files, meta, open, mem, issued, durable, crashes, ckpts, closes, flips, hist, okRec, rsince
vars == <<files, meta, open, mem, issued, durable, crashes, ckpts, closes, flips, hist, okRec, rsince>>

Switches == {"NoCommitMarkerBeforeClose", "CheckpointDropsPending", "SkipPreCheckpointFiles",
             "RotateWithoutFsync", "ContinueAfterBadRecord", "AppendBehindGarbage", "KeepUncommittedTail",
             "UnloggedOps", "RepairNewestOnly"}
OpR(i) == [k |-> "op", i |-> i]
Cm == [k |-> "commit", i |-> 0]
Ck == [k |-> "ckpt", i |-> 0]
Ab == [k |-> "abort", i |-> 0]
Junk == [k |-> "junk", i |-> 0]
\* ps: what the previous file had fsynced when the rotation that created this file began (rotate() creates the new
\* file first and only then flushes and fsyncs the old one: a crash in between leaves the old file with any length
\* from ps on, next to the new, still empty file)
NewFile == [recs |-> <<>>, w |-> 0, s |-> 0, ps |-> 0]

Init == /\ files = <<NewFile>> /\ meta = 0 /\ open = TRUE /\ mem = {}
        /\ issued = 0 /\ durable = 0 /\ crashes = 0 /\ ckpts = 0 /\ closes = 0 /\ flips = 0
        /\ hist = <<>> /\ okRec = TRUE /\ rsince = 0

A(fs) == Len(fs)
LenA(fs) == Len(fs[Len(fs)].recs)
\* (an fsync of the last file also ends the window in which a crash could still have struck inside the rotation that created it)
SyncAll(fs) == [fs EXCEPT ![Len(fs)].w = LenA(fs), ![Len(fs)].s = LenA(fs), ![Len(fs)].ps = IF Len(fs) > 1 THEN fs[Len(fs) - 1].s ELSE 0]
FlushAll(fs) == [fs EXCEPT ![Len(fs)].w = LenA(fs)]

\* WalManager::log: append to the BufWriter, then the durability-mode step, then rotation.
\* Returns <<files, rsince>>.
ModeStep(fs, r, rs) ==
  CASE Mode = "Sync"  -> IF r.k = "commit" THEN <<SyncAll(fs), 0>> ELSE <<fs, rs + 1>>
    [] Mode = "Batch" -> IF rs + 1 >= BatchN THEN <<SyncAll(fs), 0>> ELSE <<fs, rs + 1>>
    [] OTHER          -> <<FlushAll(fs), rs + 1>>            \* Adaptive / NoSync: flush only
\* Rotation: after a record is appended and the durability-mode step is done, the file is rotated when it has reached
\* its size limit.  tg = <<>>: the limit is MaxLog records (model checking).  Otherwise tg is the observed number of
\* records of every file after the call (trace validation: the limit is in bytes, so the trace says where the files end).
RotCond(fs, tg) == IF tg = <<>> THEN LenA(fs) >= MaxLog ELSE Len(fs) < Len(tg) /\ LenA(fs) >= tg[Len(fs)]
RotateG(fs, tg) ==
  IF RotCond(fs, tg)
  THEN LET old == [fs EXCEPT ![Len(fs)].w = LenA(fs),
                             ![Len(fs)].s = IF "RotateWithoutFsync" \in AsIs THEN @ ELSE LenA(fs)]
       IN Append(old, [NewFile EXCEPT !.ps = fs[Len(fs)].s])
  ELSE fs
Rotate(fs) == RotateG(fs, <<>>)
Log1G(st, r, tg) == LET a == [st[1] EXCEPT ![Len(st[1])].recs = Append(@, r)]
                        m == ModeStep(a, r, st[2])
                    IN <<RotateG(m[1], tg), m[2]>>
RECURSIVE LogManyG(_, _, _)
LogManyG(st, rs, tg) == IF rs = <<>> THEN st ELSE LogManyG(Log1G(st, Head(rs), tg), Tail(rs), tg)
LogMany(st, rs) == LogManyG(st, rs, <<>>)

\* ---- recovery: WalRecovery::recover_internal
RECURSIVE ScanFile(_, _, _)
ScanFile(rs, pend, comm) ==       \* returns [pend, comm, bad]
  IF rs = <<>> THEN [pend |-> pend, comm |-> comm, bad |-> FALSE]
  ELSE LET r == Head(rs) IN
       IF r.k = "junk" THEN [pend |-> pend, comm |-> comm, bad |-> TRUE]
       ELSE IF r.k = "op" THEN ScanFile(Tail(rs), pend \cup {r.i}, comm)
       ELSE IF r.k = "commit" THEN ScanFile(Tail(rs), {}, comm \cup pend)
       ELSE ScanFile(Tail(rs), {}, comm)                     \* abort, ckpt: clear pending
RECURSIVE ScanFiles(_, _, _, _)
ScanFiles(fs, f, pend, comm) ==
  IF f > Len(fs) THEN comm
  ELSE LET r == ScanFile(fs[f].recs, pend, comm) IN
       IF r.bad /\ "ContinueAfterBadRecord" \notin AsIs THEN r.comm
       ELSE ScanFiles(fs, f + 1, IF r.bad THEN {} ELSE r.pend, r.comm)
First(fs, mt) == IF mt = 0 \/ "SkipPreCheckpointFiles" \notin AsIs THEN 1 ELSE mt
RecoveredOf(fs, mt) == ScanFiles(fs, First(fs, mt), {}, {})
Recovered == RecoveredOf(files, meta)

\* ---- what the last fsyncs guarantee: recovery from the fsynced bytes alone
SyncedOnly(fs) == [f \in 1..Len(fs) |-> [recs |-> SubSeq(fs[f].recs, 1, fs[f].s), w |-> fs[f].s, s |-> fs[f].s, ps |-> 0]]
RECURSIVE LeadIn(_, _, _)
LeadIn(h, S, n) == IF n < Len(h) /\ h[n + 1] \in S THEN LeadIn(h, S, n + 1) ELSE n
DurOf(fs, mt, h, d) == LET x == LeadIn(h, RecoveredOf(SyncedOnly(fs), mt), 0) IN IF x > d THEN x ELSE d

\* ---- actions
Issue(m) ==
  /\ open /\ issued < MaxOps
  /\ LET i == issued + 1
         recs == [j \in 1..m |-> OpR(i)] \o (IF "NoCommitMarkerBeforeClose" \in AsIs \/ m = 0 THEN <<>> ELSE <<Cm>>)
         st == LogMany(<<files, rsince>>, recs)
     IN /\ issued' = i /\ mem' = (IF m = 0 THEN mem ELSE mem \cup {i})
        /\ hist' = (IF m = 0 THEN hist ELSE Append(hist, i))
        /\ files' = st[1] /\ rsince' = st[2]
        /\ durable' = DurOf(st[1], meta, hist', durable)
  /\ UNCHANGED <<meta, open, crashes, ckpts, closes, flips, okRec>>
\* a mutation that is applied in memory but never logged (remove_*_property, mutating queries)
IssueUnlogged ==
  /\ "UnloggedOps" \in AsIs
  /\ open /\ issued < MaxOps
  /\ issued' = issued + 1 /\ mem' = mem \cup {issued + 1} /\ hist' = Append(hist, issued + 1)
  /\ UNCHANGED <<files, meta, open, durable, crashes, ckpts, closes, flips, okRec, rsince>>
Sync ==
  /\ open
  /\ files' = SyncAll(files) /\ rsince' = 0
  /\ durable' = Len(hist)            \* a successful explicit sync promises everything issued so far
  /\ UNCHANGED <<meta, open, mem, issued, crashes, ckpts, closes, flips, hist, okRec>>
\* GrafeoDB::wal_checkpoint: [commit marker] ; log(Checkpoint) ; sync ; metadata ; sync
CheckpointG(tg) ==
  /\ open /\ ckpts < MaxCkpt /\ ckpts' = ckpts + 1
  /\ LET pre == IF "CheckpointDropsPending" \in AsIs THEN <<Ck>> ELSE <<Cm, Ck>>
         st == LogManyG(<<files, rsince>>, pre, tg)
         f1 == SyncAll(st[1])
     IN /\ files' = f1 /\ rsince' = 0 /\ meta' = Len(f1)
        /\ durable' = Len(hist)
  /\ UNCHANGED <<open, mem, issued, crashes, closes, flips, hist, okRec>>
Checkpoint == CheckpointG(<<>>)
CloseG(tg) ==
  /\ open /\ closes < MaxCloses /\ closes' = closes + 1 /\ open' = FALSE
  /\ LET st == LogManyG(<<files, rsince>>, <<Cm, Ck>>, tg)
         f1 == SyncAll(st[1])
     IN /\ files' = f1 /\ rsince' = 0 /\ meta' = Len(f1)
        /\ durable' = Len(hist)
  /\ UNCHANGED <<mem, issued, crashes, ckpts, flips, hist, okRec>>
Close == CloseG(<<>>)
\* crash image: file f keeps ch[f][1] records (s <= keep <= w); ch[f][2]: the next record is torn
ImageOf(fs, ch) ==
  [f \in 1..Len(fs) |->
     LET rs == SubSeq(fs[f].recs, 1, ch[f][1])
         rs2 == IF ch[f][2] THEN Append(rs, Junk) ELSE rs
     IN [recs |-> rs2, w |-> Len(rs2), s |-> Len(rs2), ps |-> 0]]
\* the least number of records file f keeps in a crash: its fsynced records - or, while the file after it is the
\* last one and still empty, what it had fsynced before that rotation began (crash inside rotate())
InRotate(fs, f) == f + 1 = Len(fs) /\ fs[f + 1].recs = <<>>
Floor(fs, f) == IF InRotate(fs, f) /\ fs[f + 1].ps < fs[f].s THEN fs[f + 1].ps ELSE fs[f].s
\* the fsyncs that had happened when such a crash struck: the rotation's own fsync is not among them
PreRotate(fs, ch) == [f \in 1..Len(fs) |-> IF ch[f][1] < fs[f].s THEN [fs[f] EXCEPT !.s = Floor(fs, f)] ELSE fs[f]]
RECURSIVE Choices(_, _)
Choices(fs, f) == IF f > Len(fs) THEN {<<>>}
                  ELSE { <<c>> \o rest : c \in { <<k, t>> : k \in Floor(fs, f)..fs[f].w, t \in BOOLEAN }, rest \in Choices(fs, f + 1) }
ValidChoice(fs, ch) == \A f \in 1..Len(fs) : ch[f][2] => ch[f][1] < fs[f].w
Crash ==
  /\ open /\ crashes < MaxCrashes /\ crashes' = crashes + 1 /\ open' = FALSE
  /\ \E ch \in Choices(files, 1) :
        /\ ValidChoice(files, ch) /\ files' = ImageOf(files, ch)
        \* a crash inside rotate() struck before the rotation's fsync: that fsync promised nothing
        /\ durable' = IF \E f \in 1..Len(files) : ch[f][1] < files[f].s
                      THEN LeadIn(hist, RecoveredOf(SyncedOnly(PreRotate(files, ch)), meta), 0) ELSE durable
  /\ rsince' = 0
  /\ UNCHANGED <<meta, mem, issued, ckpts, closes, flips, hist, okRec>>
\* single-bit corruption of a record of a closed database: the record (and the rest of its file) is unreadable
BitFlip ==
  /\ ~open /\ flips < MaxFlips /\ flips' = flips + 1
  /\ \E f \in 1..Len(files) : \E r \in 1..Len(files[f].recs) :
        files' = [files EXCEPT ![f].recs = [@ EXCEPT ![r] = Junk]]
  /\ durable' = 0      \* corruption voids the durability promise; recovery must still yield a prefix
  /\ UNCHANGED <<meta, open, mem, issued, crashes, ckpts, closes, hist, okRec, rsince>>
\* GrafeoDB::open: recover, repair the tail, reopen for append, abort marker
HasJunk(rs) == \E i \in DOMAIN rs : rs[i].k = "junk"
FirstJunkFile(fs, from) == IF \E f \in from..Len(fs) : HasJunk(fs[f].recs)
                           THEN CHOOSE f \in from..Len(fs) : HasJunk(fs[f].recs) /\ \A g \in from..(f - 1) : ~HasJunk(fs[g].recs)
                           ELSE 0
CutAtJunk(rs) == LET p == CHOOSE i \in DOMAIN rs : rs[i].k = "junk" /\ \A j \in 1..(i - 1) : rs[j].k # "junk"
                 IN SubSeq(rs, 1, p - 1)
Repair(fs, mt) ==
  IF "AppendBehindGarbage" \in AsIs THEN fs
  ELSE LET jf == FirstJunkFile(fs, IF "RepairNewestOnly" \in AsIs THEN Len(fs) ELSE First(fs, mt)) IN
       IF jf = 0 THEN fs
       ELSE LET cut == CutAtJunk(fs[jf].recs) IN
            [f \in 1..jf |-> IF f = jf THEN [recs |-> cut, w |-> Len(cut), s |-> Len(cut), ps |-> 0] ELSE fs[f]]
PrefixLen(R, h) == IF \E k \in 0..Len(h) : R = {h[i] : i \in 1..k}
                   THEN CHOOSE k \in 0..Len(h) : R = {h[i] : i \in 1..k} ELSE Len(h) + 1
OpenG(tg) ==
  /\ ~open /\ open' = TRUE
  /\ LET R == Recovered
         f0 == Repair(files, meta)
         st == IF "KeepUncommittedTail" \in AsIs THEN <<f0, 0>> ELSE LogManyG(<<f0, 0>>, <<Ab>>, tg)
         k == PrefixLen(R, hist)
     IN /\ mem' = R /\ files' = st[1] /\ rsince' = st[2]
        /\ IF k <= Len(hist) /\ k >= durable
           THEN okRec' = okRec /\ hist' = SubSeq(hist, 1, k)
           ELSE okRec' = FALSE /\ hist' = hist
        /\ durable' = IF k <= Len(hist) /\ k >= durable THEN DurOf(st[1], meta, SubSeq(hist, 1, k), durable) ELSE durable
  /\ UNCHANGED <<meta, issued, crashes, ckpts, closes, flips>>

Open == OpenG(<<>>)

Next == (\E m \in 1..2 : Issue(m)) \/ IssueUnlogged \/ Sync \/ Checkpoint \/ Close \/ Crash \/ BitFlip \/ Open
Spec == Init /\ [][Next]_vars

\* ---------------------------------------------------------------- properties
\* C05 + C06: whenever the database is open, memory holds exactly the operations that must be present
Consistent == open => mem = {hist[i] : i \in 1..Len(hist)}
\* C06: every open so far produced a prefix of the issued history no shorter than the durable prefix
RecoveryOk == okRec
\* C06: a junk record is never applied: recovery only returns operations whose records precede any junk
DurableBounded == durable <= Len(hist)
=============================================================================
