-------------------------------- MODULE Codec --------------------------------
(* C15, pure codecs: Decode(Encode(xs)) = xs, random access Get(i) = xs[i], FromBytes(ToBytes(b)) decodes
   to xs — stated once and checked by TLC over recorded results.  The harness enumerates every sequence
   up to a small length over an alphabet of boundary symbols (0, 1, 2, 63, 64, 2^32, 2^63, u64::MAX /
   i64::MIN, -1, 0, 1, 2, 2^32, i64::MAX-1, i64::MAX), structured long sequences (lengths 7..9, 63..65,
   127..129, 1000; all-equal, cycling, alternating extremes, runs) and seeded random ones, runs each real
   codec and logs input and outputs as symbol indices (long sequences as length + hash). A panic is a
   failed case.  For the succinct structures the logged "decoded" sequence carries per-position flags
   for access / rank / select = definition on the original sequence. *)
EXTENDS Naturals, Integers, Sequences, TLC, Json, IOUtils
Cases == ndJsonDeserialize(IOEnv.TRACE)
VARIABLE l
Ok(c) == /\ ~c.panic
         /\ c.dec = c.xs
         /\ (c.hasget => c.get = c.xs)
         /\ (c.hasrt => c.rt = c.xs)
Init == l = 1
Step == /\ l <= Len(Cases)
        /\ (IF Ok(Cases[l]) THEN TRUE ELSE PrintT(<<"MISMATCH", l, Cases[l].codec>>))
        /\ l' = l + 1
Spec == Init /\ [][Step]_l
=============================================================================
