------------------------------ MODULE ValueLaws ------------------------------
(* C16: the laws the uses of property values depend on, checked by TLC over RECORDED relations: the
   harness evaluates, on a universe U of values (every variant, NaN payloads, signed zeros, infinities,
   integers around 2^53, i64 extremes, empty / non-ASCII strings, nested lists and maps, zero-length
   vectors) the relations eqH / hashEqH of the hashable wrapper, eqO / cmpO / hashEqO of the orderable
   wrapper and the bit-exact outcome of each serialisation round trip, and logs them as matrices.
   Laws: eq is an equivalence; eq => equal hashes; cmp is a total order consistent with eq (and hash);
   every round trip is the identity.  Each violated law is printed with its witnesses. *)
EXTENDS Naturals, Integers, Sequences, FiniteSets, TLC, Json, IOUtils
D == ndJsonDeserialize(IOEnv.TRACE)[1]
VARIABLE l
N == D.n
U == 1..N
O == 1..D.no
B(m, i, j) == m[i][j] = 1
Viol(name, w) == PrintT(<<"LAWVIOLATION", name, w>>)
\* returns TRUE always; prints every violation
Check(name, S, P(_)) == \A w \in S : P(w) \/ Viol(name, w)
EqH(i, j) == B(D.eqH, i, j)
HH(i, j) == B(D.hH, i, j)
EqO(i, j) == B(D.eqO, i, j)
HO(i, j) == B(D.hO, i, j)
Cmp(i, j) == D.cmpO[i][j]
Laws ==
  /\ Check("eqH reflexive", U, LAMBDA i : EqH(i, i))
  /\ Check("eqH symmetric", U \X U, LAMBDA p : EqH(p[1], p[2]) => EqH(p[2], p[1]))
  /\ Check("eqH transitive", U \X U \X U, LAMBDA p : (EqH(p[1], p[2]) /\ EqH(p[2], p[3])) => EqH(p[1], p[3]))
  /\ Check("eqH => hash equal", U \X U, LAMBDA p : EqH(p[1], p[2]) => HH(p[1], p[2]))
  /\ Check("eqO reflexive", O, LAMBDA i : EqO(i, i))
  /\ Check("eqO symmetric", O \X O, LAMBDA p : EqO(p[1], p[2]) => EqO(p[2], p[1]))
  /\ Check("eqO transitive", O \X O \X O, LAMBDA p : (EqO(p[1], p[2]) /\ EqO(p[2], p[3])) => EqO(p[1], p[3]))
  /\ Check("eqO => hash equal", O \X O, LAMBDA p : EqO(p[1], p[2]) => HO(p[1], p[2]))
  /\ Check("cmpO = 0 iff eqO", O \X O, LAMBDA p : (Cmp(p[1], p[2]) = 0) <=> EqO(p[1], p[2]))
  /\ Check("cmpO antisymmetric", O \X O, LAMBDA p : Cmp(p[1], p[2]) = 0 - Cmp(p[2], p[1]))
  /\ Check("cmpO transitive", O \X O \X O, LAMBDA p : (Cmp(p[1], p[2]) <= 0 /\ Cmp(p[2], p[3]) <= 0) => Cmp(p[1], p[3]) <= 0)
  /\ Check("round trip spill", U, LAMBDA i : D.rtSpill[i] = 1)
  /\ Check("round trip WAL", U, LAMBDA i : D.rtWal[i] = 1)
  /\ Check("round trip snapshot", U, LAMBDA i : D.rtSnap[i] = 1)
  \* snapshots of several megabytes made of many small values (the decoder's allocation budget grows with their number)
  /\ Check("round trip snapshot, dense values", DOMAIN D.rtSnapBig, LAMBDA i : D.rtSnapBig[i] = 1)
  /\ Check("sort / DISTINCT / GROUP BY keep equal values together", 1..Len(D.grp), LAMBDA i : D.grp[i] = 1)
Init == l = 0
Next == l = 0 /\ Laws /\ l' = 1
Spec == Init /\ [][Next]_l
=============================================================================
