------------------------------ MODULE GraphAlgo ------------------------------
(* C19: the mathematical definitions the bundled graph algorithms must satisfy, over directed multigraphs
   with integer weights (exact in f64): nodes 1..n, edges <<src, dst, w>> (self-loops, parallel edges,
   isolated nodes, disconnected parts, zero and equal weights, missing weights = 1).
   Each recorded case carries the graph and what every algorithm returned; TLC checks certificates, so
   ties and alternative optimal answers are accepted:
     distances minimal (= Bellman-Ford fixpoint of the definition), paths real and of that weight,
     Dijkstra = Bellman-Ford = Floyd-Warshall; components partition by (strong) connectivity; a
     topological order exists iff acyclic and respects every edge; spanning forests acyclic, spanning, of
     minimum weight (brute force over edge subsets), Kruskal = Prim weight on connected graphs; max flow =
     min cut (brute force over cuts); traversals visit exactly the reachable set, each node once;
     triangles / bridges / articulation points by brute force; PageRank sums to 1; degree, closeness (standard and
     Wasserman-Faust) and betweenness centrality and local / global clustering coefficients equal their definitions. *)
EXTENDS Naturals, Integers, Sequences, FiniteSets, TLC, Json, IOUtils
Cases == ndJsonDeserialize(IOEnv.TRACE)
VARIABLE l
INF == 1000000
Rng(s) == {s[i] : i \in DOMAIN s}
Nodes(c) == 1..c.n
E(c) == DOMAIN c.edges
Src(c, e) == c.edges[e][1]
Dst(c, e) == c.edges[e][2]
W(c, e) == c.edges[e][3]
NW(c, e) == c.edges[e][4]                 \* second, possibly negative weight (property "nw")
WOf(c, e, wf) == IF wf = "w" THEN W(c, e) ELSE IF wf = "nw" THEN NW(c, e) ELSE 1
Max(S) == CHOOSE x \in S : \A y \in S : x >= y
Min(S) == CHOOSE x \in S : \A y \in S : x <= y
\* ---- shortest distances by n rounds of relaxation (non-negative weights)
RECURSIVE RelaxG(_, _, _, _)
\* after k synchronous rounds d[v] = least weight of a walk s ~> v with at most k edges
RelaxG(c, d, k, wf) == IF k = 0 THEN d
                  ELSE RelaxG(c, [v \in Nodes(c) |-> Min({d[v]} \cup {d[Src(c, e)] + WOf(c, e, wf) : e \in {x \in E(c) : Dst(c, x) = v /\ d[Src(c, x)] < INF}})], k - 1, wf)
D0(c, s) == [v \in Nodes(c) |-> IF v = s THEN 0 ELSE INF]
Dist(c, s) == RelaxG(c, D0(c, s), c.n, "w")
Hop(c, s) == RelaxG(c, D0(c, s), c.n, "unit")
Reach(c, s) == {v \in Nodes(c) : Dist(c, s)[v] < INF}
\* undirected reachability
RECURSIVE UReachR(_, _, _)
UReachR(c, S, k) == IF k = 0 THEN S ELSE UReachR(c, S \cup {Dst(c, e) : e \in {x \in E(c) : Src(c, x) \in S}} \cup {Src(c, e) : e \in {x \in E(c) : Dst(c, x) \in S}}, k - 1)
UReach(c, s) == UReachR(c, {s}, c.n)
\* path p (sequence of nodes) is real and has weight w: consecutive nodes joined by an edge of minimal... any edge; weight = sum of chosen
\* edges' weights for SOME choice: check  w >= sum of min parallel weights and path edges exist and w = Dist (combined with minimality)
PathReal(c, p) == \A i \in 1..(Len(p) - 1) : \E e \in E(c) : Src(c, e) = p[i] /\ Dst(c, e) = p[i + 1]
RECURSIVE PathMinW(_, _, _)
PathMinW(c, p, i) == IF i >= Len(p) THEN 0 ELSE Min({W(c, e) : e \in {x \in E(c) : Src(c, x) = p[i] /\ Dst(c, x) = p[i + 1]}}) + PathMinW(c, p, i + 1)
DistMapOk(c, s, dm) ==      \* dm: sequence over nodes of distance or -1 (unreachable)
  LET d == Dist(c, s) IN \A v \in Nodes(c) : dm[v] = (IF d[v] < INF THEN d[v] ELSE -1)
DistOrNone(c, s, t) == IF Dist(c, s)[t] < INF THEN Dist(c, s)[t] ELSE 0 - 1
PathOk(c, s, t, p) == IF Dist(c, s)[t] >= INF THEN p = <<>>
                      ELSE p # <<>> /\ p[1] = s /\ p[Len(p)] = t /\ PathReal(c, p) /\ PathMinW(c, p, 1) = Dist(c, s)[t]
\* Bellman-Ford with signed weights: a negative cycle is reachable iff an n-th round still improves something
BellmanNegOk(c, s, r) ==
  LET d1 == RelaxG(c, D0(c, s), c.n - 1, "nw")
      d2 == RelaxG(c, d1, 1, "nw")
  IN IF d1 # d2 THEN r.neg
     ELSE ~r.neg /\ \A v \in Nodes(c) : r.d[v] = (IF d1[v] < INF THEN d1[v] ELSE -1)
\* ---- components: ids[v]; same id iff (mutually) reachable
WccOk(c, ids) == \A u, v \in Nodes(c) : (ids[u] = ids[v]) <=> (v \in UReach(c, u))
SccOk(c, ids) == \A u, v \in Nodes(c) : (ids[u] = ids[v]) <=> (v \in Reach(c, u) /\ u \in Reach(c, v))
Acyclic(c) == \A e \in E(c) : Src(c, e) \notin Reach(c, Dst(c, e))
TopoOk(c, t) == IF t.some THEN /\ Acyclic(c) /\ Len(t.order) = c.n /\ Rng(t.order) = Nodes(c)
                                /\ \A e \in E(c) : \E i, j \in DOMAIN t.order : i < j /\ t.order[i] = Src(c, e) /\ t.order[j] = Dst(c, e)
                ELSE ~Acyclic(c)
\* ---- spanning forests (edges undirected)
RECURSIVE UCompR(_, _, _, _)
UCompR(c, F, S, k) == IF k = 0 THEN S ELSE UCompR(c, F, S \cup {Dst(c, e) : e \in {x \in F : Src(c, x) \in S}} \cup {Src(c, e) : e \in {x \in F : Dst(c, x) \in S}}, k - 1)
UCompF(c, F, s) == UCompR(c, F, {s}, c.n)
NumComp(c, F) == Cardinality({UCompF(c, F, s) : s \in Nodes(c)})
IsForest(c, F) == Cardinality(F) = c.n - NumComp(c, F)             \* acyclic iff |F| = n - #components(F)
Spanning(c, F) == \A s \in Nodes(c) : UCompF(c, F, s) = UReach(c, s)
RECURSIVE SumW(_, _)
SumW(c, F) == IF F = {} THEN 0 ELSE LET e == CHOOSE e \in F : TRUE IN W(c, e) + SumW(c, F \ {e})
MinForestW(c) == Min({SumW(c, F) : F \in {G \in SUBSET E(c) : IsForest(c, G) /\ Spanning(c, G)}})
\* Prim grows one tree: it must be a minimum spanning tree of the start node's (weak) component
PrimOk(c, s, m) ==
  LET F == Rng(m.edges)
      comp == UReach(c, s)
      Ec == {e \in E(c) : Src(c, e) \in comp}
      Trees == {G \in SUBSET Ec : Cardinality(G) = Cardinality(comp) - 1 /\ UCompF(c, G, s) = comp}
  IN /\ Len(m.edges) = Cardinality(F) /\ F \in Trees
     /\ m.weight = SumW(c, F) /\ m.weight = Min({SumW(c, G) : G \in Trees})
MstOk(c, m) == LET F == Rng(m.edges) IN   \* m.edges: sequence of edge indices (1-based into c.edges)
               /\ Len(m.edges) = Cardinality(F) /\ F \subseteq E(c) /\ IsForest(c, F) /\ Spanning(c, F)
               /\ m.weight = SumW(c, F) /\ m.weight = MinForestW(c)
\* ---- max flow = min cut (capacities = weights)
CutCap(c, S) == SumW(c, {e \in E(c) : Src(c, e) \in S /\ Dst(c, e) \notin S})
MinCut(c, s, t) == Min({CutCap(c, S \cup {s}) : S \in SUBSET (Nodes(c) \ {s, t})})
RECURSIVE SumFe(_, _, _)
\* net flow out of node v according to the reported per-pair flows
SumFe(fe, v, i) == IF i > Len(fe) THEN 0
                   ELSE (IF fe[i][1] = v THEN fe[i][3] ELSE 0) - (IF fe[i][2] = v THEN fe[i][3] ELSE 0) + SumFe(fe, v, i + 1)
FlowEdgesOk(c, f) ==
  /\ \A i \in DOMAIN f.fe : /\ f.fe[i][3] > 0
                             /\ f.fe[i][3] <= SumW(c, {e \in E(c) : Src(c, e) = f.fe[i][1] /\ Dst(c, e) = f.fe[i][2]})    \* capacity
                             /\ \A j \in DOMAIN f.fe : (f.fe[j][1] = f.fe[i][1] /\ f.fe[j][2] = f.fe[i][2]) => i = j
  /\ \A v \in Nodes(c) : SumFe(f.fe, v, 1) = (IF v = f.s THEN f.value ELSE IF v = f.t THEN 0 - f.value ELSE 0)   \* conservation
FlowOk(c, f) == IF f.s = f.t THEN TRUE ELSE f.value = MinCut(c, f.s, f.t) /\ FlowEdgesOk(c, f)
\* ---- traversals
VisitSetOk(c, s, order) == Rng(order) = Reach(c, s) /\ Len(order) = Cardinality(Reach(c, s))
BfsOk(c, s, order) == /\ VisitSetOk(c, s, order) /\ order[1] = s
                      /\ \A i, j \in DOMAIN order : i < j => Hop(c, s)[order[i]] <= Hop(c, s)[order[j]]   \* breadth first
DfsOk(c, s, order) == VisitSetOk(c, s, order) /\ order[Len(order)] = s                                  \* post-order: the start finishes last
LayersOk(c, s, L) == LET h == Hop(c, s) IN
  /\ Len(L) = Max({h[v] : v \in Reach(c, s)}) + 1
  /\ \A i \in DOMAIN L : Rng(L[i]) = {v \in Nodes(c) : h[v] = i - 1} /\ Len(L[i]) = Cardinality(Rng(L[i]))
\* ---- undirected simple-graph notions (self-loops and parallel edges ignored)
Adj(c, u, v) == u # v /\ \E e \in E(c) : (Src(c, e) = u /\ Dst(c, e) = v) \/ (Src(c, e) = v /\ Dst(c, e) = u)
Triangles(c) == Cardinality({T \in SUBSET Nodes(c) : Cardinality(T) = 3 /\ \A u, v \in T : u = v \/ Adj(c, u, v)})
RECURSIVE NReachR(_, _, _, _)
\* undirected reachability avoiding node set X
NReachR(c, X, S, k) == IF k = 0 THEN S ELSE NReachR(c, X, S \cup {v \in Nodes(c) \ X : \E u \in S : Adj(c, u, v)}, k - 1)
CompsWithout(c, X) == Cardinality({NReachR(c, X, {s}, c.n) : s \in Nodes(c) \ X})
ArtPoints(c) == {v \in Nodes(c) : CompsWithout(c, {v}) > CompsWithout(c, {}) - (IF \A u \in Nodes(c) : ~Adj(c, u, v) THEN 1 ELSE 0)}
\* bridges of the simple undirected graph: adjacent pairs whose adjacency is the only connection
RECURSIVE BReachR(_, _, _, _, _)
BReachR(c, a, b, S, k) == IF k = 0 THEN S
  ELSE BReachR(c, a, b, S \cup {v \in Nodes(c) : \E u \in S : Adj(c, u, v) /\ {u, v} # {a, b}}, k - 1)
Bridges(c) == {p \in Nodes(c) \X Nodes(c) : p[1] < p[2] /\ Adj(c, p[1], p[2]) /\ p[2] \notin BReachR(c, p[1], p[2], {p[1]}, c.n)}
BridgesOk(c, bs) == {<<bs[i][1], bs[i][2]>> : i \in DOMAIN bs} = Bridges(c) /\ Len(bs) = Cardinality(Bridges(c))
\* core numbers of the simple undirected graph
RECURSIVE Peel(_, _, _)
Peel(c, S, k) == LET T == {v \in S : Cardinality({u \in S : Adj(c, u, v)}) >= k} IN IF T = S THEN S ELSE Peel(c, T, k)
CoreNum(c, v) == Max({k \in 0..c.n : v \in Peel(c, Nodes(c), k)})
KCoreOk(c, r) == (\A v \in Nodes(c) : r.core[v] = CoreNum(c, v)) /\ r.max = Max({CoreNum(c, v) : v \in Nodes(c)})
\* ---- centrality and clustering.  Fractions are recorded in millionths (rounded); a recorded r equals num / den when
\* |r * den - num * 10^6| <= den * tol (tol = 1 covers the rounding of the record; sums of rounded terms get more).
Abs(x) == IF x < 0 THEN 0 - x ELSE x
FracOk(r, num, den, tol) == IF den = 0 THEN r = 0 ELSE Abs(r * den - num * 1000000) <= den * tol
RECURSIVE SumF(_, _)
SumF(S, f) == IF S = {} THEN 0 ELSE LET x == CHOOSE y \in S : TRUE IN f[x] + SumF(S \ {x}, f)
OutDeg(c, v) == Cardinality({e \in E(c) : Src(c, e) = v})
InDeg(c, v) == Cardinality({e \in E(c) : Dst(c, e) = v})
DegreeOk(c, r) == \A v \in Nodes(c) :
  /\ r.outd[v] = OutDeg(c, v) /\ r.ind[v] = InDeg(c, v) /\ r.tot[v] = OutDeg(c, v) + InDeg(c, v)
  /\ (IF c.n <= 1 THEN r.norm[v] = 0 ELSE FracOk(r.norm[v], OutDeg(c, v) + InDeg(c, v), c.n - 1, 1))
\* closeness over outgoing hop distances: reachable / total distance; Wasserman-Faust scales it by reachable / (n - 1)
ClosenessOk(c, r) == \A s \in Nodes(c) :
  LET h == Hop(c, s)
      R == {v \in Nodes(c) \ {s} : h[v] < INF}
      tot == SumF(R, [v \in R |-> h[v]])
  IN IF R = {} THEN r.std[s] = 0 /\ r.wf[s] = 0
     ELSE FracOk(r.std[s], Cardinality(R), tot, 1) /\ FracOk(r.wf[s], Cardinality(R) * Cardinality(R), (c.n - 1) * tot, 1)
\* number of shortest (fewest-hops) paths s ~> v, parallel edges counted as different paths
RECURSIVE SigmaR(_, _, _, _, _)
SigmaR(c, s, h, k, sig) ==
  IF k > c.n THEN sig
  ELSE SigmaR(c, s, h, k + 1, [v \in Nodes(c) |-> IF h[v] = k THEN LET In == {e \in E(c) : Dst(c, e) = v /\ h[Src(c, e)] = k - 1} IN SumF(In, [e \in In |-> sig[Src(c, e)]]) ELSE sig[v]])
Sigma(c, s) == SigmaR(c, s, Hop(c, s), 1, [v \in Nodes(c) |-> IF v = s THEN 1 ELSE 0])
\* betweenness of v (directed, unnormalised) = sum over s # v # t of the fraction of shortest s ~> t paths through v, in millionths
Betw(c, v) ==
  LET Pairs == {p \in (Nodes(c) \ {v}) \X (Nodes(c) \ {v}) : p[1] # p[2]}
      hv == Hop(c, v)  sv == Sigma(c, v)
  IN SumF(Pairs, [p \in Pairs |->
                    LET hs == Hop(c, p[1]) IN
                    IF hs[p[2]] < INF /\ hs[v] < INF /\ hv[p[2]] < INF /\ hs[v] + hv[p[2]] = hs[p[2]]
                    THEN LET ss == Sigma(c, p[1]) IN (ss[v] * sv[p[2]] * 1000000) \div ss[p[2]] ELSE 0])
BetweennessOk(c, r) == \A v \in Nodes(c) :
  LET b == IF c.n <= 2 THEN 0 ELSE Betw(c, v) IN
  /\ Abs(r.raw[v] - b) <= 20
  /\ (IF c.n <= 2 THEN r.norm[v] = 0 ELSE Abs(r.norm[v] * (c.n - 1) * (c.n - 2) - 2 * b) <= 40 + (c.n - 1) * (c.n - 2))
\* clustering on the undirected simple graph: triangles at v over pairs of neighbours; global = mean of the local values
Nbrs(c, v) == {u \in Nodes(c) : Adj(c, u, v)}
TriAt(c, v) == Cardinality({P \in SUBSET Nbrs(c, v) : Cardinality(P) = 2 /\ \A a, b \in P : a = b \/ Adj(c, a, b)})
ClusteringOk(c, r) ==
  /\ \A v \in Nodes(c) : LET k == Cardinality(Nbrs(c, v)) IN
        /\ r.tri[v] = TriAt(c, v)
        /\ (IF k < 2 THEN r.local[v] = 0 ELSE FracOk(r.local[v], TriAt(c, v), (k * (k - 1)) \div 2, 1))
        /\ r.local2[v] = r.local[v]
  /\ r.total = Triangles(c)
  /\ r.global = r.global2
  /\ (IF c.n = 0 THEN r.global = 0 ELSE Abs(r.global * c.n - SumF(Nodes(c), [v \in Nodes(c) |-> r.local[v]])) <= c.n)
Parts(c) ==
  << <<"dijkstra", \A s \in Nodes(c) : DistMapOk(c, s, c.dijkstra[s])>>,
     <<"bellman_ford", \A s \in Nodes(c) : DistMapOk(c, s, c.bellman[s])>>,
     <<"floyd_warshall", \A s \in Nodes(c) : DistMapOk(c, s, c.floyd[s])>>,
     <<"dijkstra_path", \A s \in Nodes(c) : \A t \in Nodes(c) : PathOk(c, s, t, c.paths[s][t])>>,
     <<"floyd_warshall_path", \A s \in Nodes(c) : \A t \in Nodes(c) : PathOk(c, s, t, c.floyd_paths[s][t])>>,
     <<"bellman_ford_path", \A s \in Nodes(c) : \A t \in Nodes(c) : PathOk(c, s, t, c.bellman_paths[s][t])>>,
     <<"astar_inconsistent_heuristic", \A s \in Nodes(c) : \A t \in Nodes(c) : PathOk(c, s, t, c.astar_h[s][t].p) /\ c.astar_h[s][t].d = DistOrNone(c, s, t)>>,
     <<"astar_distance", \A s \in Nodes(c) : \A t \in Nodes(c) : c.astar_d[s][t] = DistOrNone(c, s, t)>>,
     <<"astar", \A s \in Nodes(c) : \A t \in Nodes(c) : PathOk(c, s, t, c.astar[s][t])>>,
     <<"connected_components", WccOk(c, c.wcc)>>,
     <<"strongly_connected_components", SccOk(c, c.scc)>>,
     <<"topological_sort", TopoOk(c, c.topo)>>,
     <<"kruskal", MstOk(c, c.kruskal)>>,
     <<"prim", \E s \in Nodes(c) : PrimOk(c, s, c.prim)>>,
     <<"prim_from", \A s \in Nodes(c) : PrimOk(c, s, c.prims[s])>>,
     <<"bellman_ford_negative", \A s \in Nodes(c) : BellmanNegOk(c, s, c.bellman_neg[s])>>,
     <<"bfs_layers", \A s \in Nodes(c) : LayersOk(c, s, c.layers[s])>>,
     <<"bridges", BridgesOk(c, c.bridges)>>,
     <<"kcore", KCoreOk(c, c.kcore)>>,
     <<"counts", c.wcc_count = Cardinality({UReach(c, s) : s \in Nodes(c)})
                 /\ c.scc_count = Cardinality({{v \in Reach(c, s) : s \in Reach(c, v)} : s \in Nodes(c)}) /\ c.is_dag = Acyclic(c)>>,
     <<"max_flow", \A i \in DOMAIN c.flows : FlowOk(c, c.flows[i])>>,
     <<"bfs", \A s \in Nodes(c) : BfsOk(c, s, c.bfs[s])>>,
     <<"dfs", \A s \in Nodes(c) : DfsOk(c, s, c.dfs[s])>>,
     <<"triangles", c.triangles = Triangles(c)>>,
     <<"articulation_points", Rng(c.artic) = ArtPoints(c)>>,
     <<"pagerank", c.pagerank_ok>>,
     <<"degree_centrality", DegreeOk(c, c.degree)>>,
     <<"closeness_centrality", ClosenessOk(c, c.closeness)>>,
     <<"betweenness_centrality", BetweennessOk(c, c.betweenness)>>,
     <<"clustering_coefficient", ClusteringOk(c, c.clustering)>> >>
Failing(c) == IF c.panic THEN {"panic"} ELSE LET P == Parts(c) IN {P[i][1] : i \in {j \in DOMAIN P : ~P[j][2]}}
Init == l = 1
Step == /\ l <= Len(Cases)
        /\ (LET f == Failing(Cases[l]) IN IF f = {} THEN TRUE ELSE PrintT(<<"MISMATCH", l, Cases[l].cid, f>>))
        /\ l' = l + 1
Spec == Init /\ [][Step]_l
=============================================================================
