----------------------------- MODULE Metamorphic -----------------------------
(* C11: the algebra of predicates, limits and aggregates, checked on RECORDED results only (no
   semantic oracle): each case carries the row lists the engine returned for related queries.
     partition: rows(Q) = rows(Q WHERE p) (+) rows(Q WHERE NOT p) (+) rows(Q WHERE p IS NULL)
                (without the third component: the first two are disjoint sub-bags of rows(Q))
     count:     the row count aggregate of Q = number of rows of Q
     distinct:  rows(Q DISTINCT) = the set of rows(Q), each once
     window:    rows(Q ORDER BY k SKIP s LIMIT n) = SubSeq(rows(Q ORDER BY k), s+1, s+n)
     uwindow:   without ORDER BY, rows(Q SKIP s LIMIT n) is a sub-bag of rows(Q) with exactly min(n, max(0, |rows(Q)| - s)) rows
     union:     rows(Q1 UNION ALL Q2) = rows(Q1) (+) rows(Q2)
     groups:    rows(Q RETURN key, count) has one row per distinct key of rows(Q RETURN key), with its multiplicity
     agree:     all variants (optimizer configurations) of one query return the same bag   *)
EXTENDS Naturals, Sequences, FiniteSets, TLC, Json, IOUtils
Cases == ndJsonDeserialize(IOEnv.TRACE)
VARIABLE l
Rng(s) == {s[i] : i \in DOMAIN s}
Bag(s) == [r \in Rng(s) |-> Cardinality({i \in DOMAIN s : s[i] = r})]
BagAdd(a, b) == [r \in DOMAIN a \cup DOMAIN b |-> (IF r \in DOMAIN a THEN a[r] ELSE 0) + (IF r \in DOMAIN b THEN b[r] ELSE 0)]
SubBagOf(a, b) == \A r \in DOMAIN a : r \in DOMAIN b /\ a[r] <= b[r]
Min2(a, b) == IF a < b THEN a ELSE b
Window(full, s, n) == IF s >= Len(full) THEN <<>> ELSE SubSeq(full, s + 1, IF n < 0 THEN Len(full) ELSE Min2(Len(full), s + n))
Ok(c) ==
  CASE c.kind = "partition" ->
         IF c.hasu THEN BagAdd(BagAdd(Bag(c.p), Bag(c.np)), Bag(c.u)) = Bag(c.all)
         ELSE SubBagOf(BagAdd(Bag(c.p), Bag(c.np)), Bag(c.all))
    [] c.kind = "count" -> c.n = Len(c.rows)
    [] c.kind = "distinct" -> Rng(c.d) = Rng(c.full) /\ Len(c.d) = Cardinality(Rng(c.full))
    [] c.kind = "window" -> c.win = Window(c.full, c.skip, c.limit)
    [] c.kind = "uwindow" -> LET rest == IF Len(c.full) > c.skip THEN Len(c.full) - c.skip ELSE 0 IN
                             /\ Len(c.win) = (IF c.limit < 0 THEN rest ELSE Min2(c.limit, rest))
                             /\ SubBagOf(Bag(c.win), Bag(c.full))
    [] c.kind = "union" -> Bag(c.u) = BagAdd(Bag(c.a), Bag(c.b))
    [] c.kind = "groups" -> LET fb == Bag(c.full) IN
                            /\ Len(c.g) = Cardinality(DOMAIN fb)
                            /\ \A i \in DOMAIN c.g : <<c.g[i][1]>> \in DOMAIN fb /\ c.g[i][2].v = fb[<<c.g[i][1]>>]
    [] c.kind = "agree" -> \A i \in DOMAIN c.variants : Bag(c.variants[i]) = Bag(c.variants[1])
Init == l = 1
Step == /\ l <= Len(Cases)
        /\ (IF Ok(Cases[l]) THEN TRUE ELSE PrintT(<<"MISMATCH", l, Cases[l].cid>>))
        /\ l' = l + 1
Spec == Init /\ [][Step]_l
=============================================================================
