------------------------------ MODULE QuerySem ------------------------------
(* Executable reference semantics of the shared read-query core (C08; reused by C09 / C10 / C11):
   path patterns with labels, edge types and directions; Kleene three-valued WHERE; projections;
   DISTINCT; count / sum / min / max with implicit grouping; ORDER BY with SKIP / LIMIT; one OPTIONAL MATCH;
   variable-length edge patterns (walks of a..b edges).
   A query is "enumerate all bindings of the pattern in the graph, apply the clauses in order".
   The module is language neutral: the harness renders one abstract query into GQL, Cypher, ... and
   logs [g: graph, q: abstract query, rows: what the engine returned]; TLC evaluates Expected(g, q)
   and compares (bag equality; sequence equality when the query orders its result).

   Values are tagged records [t |-> "null"] | [t |-> "bool"|"int"|"str", v |-> ...].
   Graph: [nodes: Seq([id, labels: Seq(STRING), props: Seq(<<key, value>>)]),
           edges: Seq([id, src, dst, type, props])].
   Parallel edges give distinct matches (a match = binding of node AND edge variables).
*)
EXTENDS Naturals, Integers, Sequences, FiniteSets, TLC, SequencesExt
NullV == [t |-> "null"]
BoolV(b) == [t |-> "bool", v |-> b]
IntV(i) == [t |-> "int", v |-> i]
\* a float is recorded in halves (the generator uses multiples of 0.5 only): [t |-> "float", v |-> 2 * value]
FloatV(h) == [t |-> "float", v |-> h]
StrV(x) == [t |-> "str", v |-> x]
\* the order of the strings the generator uses
StrRank(x) == CASE x = "" -> 0 [] x = "a" -> 1 [] x = "b" -> 2 [] x = "c" -> 3 [] OTHER -> 4
IsNull(x) == x.t = "null"
IsTrue(x) == x.t = "bool" /\ x.v = TRUE

\* ---------------------------------------------------------------- graph access
NodeOf(g, id) == CHOOSE n \in Range(g.nodes) : n.id = id
EdgeOf(g, id) == CHOOSE e \in Range(g.edges) : e.id = id
PropOf(ps, k) == IF \E i \in DOMAIN ps : ps[i][1] = k THEN (CHOOSE p \in Range(ps) : p[1] = k)[2] ELSE NullV

\* ---------------------------------------------------------------- expressions (three-valued)
Cmp(f, a, b) ==
  IF IsNull(a) \/ IsNull(b) THEN NullV
  ELSE IF a.t # b.t THEN (IF f = "=" THEN BoolV(FALSE) ELSE IF f = "<>" THEN BoolV(TRUE) ELSE NullV)
  ELSE IF f = "=" THEN BoolV(a.v = b.v)
  ELSE IF f = "<>" THEN BoolV(a.v # b.v)
  ELSE IF a.t # "int" THEN NullV            \* ordering of non-integers is not part of the core
  ELSE IF f = "<" THEN BoolV(a.v < b.v)
  ELSE IF f = "<=" THEN BoolV(a.v <= b.v)
  ELSE IF f = ">" THEN BoolV(a.v > b.v)
  ELSE BoolV(a.v >= b.v)
Known(a) == a.t = "bool"
And3(a, b) == IF (Known(a) /\ ~a.v) \/ (Known(b) /\ ~b.v) THEN BoolV(FALSE)
              ELSE IF Known(a) /\ Known(b) THEN BoolV(TRUE) ELSE NullV
Or3(a, b) == IF (Known(a) /\ a.v) \/ (Known(b) /\ b.v) THEN BoolV(TRUE)
             ELSE IF Known(a) /\ Known(b) THEN BoolV(FALSE) ELSE NullV
Not3(a) == IF Known(a) THEN BoolV(~a.v) ELSE NullV
\* bnd: binding record  var -> [k |-> "n"|"e", id |-> id]
RECURSIVE Eval(_, _, _)
Eval(g, bnd, e) ==
  CASE e.op = "const" -> e.v
    [] e.op = "prop" -> LET x == bnd[e.var] IN
                        IF x.k = "null" THEN NullV            \* variable of an OPTIONAL MATCH that found nothing
                        ELSE IF x.k = "n" THEN PropOf(NodeOf(g, x.id).props, e.key) ELSE PropOf(EdgeOf(g, x.id).props, e.key)
    [] e.op = "id" -> IF bnd[e.var].k = "null" THEN NullV ELSE IntV(bnd[e.var].id)
    [] e.op = "cmp" -> Cmp(e.f, Eval(g, bnd, e.a), Eval(g, bnd, e.b))
    [] e.op = "and" -> And3(Eval(g, bnd, e.a), Eval(g, bnd, e.b))
    [] e.op = "or" -> Or3(Eval(g, bnd, e.a), Eval(g, bnd, e.b))
    [] e.op = "not" -> Not3(Eval(g, bnd, e.a))
    [] e.op = "isnull" -> BoolV(IsNull(Eval(g, bnd, e.a)))
    [] e.op = "notnull" -> BoolV(~IsNull(Eval(g, bnd, e.a)))
    [] e.op = "true" -> BoolV(TRUE)

\* ---------------------------------------------------------------- pattern matching
NodeOk(g, np, id) == \A lb \in Range(np.labels) : lb \in Range(NodeOf(g, id).labels)
\* steps from node `from` along edge pattern ep: set of <<edge id, other end>>
Steps(g, ep, from) ==
  LET E == Range(g.edges)
      ok(e) == ep.types = <<>> \/ e.type \in Range(ep.types)
  IN {<<e.id, e.dst>> : e \in {x \in E : ok(x) /\ x.src = from /\ ep.dir \in {"out", "both"}}}
     \cup {<<e.id, e.src>> : e \in {x \in E : ok(x) /\ x.dst = from /\ ep.dir \in {"in", "both"}}}
Ext(f, k, v) == [x \in DOMAIN f \cup {k} |-> IF x = k THEN v ELSE f[x]]
NB(id) == [k |-> "n", id |-> id]
EB(id) == [k |-> "e", id |-> id]
\* variable-length edge pattern [min |-> a, max |-> b]: a walk of a..b edges (each of the pattern's types and direction;
\* edges and nodes may repeat).  Walks are sequences of edge ids, so two different walks between the same end nodes are two
\* matches.  Walks(g, ep, from, k): set of <<edge sequence, end node>> for walks of exactly k edges.
IsVarLen(ep) == "min" \in DOMAIN ep
RECURSIVE Walks(_, _, _, _)
Walks(g, ep, from, k) ==
  IF k = 0 THEN {<<<<>>, from>>}
  ELSE UNION { { <<Append(w[1], st[1]), st[2]>> : st \in Steps(g, ep, w[2]) } : w \in Walks(g, ep, from, k - 1) }
VarSteps(g, ep, from) == UNION { Walks(g, ep, from, k) : k \in ep.min..ep.max }
RECURSIVE MatchFrom(_, _, _, _)
\* S: set of [b: binding, cur: node id]
MatchFrom(g, path, i, S) ==
  IF i > Len(path) THEN S
  ELSE LET ep == path[i]  np == path[i + 1]
           S2 == IF IsVarLen(ep)
                 THEN \* the edge variable of a variable-length pattern is bound to the walk (never projected by the generator)
                      UNION { { [b |-> Ext(Ext(m.b, ep.var, [k |-> "w", id |-> st[1]]), np.var, NB(st[2])), cur |-> st[2]]
                                : st \in {x \in VarSteps(g, ep, m.cur) :
                                            /\ NodeOk(g, np, x[2])
                                            /\ (np.var \in DOMAIN m.b => m.b[np.var] = NB(x[2]))} }
                              : m \in S }
                 ELSE UNION { { [b |-> Ext(Ext(m.b, ep.var, EB(st[1])), np.var, NB(st[2])), cur |-> st[2]]
                           : st \in {x \in Steps(g, ep, m.cur) :
                                       /\ NodeOk(g, np, x[2])
                                       /\ (np.var \in DOMAIN m.b => m.b[np.var] = NB(x[2]))
                                       /\ (ep.var \in DOMAIN m.b => m.b[ep.var] = EB(x[1]))} }
                         : m \in S }
       IN MatchFrom(g, path, i + 2, S2)
Matches(g, path) ==
  LET np == path[1]
      S0 == { [b |-> [x \in {np.var} |-> NB(n.id)], cur |-> n.id] : n \in {x \in Range(g.nodes) : NodeOk(g, np, x.id)} }
  IN {m.b : m \in MatchFrom(g, path, 2, S0)}

\* ---------------------------------------------------------------- clauses
\* MATCH main WHERE q.where OPTIONAL MATCH (q.optfrom)-[..]-(..) WHERE q.owhere:  q.opt is an edge pattern / node
\* pattern sequence continuing from a variable of the main path.  q.where filters the bindings of the main pattern.
\* q.owhere (over main and optional variables) is part of the optional match: it decides which optional matches
\* count and never removes a main binding.  Every passing main binding is extended by all optional matches that
\* satisfy q.owhere, or once with the optional variables unbound when there is none.
HasOpt(q) == "opt" \in DOMAIN q
NoB == [k |-> "null", id |-> 0]
OptExt(g, q, b) ==
  LET full == <<[var |-> q.optfrom, labels |-> <<>>]>> \o q.opt
      E0 == {m.b : m \in MatchFrom(g, full, 2, {[b |-> b, cur |-> b[q.optfrom].id]})}
      E == IF "owhere" \in DOMAIN q THEN {x \in E0 : IsTrue(Eval(g, x, q.owhere))} ELSE E0
      vars == {q.opt[i].var : i \in DOMAIN q.opt}
  IN IF E = {} THEN {[x \in DOMAIN b \cup vars |-> IF x \in DOMAIN b THEN b[x] ELSE NoB]} ELSE E
Passing(g, q) == LET P0 == {b \in Matches(g, q.path) : IsTrue(Eval(g, b, q.where))} IN
                 IF HasOpt(q) THEN UNION {OptExt(g, q, b) : b \in P0} ELSE P0
IsAgg(it) == "agg" \in DOMAIN it
HasAgg(q) == \E i \in DOMAIN q.ret : IsAgg(q.ret[i])
\* bags as functions row -> multiplicity
QBagOfSeq(s) == [r \in Range(s) |-> Cardinality({i \in DOMAIN s : s[i] = r})]
RECURSIVE SumInts(_)
SumInts(S) == IF S = {} THEN 0 ELSE LET x == CHOOSE x \in S : TRUE IN x[2] + SumInts(S \ {x})
MinOf(S) == CHOOSE x \in S : \A y \in S : x <= y
MaxOf(S) == CHOOSE x \in S : \A y \in S : x >= y
\* aggregate over the bindings B of one group (values tagged with the binding to keep duplicates apart)
Agg(g, it, B) ==
  LET vals == {<<b, Eval(g, b, it.e)>> : b \in B}
      nn == {x \in vals : ~IsNull(x[2])}
      ints == {<<x[1], x[2].v>> : x \in {y \in nn : y[2].t = "int"}}
      \* numbers in halves: sum / min / max over a float property, or over integers and floats together
      anyf == \E y \in nn : y[2].t = "float"
      nums == {<<x[1], IF x[2].t = "int" THEN 2 * x[2].v ELSE x[2].v>> : x \in {y \in nn : y[2].t \in {"int", "float"}}}
      allf == nn # {} /\ \A y \in nn : y[2].t = "float"
      alls == nn # {} /\ \A y \in nn : y[2].t = "str"
      strs == {x[2].v : x \in nn}
  IN CASE it.agg = "count" -> IntV(Cardinality(nn))
       [] it.agg = "sum" -> IF anyf THEN FloatV(SumInts(nums)) ELSE IntV(SumInts(ints))
       [] it.agg = "min" -> IF allf THEN FloatV(MinOf({x[2] : x \in nums}))
                            ELSE IF alls THEN StrV(CHOOSE x \in strs : \A y \in strs : StrRank(x) <= StrRank(y))
                            ELSE IF ints = {} THEN NullV ELSE IntV(MinOf({x[2] : x \in ints}))
       [] it.agg = "max" -> IF allf THEN FloatV(MaxOf({x[2] : x \in nums}))
                            ELSE IF alls THEN StrV(CHOOSE x \in strs : \A y \in strs : StrRank(x) >= StrRank(y))
                            ELSE IF ints = {} THEN NullV ELSE IntV(MaxOf({x[2] : x \in ints}))
KeyIdx(q) == {i \in DOMAIN q.ret : ~IsAgg(q.ret[i])}
GroupKey(g, q, b) == [i \in KeyIdx(q) |-> Eval(g, b, q.ret[i].e)]
AggRows(g, q) ==
  LET P == Passing(g, q)
      keys == {GroupKey(g, q, b) : b \in P}
      rowOf(k) == [i \in DOMAIN q.ret |-> IF IsAgg(q.ret[i]) THEN Agg(g, q.ret[i], {b \in P : GroupKey(g, q, b) = k}) ELSE k[i]]
  IN IF KeyIdx(q) = {} THEN [r \in {[i \in DOMAIN q.ret |-> Agg(g, q.ret[i], P)]} |-> 1]       \* one row, also over no bindings
     ELSE [r \in {rowOf(k) : k \in keys} |-> 1]
RowOf(g, q, b) == [i \in DOMAIN q.ret |-> Eval(g, b, q.ret[i].e)]
PlainBag(g, q) ==
  LET P == Passing(g, q)
      rows == {RowOf(g, q, b) : b \in P}
  IN IF q.distinct THEN [r \in rows |-> 1]
     ELSE [r \in rows |-> Cardinality({b \in P : RowOf(g, q, b) = r})]
ExpectedBag(g, q) == IF HasAgg(q) THEN AggRows(g, q) ELSE PlainBag(g, q)

\* ORDER BY (integer keys that are unique and non-null over the result — guaranteed by the generator)
\* + SKIP / LIMIT: the expected result is a sequence
Ordered(q) == q.order # <<>>
SortKeyOf(g, q, b) == Eval(g, b, q.order[1].e)
ExpectedSeq(g, q) ==
  LET P == Passing(g, q)
      bs == SetToSeq(P)
      less(x, y) == IF q.order[1].desc THEN SortKeyOf(g, q, x).v > SortKeyOf(g, q, y).v ELSE SortKeyOf(g, q, x).v < SortKeyOf(g, q, y).v
      sorted == SortSeq(bs, less)
      rows == [i \in DOMAIN sorted |-> RowOf(g, q, sorted[i])]
      from == q.skip + 1
      to == IF q.limit < 0 THEN Len(rows) ELSE (IF q.skip + q.limit < Len(rows) THEN q.skip + q.limit ELSE Len(rows))
  IN IF from > Len(rows) THEN <<>> ELSE SubSeq(rows, from, to)
\* the generator's promise that makes ExpectedSeq well defined
OrderWellDefined(g, q) ==
  LET P == Passing(g, q) IN
  IF Len(q.order) = 1
  THEN /\ \A b \in P : SortKeyOf(g, q, b).t = "int"
       /\ \A b1, b2 \in P : b1 # b2 => SortKeyOf(g, q, b1) # SortKeyOf(g, q, b2)
  ELSE \* several keys: integers or NULL, the last one a unique integer; no window
       LET n == Len(q.order) IN
       /\ q.skip = 0 /\ q.limit < 0
       /\ \A b \in P : \A j \in 1..n : Eval(g, b, q.order[j].e).t \in {"int", "null"}
       /\ \A b \in P : Eval(g, b, q.order[n].e).t = "int"
       /\ \A b1, b2 \in P : b1 # b2 => Eval(g, b1, q.order[n].e) # Eval(g, b2, q.order[n].e)
\* unordered SKIP/LIMIT: any sub-bag of the right size
QSubBag(a, b) == \A r \in DOMAIN a : r \in DOMAIN b /\ a[r] <= b[r]
QBagSize(a) == LET RECURSIVE S(_) S(D) == IF D = {} THEN 0 ELSE LET r == CHOOSE r \in D : TRUE IN a[r] + S(D \ {r}) IN S(DOMAIN a)
QMin2(a, b) == IF a < b THEN a ELSE b
WindowSize(n, q) == LET rest == IF n > q.skip THEN n - q.skip ELSE 0 IN IF q.limit < 0 THEN rest ELSE QMin2(rest, q.limit)

\* ORDER BY with several keys (no SKIP / LIMIT): the keys are returned columns (q.okcols gives their positions), integers or
\* NULL (a missing property), the last one unique and never NULL.  The rows are the expected bag, arranged so that they
\* are sorted lexicographically by the keys with NULL = NULL a tie that the next key decides; where NULLs go relative to
\* values is left open (first or last, per key) - the property text does not fix it.
KeyCell(q, row, j) == row[q.okcols[j]]
RECURSIVE BeforeFrom(_, _, _, _, _)
BeforeFrom(q, nf, x, y, j) ==      \* x must come strictly before y, looking at keys j..
  IF j > Len(q.order) THEN FALSE
  ELSE LET a == KeyCell(q, x, j)  b == KeyCell(q, y, j) IN
       IF IsNull(a) /\ IsNull(b) THEN BeforeFrom(q, nf, x, y, j + 1)
       ELSE IF IsNull(a) THEN nf[j]
       ELSE IF IsNull(b) THEN ~nf[j]
       ELSE IF a.v = b.v THEN BeforeFrom(q, nf, x, y, j + 1)
       ELSE IF q.order[j].desc THEN a.v > b.v ELSE a.v < b.v
MultiOrderOk(g, q, rows) ==
  /\ QBagOfSeq(rows) = ExpectedBag(g, q)
  /\ \E nf \in [1..Len(q.order) -> BOOLEAN] : \A i \in 1..(Len(rows) - 1) : ~BeforeFrom(q, nf, rows[i + 1], rows[i], 1)
\* rows as returned by the engine: sequences of tagged values
Agrees(g, q, rows) ==
  IF Ordered(q) THEN (IF Len(q.order) = 1 THEN rows = ExpectedSeq(g, q) ELSE MultiOrderOk(g, q, rows))
  ELSE IF q.skip > 0 \/ q.limit >= 0
       THEN LET full == ExpectedBag(g, q) got == QBagOfSeq(rows) IN QSubBag(got, full) /\ Len(rows) = WindowSize(QBagSize(full), q)
       ELSE QBagOfSeq(rows) = ExpectedBag(g, q)
=============================================================================
