----------------------------- MODULE Check_Query -----------------------------
(* Oracle run: every logged case [g, q, rows | err] is evaluated against QuerySem.  An engine error
   ("no answer") is never a mismatch; a wrong answer is.  All mismatches of a batch are printed
   (MISMATCH lines) so that one TLC run classifies the whole batch. *)
EXTENDS QuerySem, Json, IOUtils
Cases == ndJsonDeserialize(IOEnv.TRACE)
VARIABLE l
Ok(c) == c.err \/ (IF Ordered(c.q) /\ ~OrderWellDefined(c.g, c.q) THEN TRUE ELSE Agrees(c.g, c.q, c.rows))
Init == l = 1
Step == /\ l <= Len(Cases)
        /\ (IF Ok(Cases[l]) THEN TRUE ELSE PrintT(<<"MISMATCH", l, Cases[l].cid>>))
        /\ l' = l + 1
Spec == Init /\ [][Step]_l
Done == TLCGet("stats").diameter - 1 = Len(Cases)
=============================================================================
