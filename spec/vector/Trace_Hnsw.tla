---------------------------- MODULE Trace_Hnsw ----------------------------
(* Trace validation for C18: events recorded by `gv vec` from the real HnswIndex / QuantizedHnswIndex /
   brute_force_knn / distance kernels / quantisers are replayed against Hnsw.tla.  The abstract state
   (vecs) follows the logged calls; every observation is judged against the model and failures are printed
   as  <<"MISMATCH", line, {parts}>>  (the walk always continues, so one failure does not hide later ones). *)
EXTENDS Hnsw, Json, IOUtils
Ev == ndJsonDeserialize(IOEnv.TRACE)
VARIABLES l, vecs, metric
Put(f, k, v) == [x \in DOMAIN f \cup {k} |-> IF x = k THEN v ELSE f[x]]
Del(f, k) == [x \in DOMAIN f \ {k} |-> f[x]]
Clamp(x, lo, hi) == IF x < lo THEN lo ELSE IF x > hi THEN hi ELSE x

\* state after the event
Next1(e) == CASE e.a = "reset" -> <<>>
              [] e.a = "ins" -> Put(vecs, e.id, e.v)
              [] e.a = "rem" -> Del(vecs, e.id)
              [] OTHER -> vecs
\* structure + scalar observations after a mutation (hnsw traces carry the dump g)
PostParts(e, nv) ==
  << <<"len", e.len = Cardinality(DOMAIN nv)>>,
     <<"contains", \A i \in DOMAIN e.has : e.has[i][2] = (e.has[i][1] \in DOMAIN nv)>>,
     <<"get", metric = "cosine" \/ \A i \in DOMAIN e.got : (e.got[i][1] \in DOMAIN nv /\ e.got[i][2] = nv[e.got[i][1]])>>,
     <<"no_dangling_links", ~e.hasg \/ NoDangling(e.g, nv)>>,
     <<"entry_point", ~e.hasg \/ EntryOk(e.g, nv)>> >>
OneSearch(e, q, k, ef, res) == IF e.hasg THEN (IF "quant" \in DOMAIN e.g THEN QuantSearchOk(e.g, vecs, metric, q, k, res) ELSE SearchOk(e.g, vecs, metric, q, k, ef, res)) ELSE (IF vecs = <<>> THEN res = <<>> ELSE Basic(vecs, metric, q, k, res))
\* --- quantisers (integer grids, exact in f32)
\* scalar: ranges [lo, lo + 255 * s] per dimension
SqParts(e) ==
  LET deq(i) == e.lo[i] + e.code[i] * e.s[i] IN
  << <<"sq_dequantize", \A i \in DOMAIN e.v : e.deq[i] = deq(i)>>,
     \* truncating quantisation: the reconstruction is within one step of the clamped value (never above it)
     <<"sq_error", \A i \in DOMAIN e.v : LET c == Clamp(e.v[i], e.lo[i], e.lo[i] + 255 * e.s[i]) IN deq(i) <= c /\ c - deq(i) < e.s[i]>>,
     <<"sq_asymmetric", e.asym = Sum([i \in DOMAIN e.v |-> (e.q[i] - deq(i)) * (e.q[i] - deq(i))])>>,
     <<"sq_symmetric", e.sym = Sum([i \in DOMAIN e.v |-> ((e.code[i] - e.code2[i]) * e.s[i]) * ((e.code[i] - e.code2[i]) * e.s[i])])>> >>
BqParts(e) ==
  << <<"bq_bits", \A i \in DOMAIN e.v : e.bits[i] = (IF e.v[i] >= 0 THEN 1 ELSE 0)>>,
     <<"bq_hamming", e.ham = Cardinality({i \in DOMAIN e.v : (e.v[i] >= 0) # (e.w[i] >= 0)})>> >>
\* product: M subvectors of dimension d, K centroids each; cent[m][k] is a d-vector
PqParts(e) ==
  LET sub(x, m) == [j \in 1..e.d |-> x[(m - 1) * e.d + j]]
      dist(m, k, x) == L2sq(sub(x, m), e.cent[m][k]) IN
  << <<"pq_nearest_centroid", \A m \in DOMAIN e.codes : \A k \in DOMAIN e.cent[m] : dist(m, e.codes[m] + 1, e.v) <= dist(m, k, e.v)>>,
     <<"pq_reconstruct", \A m \in DOMAIN e.codes : sub(e.rec, m) = e.cent[m][e.codes[m] + 1]>>,
     <<"pq_asymmetric", e.asym = Sum([m \in DOMAIN e.codes |-> dist(m, e.codes[m] + 1, e.q)])>> >>
Parts(e) ==
  CASE e.a = "reset" -> << >>
    [] e.a = "ins" -> PostParts(e, Put(vecs, e.id, e.v))
    [] e.a = "rem" -> <<<<"remove_result", e.r = (e.id \in DOMAIN vecs)>>>> \o PostParts(e, Del(vecs, e.id))
    [] e.a = "search" -> << <<"search", OneSearch(e, e.q, e.k, e.ef, e.res)>> >>
    [] e.a = "batch" -> << <<"batch_each", \A i \in DOMAIN e.qs : OneSearch(e, e.qs[i], e.k, e.ef, e.res[i])>>,
                           <<"batch_equals_single", e.res = e.singles>> >>
    [] e.a = "exact" -> << <<"brute_force_knn", IF vecs = <<>> THEN e.res = <<>> ELSE ExactOk(vecs, e.metric, e.q, e.k, e.res)>> >>
    [] e.a = "kernel" -> << <<"kernel_euclidean_sq", e.l2sq = L2sq(e.x, e.y)>>, <<"kernel_euclidean", e.l2 = L2sq(e.x, e.y)>>,
                            <<"kernel_manhattan", e.l1 = L1(e.x, e.y)>>, <<"kernel_dot", e.dot = Dot(e.x, e.y)>>,
                            <<"kernel_dot_metric", e.ndot = 0 - Dot(e.x, e.y)>>, <<"kernel_norm", e.n2 = Norm2(e.x)>>,
                            <<"kernel_cosine", CosRecordedOk(e.x, e.y, e.cos)>> >>
    [] e.a = "sq" -> SqParts(e)
    [] e.a = "bq" -> BqParts(e)
    [] e.a = "pq" -> PqParts(e)
Failing(e) == IF e.panic THEN {"panic"} ELSE LET P == Parts(e) IN {P[i][1] : i \in {j \in DOMAIN P : ~P[j][2]}}
Init == l = 1 /\ vecs = <<>> /\ metric = "euclidean"
Step == /\ l <= Len(Ev)
        /\ LET e == Ev[l] IN
             /\ (LET f == Failing(e) IN IF f = {} THEN TRUE ELSE PrintT(<<"MISMATCH", l, f>>))
             /\ vecs' = (IF e.panic THEN vecs ELSE Next1(e))
             /\ metric' = (IF e.a = "reset" THEN e.metric ELSE metric)
        /\ l' = l + 1
Spec == Init /\ [][Step]_<<l, vecs, metric>>
=============================================================================
