------------------------------- MODULE Hnsw -------------------------------
(* C18: the vector index as a state machine, written at the grain of the implementation
   (crates/grafeo-core/src/index/vector/hnsw.rs).

   Abstract state: vecs, the map id -> vector of what is in the index.
   Mechanism state (observed through the cfg(grafeo_verif) hook HnswIndex::verif_dump and passed to the
   operators below as a record g): entry point, and per node the neighbour lists per layer, in stored order.

   A search is: greedy descent from the entry point through layers maxl..1 (search_layer_single: move to
   the first neighbour attaining the least distance, while that improves), then a beam search on layer 0
   from where the descent ended.  The beam search explores everything reachable on layer 0 unless its result
   heap (size max(ef, k)) fills, so
       |result| = min(k, |R|)            R = nodes reachable on layer 0 from the descent's end point,
       result \subseteq R, distinct, each with its true distance, sorted by distance,
       and when max(ef, k) >= |R| the result is exactly the k nearest members of R (ties in any order).
   This is the property's "returns k whenever the index holds at least k reachable vectors", with
   "reachable" made precise.

   Vectors have small integer coordinates, so every metric is exact integer arithmetic here and exact in
   f32 in the implementation:  euclidean is recorded squared, manhattan and dot product as they are;
   cosine distances are compared as exact rationals and the recorded value (thousandths) is bracketed. *)
EXTENDS Naturals, Integers, Sequences, FiniteSets, TLC
Rng(s) == {s[i] : i \in DOMAIN s}
Abs(x) == IF x < 0 THEN 0 - x ELSE x
RECURSIVE SumTo(_, _, _)
\* sum over i in 1..n of f[i] for a sequence f
SumTo(f, i, n) == IF i > n THEN 0 ELSE f[i] + SumTo(f, i + 1, n)
Sum(f) == SumTo(f, 1, Len(f))
Dot(a, b) == Sum([i \in DOMAIN a |-> a[i] * b[i]])
Norm2(a) == Dot(a, a)
L2sq(a, b) == Sum([i \in DOMAIN a |-> (a[i] - b[i]) * (a[i] - b[i])])
L1(a, b) == Sum([i \in DOMAIN a |-> Abs(a[i] - b[i])])
\* the integer the harness records for a distance under each exact metric
IntDist(metric, q, v) == CASE metric = "euclidean" -> L2sq(q, v)
                           [] metric = "manhattan" -> L1(q, v)
                           [] metric = "dot_product" -> 0 - Dot(q, v)
\* cosine: a is nearer to q than b  iff  cos(q,a) > cos(q,b); zero vectors have cosine 0 (distance 1).
\* cos(q,a) = Dot(q,a) / sqrt(N(q) N(a)); the common factor sqrt(N(q)) is dropped; compare x/sqrt(na) with y/sqrt(nb)
Sgn(x) == IF x > 0 THEN 1 ELSE IF x < 0 THEN 0 - 1 ELSE 0
CosLess(q, a, b) ==     \* cosine distance of a strictly less than that of b
  LET x == IF Norm2(a) = 0 THEN 0 ELSE Dot(q, a)   na == IF Norm2(a) = 0 THEN 1 ELSE Norm2(a)
      y == IF Norm2(b) = 0 THEN 0 ELSE Dot(q, b)   nb == IF Norm2(b) = 0 THEN 1 ELSE Norm2(b)
  IN \* x/sqrt(na) > y/sqrt(nb)
     IF Sgn(x) # Sgn(y) THEN Sgn(x) > Sgn(y)
     ELSE IF Sgn(x) >= 0 THEN x * x * nb > y * y * na ELSE x * x * nb < y * y * na
Less(metric, q, a, b) == IF metric = "cosine" THEN CosLess(q, a, b) ELSE IntDist(metric, q, a) < IntDist(metric, q, b)
\* recorded cosine distance in thousandths agrees with the definition 1 - cos (bracket of +-2 thousandths)
CosRecordedOk(q, v, dm) ==
  LET c == 1000 - dm   dt == IF Norm2(v) = 0 \/ Norm2(q) = 0 THEN 0 ELSE Dot(q, v)
      nn == IF Norm2(v) = 0 \/ Norm2(q) = 0 THEN 1 ELSE Norm2(v) * Norm2(q)
  IN IF nn <= 2000
     THEN \* exact bracket: (|c| - 2)^2 nn <= dt^2 10^6 <= (|c| + 2)^2 nn   (fits 32-bit integers)
          LET lo == IF Abs(c) > 2 THEN Abs(c) - 2 ELSE 0   hi == Abs(c) + 2 IN
          /\ (Abs(c) > 2 => Sgn(c) = Sgn(dt))
          /\ lo * lo * nn <= dt * dt * 1000000 /\ dt * dt * 1000000 <= hi * hi * nn
     ELSE \* long vectors: cos^2 in units of 10^-4 by integer division, bracket of +-15 thousandths
          LET r == (dt * dt * 10000) \div nn
              lo == IF Abs(c) > 15 THEN Abs(c) - 15 ELSE 0   hi == Abs(c) + 15 IN
          /\ (Abs(c) > 15 => Sgn(c) = Sgn(dt))
          /\ lo * lo <= (r + 1) * 100 /\ r * 100 <= hi * hi
RecordedOk(metric, q, v, d) == IF metric = "cosine" THEN CosRecordedOk(q, v, d) ELSE d = IntDist(metric, q, v)

\* ---------------------------------------------------------------- the proximity graph g
\* g = [ep |-> id or 0, maxl |-> n, nodes |-> << <<id, <<layer0 list, layer1 list, ...>> >>, ... >>]
GIds(g) == {g.nodes[i][1] : i \in DOMAIN g.nodes}
Layers(g, x) == (CHOOSE i \in DOMAIN g.nodes : g.nodes[i][1] = x) 
\* a link to an id that is not in the graph (dangling) leads nowhere: the code gives such a node distance f32::MAX
NbrSeq(g, x, lc) == IF x \notin GIds(g) THEN <<>> ELSE LET ls == g.nodes[Layers(g, x)][2] IN IF lc + 1 <= Len(ls) THEN ls[lc + 1] ELSE <<>>
RECURSIVE ReachR(_, _, _)
ReachR(g, S, k) == IF k = 0 THEN S ELSE ReachR(g, S \cup UNION {Rng(NbrSeq(g, x, 0)) : x \in S}, k - 1)
Reach0(g, x) == ReachR(g, {x}, Len(g.nodes))
\* one pass of search_layer_single over the neighbour list of x
GreedyStep(g, vecs, metric, q, x, lc) ==
  LET L == SelectSeq(NbrSeq(g, x, lc), LAMBDA y : y \in DOMAIN vecs) IN
  IF L = <<>> \/ x \notin DOMAIN vecs THEN x
  ELSE LET best == CHOOSE i \in DOMAIN L : /\ \A j \in DOMAIN L : ~Less(metric, q, vecs[L[j]], vecs[L[i]])
                                           /\ \A j \in DOMAIN L : j < i => Less(metric, q, vecs[L[i]], vecs[L[j]])
       IN IF Less(metric, q, vecs[L[best]], vecs[x]) THEN L[best] ELSE x
RECURSIVE GreedyLayer(_, _, _, _, _, _, _)
GreedyLayer(g, vecs, metric, q, x, lc, fuel) ==
  LET y == GreedyStep(g, vecs, metric, q, x, lc) IN IF y = x \/ fuel = 0 THEN x ELSE GreedyLayer(g, vecs, metric, q, y, lc, fuel - 1)
RECURSIVE Descend(_, _, _, _, _, _)
Descend(g, vecs, metric, q, x, lc) == IF lc = 0 THEN x ELSE Descend(g, vecs, metric, q, GreedyLayer(g, vecs, metric, q, x, lc, Len(g.nodes)), lc - 1)
\* where the layer-0 beam search starts.  Cosine distances are compared in f32 by the implementation and two
\* vectors with equal exact cosine may differ by one ulp there, so for cosine the start is left open.
Starts(g, vecs, metric, q) == IF metric = "cosine" THEN GIds(g) ELSE {Descend(g, vecs, metric, q, g.ep, g.maxl)}

\* ---------------------------------------------------------------- the search contract
Min2(a, b) == IF a < b THEN a ELSE b
Max2(a, b) == IF a > b THEN a ELSE b
\* res: sequence of <<id, recorded distance>>
Basic(vecs, metric, q, k, res) ==
  /\ Len(res) <= k
  /\ \A i, j \in DOMAIN res : i # j => res[i][1] # res[j][1]                       \* distinct
  /\ \A i \in DOMAIN res : res[i][1] \in DOMAIN vecs                                \* present, never a removed one
  /\ \A i \in DOMAIN res : RecordedOk(metric, q, vecs[res[i][1]], res[i][2])        \* true distance
  /\ \A i, j \in DOMAIN res : i < j => ~Less(metric, q, vecs[res[j][1]], vecs[res[i][1]])   \* sorted
ExactWithin(vecs, metric, q, k, res, R) ==        \* the k nearest members of R
  /\ Len(res) = Min2(k, Cardinality(R))
  /\ \A i \in DOMAIN res : res[i][1] \in R
  /\ \A r \in R \ {res[i][1] : i \in DOMAIN res} : \A i \in DOMAIN res : ~Less(metric, q, vecs[r], vecs[res[i][1]])
SearchOk(g, vecs, metric, q, k, ef, res) ==
  IF vecs = <<>> THEN res = <<>>
  ELSE /\ Basic(vecs, metric, q, k, res)
       /\ \E s \in Starts(g, vecs, metric, q) :
            LET R == Reach0(g, s) \cap DOMAIN vecs IN      \* (a dangling link reaches nothing that is present)
            /\ Len(res) = Min2(k, Cardinality(R))
            /\ \A i \in DOMAIN res : res[i][1] \in R
            /\ (Max2(ef, k) >= Cardinality(R) => ExactWithin(vecs, metric, q, k, res, R))
\* a quantised index searches the same layered graph for k x rescore-factor candidates and re-ranks them: what is
\* demanded of it is the count and the membership (the order among equally quantised candidates is not the contract's)
QuantSearchOk(g, vecs, metric, q, k, res) ==
  IF DOMAIN vecs = {} THEN res = <<>>
  ELSE /\ Basic(vecs, metric, q, k, res)
       /\ \E s \in Starts(g, vecs, metric, q) :
            LET R == Reach0(g, s) \cap DOMAIN vecs IN
            /\ Len(res) = Min2(k, Cardinality(R))
            /\ \A i \in DOMAIN res : res[i][1] \in R
ExactOk(vecs, metric, q, k, res) == Basic(vecs, metric, q, k, res) /\ ExactWithin(vecs, metric, q, k, res, DOMAIN vecs)
\* the ideal the approximate structure aims at; a search that is not IdealOk but SearchOk is a legitimate
\* approximation (reported as information, never as a violation)
IdealOk(vecs, metric, q, k, res) == ExactOk(vecs, metric, q, k, res)

\* ---------------------------------------------------------------- structure (what remove / insert must maintain)
\* links only to present nodes is what makes "never a removed one" true of every search
NoDangling(g, vecs) == /\ GIds(g) = DOMAIN vecs
                       /\ \A i \in DOMAIN g.nodes : \A lc \in DOMAIN g.nodes[i][2] : Rng(g.nodes[i][2][lc]) \subseteq DOMAIN vecs
EntryOk(g, vecs) == IF vecs = <<>> THEN g.ep = 0 ELSE g.ep \in DOMAIN vecs
=============================================================================
