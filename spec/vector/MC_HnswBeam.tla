---------------------------- MODULE MC_HnswBeam ----------------------------
(* C18, design level: the layer-0 beam search of hnsw.rs (search_layer) as a state machine, checked by TLC
   over EVERY directed graph on N nodes (out-degree <= MaxDeg), every placement of the query, every entry
   point and every ef, with every order of visiting a node's neighbours and every tie-break of the heaps.
   It establishes the lemma that Hnsw.tla's SearchOk relies on:
       at termination   results \subseteq R,   |results| = min(ef, |R|),
                        ef >= |R|  =>  results = R        (R = nodes reachable from the entry point)
   and, with the deviation switch, shows the check is not vacuous:
       NoRoomRule    - a neighbour is kept only if it is closer than the furthest result (drops the "or there
                       is still room" half of should_add): fewer than min(ef, |R|) results come back.
       StopWhenFull  - stop as soon as the result heap is full: harmless for the lemma (kept to show that
                       the lemma does not depend on the early-exit distance test). *)
EXTENDS Naturals, FiniteSets, TLC
CONSTANTS N, MaxDeg, QMax, AsIs
Node == 1..N
VARIABLES nbr, q, ef, ep,          \* the instance (fixed during a behaviour)
          cand, res, vis,          \* candidates (min-heap), results (max-heap, <= ef), visited
          cur, todo,               \* node being expanded and its neighbours not yet looked at
          pc
vars == <<nbr, q, ef, ep, cand, res, vis, cur, todo, pc>>
Abs(x) == IF x < 0 THEN 0 - x ELSE x
\* nodes sit on a line at positions 2, 4, 6, ...; the query anywhere in 0..QMax: ties (equidistant nodes) occur
D(x) == IF 2 * x >= q THEN 2 * x - q ELSE q - 2 * x
RECURSIVE ReachR(_, _)
ReachR(S, k) == IF k = 0 THEN S ELSE ReachR(S \cup UNION {nbr[x] : x \in S}, k - 1)
R == ReachR({ep}, N)
MaxD(S) == CHOOSE d \in {D(x) : x \in S} : \A y \in S : D(y) <= d
Init == /\ nbr \in [Node -> {S \in SUBSET Node : Cardinality(S) <= MaxDeg}]
        /\ q \in 0..QMax /\ ef \in 1..(N + 1) /\ ep \in Node
        /\ cand = {ep} /\ res = {ep} /\ vis = {ep} /\ cur = 0 /\ todo = {} /\ pc = "pop"
\* while let Some(current) = candidates.pop()
Pop == /\ pc = "pop"
       /\ IF cand = {} THEN pc' = "done" /\ UNCHANGED <<cand, cur, todo>>
          ELSE \E c \in {x \in cand : \A y \in cand : D(x) <= D(y)} :          \* any of the nearest candidates
                 IF (IF "StopWhenFull" \in AsIs THEN Cardinality(res) >= ef ELSE D(c) > MaxD(res) /\ Cardinality(res) >= ef)
                 THEN pc' = "done" /\ UNCHANGED <<cand, cur, todo>>
                 ELSE pc' = "nbrs" /\ cand' = cand \ {c} /\ cur' = c /\ todo' = nbr[c]
       /\ UNCHANGED <<nbr, q, ef, ep, res, vis>>
\* for &neighbor in &node.neighbors[layer]  (any order)
Visit == /\ pc = "nbrs"
         /\ IF todo = {} THEN pc' = "pop" /\ UNCHANGED <<cand, res, vis, todo>>
            ELSE \E n \in todo :
                   /\ todo' = todo \ {n} /\ pc' = "nbrs"
                   /\ IF n \in vis THEN UNCHANGED <<cand, res, vis>>
                      ELSE /\ vis' = vis \cup {n}
                           /\ IF (IF "NoRoomRule" \in AsIs THEN D(n) < MaxD(res) ELSE Cardinality(res) < ef \/ D(n) < MaxD(res))
                              THEN /\ cand' = cand \cup {n}
                                   /\ LET r1 == res \cup {n} IN
                                      IF Cardinality(r1) <= ef THEN res' = r1
                                      ELSE \E f \in {x \in r1 : D(x) = MaxD(r1)} : res' = r1 \ {f}    \* pop the furthest (any among ties)
                              ELSE UNCHANGED <<cand, res>>
         /\ UNCHANGED <<nbr, q, ef, ep, cur>>
Done == pc = "done" /\ UNCHANGED vars
Next == Pop \/ Visit \/ Done
Spec == Init /\ [][Next]_vars
Min2(a, b) == IF a < b THEN a ELSE b
\* ---- the lemma
InR == res \subseteq R /\ vis \subseteq R
Count == pc = "done" => Cardinality(res) = Min2(ef, Cardinality(R))
ExactWhenRoomy == (pc = "done" /\ ef >= Cardinality(R)) => res = R
\* what an ideal (exhaustive) search would return; the beam search is allowed to miss it when ef < |R|,
\* but a node nearer than everything returned can only be missed if it is not adjacent to an expanded node
Nearest == pc = "done" => \A x \in R \ res : \A y \in res : D(x) >= D(y) \/ ef < Cardinality(R)
=============================================================================
