SPECIFICATION Spec
CONSTANTS N = 3
MaxDeg = 3
QMax = 8
AsIs = {}
INVARIANTS InR Count ExactWhenRoomy Nearest
CHECK_DEADLOCK FALSE
