---------------------------- MODULE Trace_Front ----------------------------
(* C12: the recorded outcome of every supervised front-end call.  The supervisor logs one line per call that did
   not end in a result or an error value (and one summary line per batch of calls that all did); the property is
       Outcome \in {"ok", "err"}
   for every line.  Lines that violate it are printed as <<"BAD", line, language, outcome>>. *)
EXTENDS Naturals, Sequences, TLC, Json, IOUtils
Ev == ndJsonDeserialize(IOEnv.TRACE)
VARIABLE l
Allowed == {"ok", "err"}
Init == l = 1
Step == /\ l <= Len(Ev)
        /\ (IF Ev[l].outcome \in Allowed THEN TRUE ELSE PrintT(<<"BAD", l, Ev[l].lang, Ev[l].outcome>>))
        /\ l' = l + 1
Spec == Init /\ [][Step]_l
=============================================================================
