------------------------------ MODULE QueryGen ------------------------------
(* C12: the input space of the query front ends as a state machine whose behaviours are query texts.
   A text is a sequence of tokens of a language's alphabet (harness/front_tokens.json maps token numbers to
   text for GQL, Cypher, Gremlin, GraphQL and SPARQL: keywords, punctuation, literals including extreme
   numbers, unterminated strings, non-ASCII and control characters).  Every reachable state is one input:
   TLC enumerates ALL token sequences up to length MaxLen and prints them; the harness hands each to the
   real front end (empty and non-empty database, with and without parameters) in a supervised child process.

   The property is a property of the implementation's response, stated over the recorded outcome of each call:
       Outcome \in {"ok", "err"}        (never "panic", "abort", "hang")
   which Trace_Front.tla checks for every recorded call.  Nesting depth is tracked so that the enumeration can
   also be cut to balanced texts (Balanced = TRUE) to reach deeper, well-formed nests within the same budget. *)
EXTENDS Naturals, Sequences, TLC
CONSTANTS K,            \* alphabet size (token numbers 1..K)
          MaxLen,       \* longest text, in tokens
          Open, Close,  \* token numbers that open / close a bracket (sets)
          Balanced      \* TRUE: only texts whose brackets never close below zero
VARIABLES toks, depth
vars == <<toks, depth>>
Init == toks = <<>> /\ depth = 0
Add(t) == /\ Len(toks) < MaxLen
             /\ toks' = Append(toks, t)
             /\ (Balanced => ~(t \in Close /\ depth = 0))
             /\ depth' = (IF t \in Open THEN depth + 1 ELSE IF t \in Close THEN (IF depth > 0 THEN depth - 1 ELSE 0) ELSE depth)
Next == \E t \in 1..K : Add(t)
Spec == Init /\ [][Next]_vars
\* every state is an input: print it (one line per text)
Emit == PrintT(<<"Q", toks>>)
=============================================================================
