------------------------------- MODULE RdfTx -------------------------------
(* Triples under transactions (the "triple pattern" / "triple changes" clauses of C01 and C02).

   Code modelled: Session::{begin_tx, commit, rollback, Drop, execute_sparql} over RdfStore's
   transaction buffer (crates/grafeo-core/src/graph/rdf/store.rs: insert_in_tx / remove_in_tx /
   commit_tx / rollback_tx / find_with_pending) and the update operators of planner_rdf.rs
   (RdfInsertTriple / RdfDeleteTriple / RdfInsertPattern / RdfDeletePattern / RdfModify / RdfClear).

   Two stores are carried side by side:
     m*  the mechanism, one step per call, with deviation switches AsIs (subset of Switches):
           "noown"   the scan of a query inside a transaction reads the shared store only
                     (RdfStore::find instead of find_with_pending) - own pending writes invisible
           "bypass"  DELETE WHERE / DELETE-INSERT-WHERE / CLEAR inside a transaction write the shared
                     store at once instead of the transaction's buffer (dirty, survives rollback)
           "rc"      a transaction reads the shared store as it is now (read committed) instead of
                     the set of triples that was committed when it began
     i*  the definition the properties state: a transaction sees the committed set at its begin plus its
         own operations in order; commit replays the operations on the committed set; rollback / drop
         forget them; outside a transaction every operation is its own commit.
   With AsIs = {} the two coincide (Conforms is an invariant); every single switch violates it.

   A triple is a small integer s*100 + p*10 + o (1 <= s, p, o <= 9); a pattern is a record [s, p, o]
   with 0 for a variable.  Buffered operations carry *sets* of triples: <<"i", S>> or <<"d", S>>. *)
EXTENDS Naturals, Sequences, FiniteSets
CONSTANTS Sess, Triples, AsIs
Switches == {"noown", "bypass", "rc"}
ASSUME AsIs \subseteq Switches

VARIABLES mstore, mbuf, msnap, istore, ibuf, isnap, intx
rvars == <<mstore, mbuf, msnap, istore, ibuf, isnap, intx>>

TS(t) == t \div 100
TP(t) == (t \div 10) % 10
TO(t) == t % 10
Mk(s, p, o) == s * 100 + p * 10 + o
Matches(t, pat) == /\ (pat.s = 0 \/ TS(t) = pat.s) /\ (pat.p = 0 \/ TP(t) = pat.p) /\ (pat.o = 0 \/ TO(t) = pat.o)
Sel(V, pat) == {t \in V : Matches(t, pat)}

RECURSIVE Replay(_, _)
Replay(ops, S) == IF ops = <<>> THEN S
                  ELSE Replay(Tail(ops), IF Head(ops)[1] = "i" THEN S \cup Head(ops)[2] ELSE S \ Head(ops)[2])

\* ---- what a read of session s returns
MBase(s) == IF "rc" \in AsIs THEN mstore ELSE msnap[s]
MView(s) == IF ~intx[s] THEN mstore
            ELSE IF "noown" \in AsIs THEN MBase(s) ELSE Replay(mbuf[s], MBase(s))
IView(s) == IF ~intx[s] THEN istore ELSE Replay(ibuf[s], isnap[s])

Init == /\ mstore = {} /\ istore = {}
        /\ mbuf = [s \in Sess |-> <<>>] /\ ibuf = [s \in Sess |-> <<>>]
        /\ msnap = [s \in Sess |-> {}] /\ isnap = [s \in Sess |-> {}]
        /\ intx = [s \in Sess |-> FALSE]

Begin(s) == /\ ~intx[s]
            /\ intx' = [intx EXCEPT ![s] = TRUE]
            /\ msnap' = [msnap EXCEPT ![s] = mstore] /\ isnap' = [isnap EXCEPT ![s] = istore]
            /\ mbuf' = [mbuf EXCEPT ![s] = <<>>] /\ ibuf' = [ibuf EXCEPT ![s] = <<>>]
            /\ UNCHANGED <<mstore, istore>>

\* one list of operations, issued by session s; `direct`: the call writes the shared store even inside
\* a transaction (the "bypass" deviation of the pattern updates)
MApply(s, ops, direct) ==
  IF intx[s] /\ ~direct THEN mbuf' = [mbuf EXCEPT ![s] = mbuf[s] \o ops] /\ UNCHANGED mstore
  ELSE mstore' = Replay(ops, mstore) /\ UNCHANGED mbuf
IApply(s, ops) ==
  IF intx[s] THEN ibuf' = [ibuf EXCEPT ![s] = ibuf[s] \o ops] /\ UNCHANGED istore
  ELSE istore' = Replay(ops, istore) /\ UNCHANGED ibuf

\* INSERT DATA / DELETE DATA of a set of ground triples (RdfInsertTriple / RdfDeleteTriple honour the buffer)
InsData(s, T) == MApply(s, <<<<"i", T>>>>, FALSE) /\ IApply(s, <<<<"i", T>>>>) /\ UNCHANGED <<msnap, isnap, intx>>
DelData(s, T) == MApply(s, <<<<"d", T>>>>, FALSE) /\ IApply(s, <<<<"d", T>>>>) /\ UNCHANGED <<msnap, isnap, intx>>

\* DELETE WHERE { pat }: the matches of the pattern in what the session reads are removed
DelWhere(s, pat) ==
  /\ MApply(s, <<<<"d", Sel(MView(s), pat)>>>>, "bypass" \in AsIs)
  /\ IApply(s, <<<<"d", Sel(IView(s), pat)>>>>)
  /\ UNCHANGED <<msnap, isnap, intx>>

\* DELETE { ?x p1 ?y } INSERT { ?y p2 ?x } WHERE { ?x p1 ?y }: all deletions, then all insertions
Flip(V, p1, p2) == {Mk(TO(t), p2, TS(t)) : t \in Sel(V, [s |-> 0, p |-> p1, o |-> 0])}
Modify(s, p1, p2) ==
  /\ MApply(s, <<<<"d", Sel(MView(s), [s |-> 0, p |-> p1, o |-> 0])>>, <<"i", Flip(MView(s), p1, p2)>>>>, "bypass" \in AsIs)
  /\ IApply(s, <<<<"d", Sel(IView(s), [s |-> 0, p |-> p1, o |-> 0])>>, <<"i", Flip(IView(s), p1, p2)>>>>)
  /\ UNCHANGED <<msnap, isnap, intx>>

\* CLEAR DEFAULT
\* (the mechanism's CLEAR empties the shared store; inside a transaction the repaired code buffers the
\*  deletion of everything the session reads)
Clear(s) ==
  /\ (IF intx[s] /\ "bypass" \in AsIs THEN mstore' = {} /\ UNCHANGED mbuf
      ELSE MApply(s, <<<<"d", MView(s)>>>>, FALSE))
  /\ IApply(s, <<<<"d", IView(s)>>>>)
  /\ UNCHANGED <<msnap, isnap, intx>>

Commit(s) == /\ intx[s]
             /\ mstore' = Replay(mbuf[s], mstore) /\ istore' = Replay(ibuf[s], istore)
             /\ mbuf' = [mbuf EXCEPT ![s] = <<>>] /\ ibuf' = [ibuf EXCEPT ![s] = <<>>]
             /\ intx' = [intx EXCEPT ![s] = FALSE]
             /\ UNCHANGED <<msnap, isnap>>
\* rollback; also what dropping a session inside a transaction must amount to
Rollback(s) == /\ intx[s]
               /\ mbuf' = [mbuf EXCEPT ![s] = <<>>] /\ ibuf' = [ibuf EXCEPT ![s] = <<>>]
               /\ intx' = [intx EXCEPT ![s] = FALSE]
               /\ UNCHANGED <<mstore, istore, msnap, isnap>>

\* ---- the properties, stated on the definition alone (so they are what the i-side guarantees and
\*      what the m-side must reproduce)
\* C01: whatever any session reads is what the definition says it reads
Conforms == /\ \A s \in Sess : MView(s) = IView(s)
            /\ mstore = istore
\* C01: another session's begin / write / rollback never changes what a session inside a transaction reads,
\*      and nobody's uncommitted work is visible to others
StableSnapshot == [][\A s \in Sess : (intx[s] /\ intx'[s] /\ ibuf'[s] = ibuf[s]) => IView(s)' = IView(s)]_rvars
\* C02: a rollback leaves every reader exactly where it would be had the transaction never run
RollbackInvisible == [][\A s \in Sess : (intx[s] /\ ~intx'[s] /\ istore' = istore) =>
                            \A r \in Sess \ {s} : IView(r)' = IView(r)]_rvars
=============================================================================
