------------------------------ MODULE MC_Mvcc ------------------------------
(* Free exploration of Mvcc.tla (all histories of the bounded model).  With the as-is mechanism the
   invariant SnapshotReads is violated — TLC's shortest counterexample is the witness of the known
   findings; `Gen` mode (hist) prints behaviours that the harness replays on the real database. *)
EXTENDS Mvcc, Json
CONSTANTS Vals, Depth
VARIABLE hist
gvars == <<vars, hist>>
Act(r) == hist' = Append(hist, r)
NodeArg == 1..MaxN
GNext ==
  /\ Len(hist) < Depth
  /\ \/ \E s \in Sess : Begin(s) /\ Act([a |-> "begin", s |-> s])
     \/ \E s \in Sess : Commit(s) /\ Act([a |-> "commit", s |-> s])
     \/ \E s \in Sess : Rollback(s) /\ Act([a |-> "rollback", s |-> s])
     \/ \E s \in Sess : cur[s].in /\ Rollback(s) /\ Act([a |-> "drop", s |-> s])
     \/ \E s \in Sess, L \in {{"P"}, {"P", "Q"}, {"Q"}}, v \in Vals, via \in {"api", "gql"} :
          CreateNode(s, L, v) /\ Act([a |-> "cnode", s |-> s, L |-> L, v |-> v, via |-> via])
     \/ \E s \in Sess, n \in 1..nn, v \in Vals \cup {0}, lb \in {"", "P"} :
          SetProp(s, n, v, lb) /\ Act([a |-> "setp", s |-> s, n |-> n, v |-> v, lb |-> lb])
     \/ \E s \in Sess, n \in 1..nn, lb \in Labels, add \in BOOLEAN :
          SetLabel(s, n, lb, add) /\ Act([a |-> "setl", s |-> s, n |-> n, lb |-> lb, add |-> add])
     \/ \E s \in Sess, n \in 1..nn : DeleteNode(s, n) /\ Act([a |-> "deln", s |-> s, n |-> n])
     \/ \E s \in Sess, a \in 1..nn, b \in 1..nn : CreateEdge(s, a, b) /\ Act([a |-> "cedge", s |-> s, a1 |-> a, b1 |-> b])
     \/ \E e \in 1..ne : DbDeleteEdge(e) /\ Act([a |-> "dbdele", e |-> e])
GInit == Init /\ hist = <<>>
GSpec == GInit /\ [][GNext]_gvars
Emit == Len(hist) = Depth => PrintT(<<"REPLAY", ToJson(hist)>>)
MView == vars
=============================================================================
