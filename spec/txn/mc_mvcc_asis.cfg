SPECIFICATION GSpec
CONSTANTS
  Sess = {"s1", "s2"}
  MaxN = 2
  MaxE = 1
  Vals = {1, 2}
  Depth = 6
INVARIANT SnapshotReads
VIEW MView
CHECK_DEADLOCK FALSE
