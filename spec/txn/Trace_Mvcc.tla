---------------------------- MODULE Trace_Mvcc ----------------------------
(* Trace validation for Mvcc.tla.  Each recorded event = one Mvcc action with the logged arguments;
   after it, EVERY read kind of EVERY session, as observed on the real database, must equal either
   what the as-is mechanism model yields or what the ideal (snapshot) view yields.  An observation
   that equals neither is a rejection.  Observations that equal the mechanism but not the ideal are
   the known deviations; the first occurrence of each (kind) per trace is printed as a DEV line. *)
EXTENDS Mvcc, Json, IOUtils
Ev == ndJsonDeserialize(IOEnv.TRACE)
CONSTANT CopyOnly  \* TRUE: validate only the C07 copy observations (xn, xe, xok); FALSE: every read kind
CONSTANT DevAll   \* TRUE: print the deviating kinds of every event (witness runs); FALSE: first occurrence per trace
VARIABLES l, devs
tvars == <<vars, l, devs>>

Range(q) == {q[i] : i \in DOMAIN q}
AsSet(q) == Range(q)
NoDup(q) == Cardinality(Range(q)) = Len(q)
SeqOfSets(q) == [i \in DOMAIN q |-> Range(q[i])]
Either(x, m, i) == IF x = m THEN TRUE ELSE x = i

Reset ==
  /\ E' = 0 /\ nextTx' = 2 /\ cur' = [s \in Sess |-> NoTx] /\ nn' = 0 /\ ne' = 0
  /\ nv' = [n \in Nodes |-> NoV] /\ nlab' = [n \in Nodes |-> {}] /\ nprop' = [n \in Nodes |-> 0]
  /\ ev' = [e \in Edges |-> NoV] /\ esrc' = [e \in Edges |-> 0] /\ edst' = [e \in Edges |-> 0] /\ adj' = {}
  /\ cg' = EmptyG /\ tv' = [s \in Sess |-> EmptyG] /\ tn' = [s \in Sess |-> {}] /\ te' = [s \in Sess |-> {}]
  /\ cwn' = [s \in Sess |-> {}] /\ cwe' = [s \in Sess |-> {}]

\* kinds that deviate from the ideal after this step
DevKinds(e) ==
  UNION { {k \in {"ls", "as", "gt", "ex", "no", "ni"} :
             LET G == View(s)' IN
             CASE k = "ls" -> AsSet(e.obs.ls[s]) # ILS(G)
               [] k = "as" -> AsSet(e.obs.as[s]) # IAS(G)
               [] k = "gt" -> e.obs.gt[s] # IGTx(G, nn')
               [] k = "ex" -> AsSet(e.obs.ex[s]) # IEXx(G, esrc', edst')
               [] k = "no" -> SeqOfSets(e.obs.no[s]) # INOx(G, nn', esrc', edst')
               [] k = "ni" -> SeqOfSets(e.obs.ni[s]) # INIx(G, nn', esrc', edst')} : s \in Sess }
  \cup (IF e.obs.nc # INC' THEN {"nc"} ELSE {}) \cup (IF e.obs.ec # IEC' THEN {"ec"} ELSE {})
  \cup (IF AsSet(e.obs.xn) # IXN' \/ AsSet(e.obs.xe) # IXE' THEN {"exp"} ELSE {})

ObsReads(e) ==
  /\ \A s \in Sess :
       LET G == View(s)' IN
       /\ NoDup(e.obs.ls[s]) /\ Either(AsSet(e.obs.ls[s]), MLS(s)', ILS(G))
       /\ NoDup(e.obs.as[s]) /\ Either(AsSet(e.obs.as[s]), MAS(s)', IAS(G))
       /\ Either(e.obs.gt[s], MGT(s)', IGTx(G, nn'))
       /\ NoDup(e.obs.ex[s]) /\ Either(AsSet(e.obs.ex[s]), MEX(s)', IEXx(G, esrc', edst'))
       /\ Either(SeqOfSets(e.obs.no[s]), MNO(s)', INOx(G, nn', esrc', edst'))
       /\ Either(SeqOfSets(e.obs.ni[s]), MNI(s)', INIx(G, nn', esrc', edst'))
  /\ Either(e.obs.nc, MNC', INC')
  /\ Either(e.obs.ec, MEC', IEC')
ObsCopies(e) ==
  \* C07: import(export), to_memory (and, when sampled, save+open / open_in_memory) give the same copy,
  \* equal to what all_nodes/all_edges enumerate (mechanism) or to the committed graph (ideal);
  \* the copies agree with each other, two exports are byte-identical, the source is unchanged
  /\ NoDup(e.obs.xn) /\ Either(AsSet(e.obs.xn), MXN', IXN')
  /\ NoDup(e.obs.xe) /\ Either(AsSet(e.obs.xe), MXE', IXE')
  /\ e.obs.xok
  \* the copy is a graph: its adjacency lists, in both directions, are exactly what its edges say
  \* (xe rows are <<edge, src, dst>>; xo / xi rows are <<node, neighbour, edge>> for the nodes of the copy)
  /\ LET cn == {x[1] : x \in AsSet(e.obs.xn)}  ce == AsSet(e.obs.xe) IN
       /\ NoDup(e.obs.xo) /\ AsSet(e.obs.xo) = {<<x[2], x[3], x[1]>> : x \in {y \in ce : y[2] \in cn}}
       /\ NoDup(e.obs.xi) /\ AsSet(e.obs.xi) = {<<x[3], x[2], x[1]>> : x \in {y \in ce : y[3] \in cn}}
ObsX(e, extra) ==
  /\ (IF CopyOnly THEN TRUE ELSE ObsReads(e))
  /\ ObsCopies(e)
  /\ LET dk == (IF CopyOnly THEN DevKinds(e) \cap {"exp"} ELSE DevKinds(e) \cup extra) IN
       /\ devs' = devs \cup dk
       /\ (IF DevAll THEN (IF dk = {} THEN TRUE ELSE PrintT(<<"DEV", l, dk>>))
           ELSE IF dk \subseteq devs THEN TRUE ELSE PrintT(<<"DEV", l, dk \ devs>>))

Obs(e) == ObsX(e, {})

TStep ==
  /\ l <= Len(Ev)
  /\ l' = l + 1
  /\ LET e == Ev[l] IN
     CASE e.a = "reset"    -> Reset /\ devs' = {}
       [] e.a = "begin"    -> Begin(e.s) /\ Obs(e)
       [] e.a = "commit"   -> IF e.r = "ok" THEN Commit(e.s) /\ ObsX(e, IF Conflict(e.s) THEN {"fcw"} ELSE {})
                              ELSE e.r = "conflict" /\ CommitRefused(e.s) /\ Obs(e)
       [] e.a = "rollback" -> Rollback(e.s) /\ Obs(e)
       [] e.a = "drop"     -> (IF cur[e.s].in THEN Rollback(e.s) ELSE UNCHANGED vars) /\ Obs(e)
       [] e.a = "cnode"    -> CreateNode(e.s, Range(e.L), e.v) /\ e.id = nn' /\ Obs(e)
       [] e.a = "setp"     -> SetProp(e.s, e.n, e.v, e.lb) /\ Obs(e)
       [] e.a = "setl"     -> SetLabel(e.s, e.n, e.lb, e.add) /\ Obs(e)
       [] e.a = "deln"     -> DeleteNode(e.s, e.n) /\ Obs(e)
       [] e.a = "cedge"    -> CreateEdge(e.s, e.a1, e.b1) /\ e.id = ne' /\ Obs(e)
       [] e.a = "dbdele"   -> DbDeleteEdge(e.e) /\ Obs(e)

TInit == Init /\ l = 1 /\ devs = {}
TSpec == TInit /\ [][TStep]_tvars

Accepted ==
  LET d == TLCGet("stats").diameter IN
  IF d - 1 = Len(Ev) THEN TRUE
  ELSE /\ PrintT(<<"REJECT", d, ToJson(Ev[d])>>)
       /\ FALSE
=============================================================================
