SPECIFICATION TSpec
CONSTANTS
  Tx = {1,2,3,4,5,6,7,8,9,10,11,12}
  Ent = {"n1","n2","n3","e1"}
  MaxOps = 99
  AsIs = {"RefuseAnyCommitted"}
  IsoLevels = {"RC", "SI", "SER"}
  StopAfterRefusal = FALSE
POSTCONDITION Accepted
CHECK_DEADLOCK FALSE
