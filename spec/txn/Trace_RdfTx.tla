----------------------------- MODULE Trace_RdfTx -----------------------------
(* Trace validation for RdfTx.tla.  One recorded event = one call on a real Session (SPARQL text through
   execute_sparql, or begin / commit / rollback / drop); after it the harness asks EVERY session for the
   whole default graph (`obs.all[s]`, SELECT ?s ?p ?o) and for one triple pattern (`obs.pat[s]`, the
   pattern is in the event) - the constant positions of the pattern select the index path of RdfStore::find.
   Each session's answers must equal what the mechanism model (with the switches AsIs of the current tree)
   gives, or what the definition gives; rows must not repeat.  Answers that equal the mechanism but not
   the definition are deviations, printed as DEV lines (kind "rc": the only switch left in AsIs). *)
EXTENDS RdfTx, Json, IOUtils, TLC
Ev == ndJsonDeserialize(IOEnv.TRACE)
CONSTANT DevAll
VARIABLES l, devs
tvars == <<rvars, l, devs>>

Range(q) == {q[i] : i \in DOMAIN q}
NoDup(q) == Cardinality(Range(q)) = Len(q)
Pat(e) == [s |-> e.qs, p |-> e.qp, o |-> e.qo]

SessOk(e, s, V) == Range(e.obs.all[s]) = V /\ Range(e.obs.pat[s]) = Sel(V, Pat(e))
Obs(e) ==
  /\ \A s \in Sess :
       /\ NoDup(e.obs.all[s]) /\ NoDup(e.obs.pat[s])
       /\ (SessOk(e, s, MView(s)') \/ SessOk(e, s, IView(s)'))
  /\ LET dk == IF \E s \in Sess : ~SessOk(e, s, IView(s)') THEN AsIs ELSE {} IN
       /\ devs' = devs \cup dk
       /\ (IF DevAll THEN (IF dk = {} THEN TRUE ELSE PrintT(<<"DEV", l, dk>>))
           ELSE IF dk \subseteq devs THEN TRUE ELSE PrintT(<<"DEV", l, dk \ devs>>))

Reset == /\ mstore' = {} /\ istore' = {}
         /\ mbuf' = [s \in Sess |-> <<>>] /\ ibuf' = [s \in Sess |-> <<>>]
         /\ msnap' = [s \in Sess |-> {}] /\ isnap' = [s \in Sess |-> {}]
         /\ intx' = [s \in Sess |-> FALSE]

TStep ==
  /\ l <= Len(Ev)
  /\ l' = l + 1
  /\ LET e == Ev[l] IN
     CASE e.a = "reset"    -> Reset /\ devs' = {}
       [] e.a = "begin"    -> e.r = "ok" /\ Begin(e.s) /\ Obs(e)
       [] e.a = "commit"   -> e.r = "ok" /\ Commit(e.s) /\ Obs(e)
       [] e.a = "rollback" -> e.r = "ok" /\ Rollback(e.s) /\ Obs(e)
       [] e.a = "drop"     -> (IF intx[e.s] THEN Rollback(e.s) ELSE UNCHANGED rvars) /\ Obs(e)
       [] e.a = "ins"      -> e.r = "ok" /\ InsData(e.s, Range(e.T)) /\ Obs(e)
       [] e.a = "del"      -> e.r = "ok" /\ DelData(e.s, Range(e.T)) /\ Obs(e)
       [] e.a = "delw"     -> e.r = "ok" /\ DelWhere(e.s, [s |-> e.ps, p |-> e.pp, o |-> e.po]) /\ Obs(e)
       [] e.a = "mod"      -> e.r = "ok" /\ Modify(e.s, e.p1, e.p2) /\ Obs(e)
       [] e.a = "clear"    -> e.r = "ok" /\ Clear(e.s) /\ Obs(e)

TInit == Init /\ l = 1 /\ devs = {}
TSpec == TInit /\ [][TStep]_tvars

Accepted ==
  LET d == TLCGet("stats").diameter IN
  IF d - 1 = Len(Ev) THEN TRUE
  ELSE /\ PrintT(<<"REJECT", d, ToJson(Ev[d])>>)
       /\ FALSE
=============================================================================
