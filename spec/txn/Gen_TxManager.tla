---------------------------- MODULE Gen_TxManager ----------------------------
(* Behaviour generator: TLC -simulate walks TxManager's Next; the action labels (`last`) of each
   behaviour are printed as one JSON line and replayed through the real TransactionManager. *)
EXTENDS TxManager, Json
CONSTANT Depth
VARIABLE hist
gvars == <<vars, hist>>
GInit == Init /\ hist = <<>>
GNextA == \/ \E t \in Tx, i \in IsoLevels : BeginSeq(t, i)
          \/ \E t \in Tx, e \in Ent : RecW(t, e) \/ RecR(t, e)
          \/ \E t \in Tx : Commit(t) \/ Abort(t)
          \/ AbortAll
          \/ Gc(FALSE)
GNext == /\ Len(hist) < Depth
         /\ GNextA
         /\ hist' = Append(hist, last')
GSpec == GInit /\ [][GNext]_gvars
Emit == Len(hist) = Depth => PrintT(<<"REPLAY", ToJson(hist)>>)
=============================================================================
