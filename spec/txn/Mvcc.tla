------------------------------- MODULE Mvcc -------------------------------
(* Sessions, transactions and MVCC visibility of the property graph (C01, C02, C07).

   Two models side by side, driven by the same actions:

   MECHANISM ("as-is"): what grafeo's session / store / operator code does, transcribed from
     session.rs (begin/commit/rollback/Drop, get_transaction_context), mvcc.rs (VersionInfo::
     is_visible_at / is_visible_to, VersionChain::mark_deleted / remove_versions_by), lpg/store.rs
     (create_*_versioned, delete_*_at_epoch, delete_node_edges, add_label/remove_label,
     set/remove_node_property, node_ids, nodes_by_label, get_*_versioned, edges_from, counts,
     discard_uncommitted_versions) and the scan / expand / mutation operators.
     One version per chain; labels, properties and adjacency are single-version side tables.

   IDEAL (ghost): the definition of the property.  `cg` is the committed graph; a transaction
     works on `tv[s]`, its private copy taken at begin (snapshot) plus its own writes; commit
     installs the touched entities; rollback / drop discards.  View(s) is what every read of
     session s must return.

   Known deviations of the mechanism from the ideal (each is a listed finding, see
   known_findings.json): StampAtStart (versions created in a transaction carry its start epoch
   and are visible to every reader at or after that epoch), SideTablesInPlace (labels, properties,
   adjacency written in place: visible at once, never rolled back), DeleteInPlace (delete marks
   and label/property removal are immediate and survive rollback), AutoCommitSameEpoch (a write
   outside a transaction is stamped with the current epoch and so becomes visible to
   transactions that began earlier at that epoch), OwnerShortcutSystem.
*)
EXTENDS Naturals, FiniteSets, Sequences, TLC
CONSTANTS Sess, MaxN, MaxE
VARIABLES
  \* ---- mechanism
  E,        \* TransactionManager.current_epoch (= LpgStore.current_epoch after every Session::commit)
  nextTx,   \* next transaction id (user transactions start at 2; 1 = TxId::SYSTEM)
  cur,      \* cur[s] = [in, id, start]
  nn, ne,   \* nodes / edges created so far (ids are never reused)
  nv,       \* nv[n] = NoV | [c, d, by]   node version chain (single version)
  nlab,     \* node_labels + label_index (in place)
  nprop,    \* node property k (in place); 0 = absent
  ev,       \* ev[e] = NoV | [c, d, by]
  esrc, edst,
  adj,      \* edge ids present (not tombstoned) in forward/backward adjacency
  \* ---- ideal (ghost)
  cg,       \* committed graph [ns, lab, pr, es]
  tv,       \* tv[s] = private graph of the open transaction of s
  tn, te,   \* entities touched by the open transaction of s
  cwn, cwe  \* nodes / edges touched by OTHER transactions that committed while s's transaction is open
mech == <<E, nextTx, cur, nn, ne, nv, nlab, nprop, ev, esrc, edst, adj>>
ghost == <<cg, tv, tn, te, cwn, cwe>>
vars == <<mech, ghost>>

NONE == 999
SYS == 1
NoV == [c |-> NONE, d |-> NONE, by |-> 0]
NoTx == [in |-> FALSE, id |-> SYS, start |-> NONE]
Labels == {"P", "Q"}
Nodes == 1..MaxN
Edges == 1..MaxE
EmptyG == [ns |-> {}, lab |-> [n \in Nodes |-> {}], pr |-> [n \in Nodes |-> 0], es |-> {}]

Init ==
  /\ E = 0 /\ nextTx = 2 /\ cur = [s \in Sess |-> NoTx] /\ nn = 0 /\ ne = 0
  /\ nv = [n \in Nodes |-> NoV] /\ nlab = [n \in Nodes |-> {}] /\ nprop = [n \in Nodes |-> 0]
  /\ ev = [e \in Edges |-> NoV] /\ esrc = [e \in Edges |-> 0] /\ edst = [e \in Edges |-> 0] /\ adj = {}
  /\ cg = EmptyG /\ tv = [s \in Sess |-> EmptyG] /\ tn = [s \in Sess |-> {}] /\ te = [s \in Sess |-> {}]
  /\ cwn = [s \in Sess |-> {}] /\ cwe = [s \in Sess |-> {}]

\* ------------------------------------------------------------------ mechanism: visibility
VE(s) == IF cur[s].in THEN cur[s].start ELSE E
TX(s) == cur[s].id
VisAt(r, e) == r # NoV /\ r.c <= e /\ (r.d = NONE \/ r.d > e)
VisTo(r, e, tx) == r # NoV /\ (IF r.by = tx THEN r.d = NONE ELSE VisAt(r, e))
NodeVis(s, n) == n \in 1..nn /\ VisTo(nv[n], VE(s), TX(s))
EdgeVis(s, e) == e \in 1..ne /\ VisTo(ev[e], VE(s), TX(s))
\* Scan without label: node_ids() (store epoch) filtered by get_node_versioned
ASet(s) == {n \in 1..nn : VisAt(nv[n], E) /\ NodeVis(s, n)}
\* Scan with label: nodes_by_label() (label index, unfiltered) filtered by get_node_versioned
LSet(s, lb) == {n \in 1..nn : lb \in nlab[n] /\ NodeVis(s, n)}
\* property / labels() evaluation in filter & project: LpgStore::get_node at the store epoch
LabCode(L) == (IF "P" \in L THEN 1 ELSE 0) + (IF "Q" \in L THEN 2 ELSE 0)
PropProj(n) == IF VisAt(nv[n], E) THEN nprop[n] ELSE 0
LabProj(n) == IF VisAt(nv[n], E) THEN LabCode(nlab[n]) ELSE 9

MLS(s) == {<<n, PropProj(n)>> : n \in LSet(s, "P")}
MAS(s) == {<<n, PropProj(n), LabProj(n)>> : n \in ASet(s)}
MGT(s) == [i \in 1..nn |-> IF NodeVis(s, i) THEN <<1, nprop[i], LabCode(nlab[i])>> ELSE <<0, 0, 0>>]
MEX(s) == {<<esrc[e], e, edst[e]>> : e \in {x \in adj : esrc[x] \in ASet(s) /\ EdgeVis(s, x) /\ NodeVis(s, edst[x])}}
MNO(s) == [i \in 1..nn |-> {<<edst[e], e>> : e \in {x \in adj : esrc[x] = i}}]
MNI(s) == [i \in 1..nn |-> {<<esrc[e], e>> : e \in {x \in adj : edst[x] = i}}]
\* export_snapshot / to_memory / save: all_nodes() and all_edges() at the store epoch (C07)
MXN == {<<n, nprop[n], LabCode(nlab[n])>> : n \in {x \in 1..nn : VisAt(nv[x], E)}}
MXE == {<<e, esrc[e], edst[e]>> : e \in {x \in 1..ne : VisAt(ev[x], E)}}
MNC == Cardinality({n \in 1..nn : VisAt(nv[n], E)})
MEC == Cardinality({e \in 1..ne : VisAt(ev[e], E)})

\* ------------------------------------------------------------------ ideal: graphs and reads
View(s) == IF cur[s].in THEN tv[s] ELSE cg
ILS(G) == {<<n, G.pr[n]>> : n \in {x \in G.ns : "P" \in G.lab[x]}}
IAS(G) == {<<n, G.pr[n], LabCode(G.lab[n])>> : n \in G.ns}
\* the remaining ideal reads take the (current or next-state) counters / endpoint maps explicitly
IGTx(G, k) == [i \in 1..k |-> IF i \in G.ns THEN <<1, G.pr[i], LabCode(G.lab[i])>> ELSE <<0, 0, 0>>]
IEXx(G, es, ed) == {<<es[e], e, ed[e]>> : e \in {x \in G.es : es[x] \in G.ns /\ ed[x] \in G.ns}}
INOx(G, k, es, ed) == [i \in 1..k |-> {<<ed[e], e>> : e \in {x \in G.es : es[x] = i}}]
INIx(G, k, es, ed) == [i \in 1..k |-> {<<es[e], e>> : e \in {x \in G.es : ed[x] = i}}]
IGT(G) == IGTx(G, nn)
IEX(G) == IEXx(G, esrc, edst)
INO(G) == INOx(G, nn, esrc, edst)
INI(G) == INIx(G, nn, esrc, edst)
\* a copy taken outside any transaction must be the committed graph
IXN == {<<n, cg.pr[n], LabCode(cg.lab[n])>> : n \in cg.ns}
IXE == {<<e, esrc[e], edst[e]>> : e \in cg.es}
INC == Cardinality(cg.ns)
IEC == Cardinality(cg.es)

GCreateNode(G, i, L, v) == [G EXCEPT !.ns = @ \cup {i}, !.lab[i] = L, !.pr[i] = v]
GSetProp(G, n, v) == [G EXCEPT !.pr[n] = v]
GSetLab(G, n, L) == [G EXCEPT !.lab[n] = L]
GDelNode(G, n) == [G EXCEPT !.ns = @ \ {n}, !.lab[n] = {}, !.pr[n] = 0,
                            !.es = {e \in @ : esrc[e] # n /\ edst[e] # n}]
GAddEdge(G, e) == [G EXCEPT !.es = @ \cup {e}]
GDelEdge(G, e) == [G EXCEPT !.es = @ \ {e}]

\* an ideal write by session s: G2 is the new view, N / Ed the touched entities
IWrite(s, G2, N, Ed) ==
  IF cur[s].in
  THEN /\ tv' = [tv EXCEPT ![s] = G2] /\ tn' = [tn EXCEPT ![s] = @ \cup N] /\ te' = [te EXCEPT ![s] = @ \cup Ed]
       /\ cg' = cg /\ UNCHANGED <<cwn, cwe>>
  ELSE /\ cg' = G2 /\ UNCHANGED <<tv, tn, te>>
       \* an auto-committed write is a committed write by "another transaction" for every open one
       /\ cwn' = [x \in Sess |-> IF cur[x].in THEN cwn[x] \cup N ELSE cwn[x]]
       /\ cwe' = [x \in Sess |-> IF cur[x].in THEN cwe[x] \cup Ed ELSE cwe[x]]
\* install the touched entities of s into the committed graph
Install(s) ==
  [ns  |-> (cg.ns \ tn[s]) \cup (tv[s].ns \cap tn[s]),
   lab |-> [n \in Nodes |-> IF n \in tn[s] THEN tv[s].lab[n] ELSE cg.lab[n]],
   pr  |-> [n \in Nodes |-> IF n \in tn[s] THEN tv[s].pr[n] ELSE cg.pr[n]],
   es  |-> (cg.es \ te[s]) \cup (tv[s].es \cap te[s])]

\* ------------------------------------------------------------------ actions
Begin(s) ==
  /\ ~cur[s].in
  /\ cur' = [cur EXCEPT ![s] = [in |-> TRUE, id |-> nextTx, start |-> E]]
  /\ nextTx' = nextTx + 1
  /\ tv' = [tv EXCEPT ![s] = cg] /\ tn' = [tn EXCEPT ![s] = {}] /\ te' = [te EXCEPT ![s] = {}]
  /\ cwn' = [cwn EXCEPT ![s] = {}] /\ cwe' = [cwe EXCEPT ![s] = {}]
  /\ UNCHANGED <<E, nn, ne, nv, nlab, nprop, ev, esrc, edst, adj, cg>>

\* first-committer-wins (C03) at session level: s conflicts iff a transaction that committed while s was
\* open touched an entity s touched too
Conflict(s) == tn[s] \cap cwn[s] # {} \/ te[s] \cap cwe[s] # {}
\* Session::commit accepted.  (As-is the manager never refuses: sessions register no writes — finding
\* NoWriteRegistration; an accepted commit with Conflict(s) is that deviation.)
Commit(s) ==
  /\ cur[s].in
  /\ E' = E + 1
  /\ cur' = [cur EXCEPT ![s] = NoTx]
  /\ cg' = Install(s)
  /\ tv' = [tv EXCEPT ![s] = EmptyG] /\ tn' = [tn EXCEPT ![s] = {}] /\ te' = [te EXCEPT ![s] = {}]
  /\ cwn' = [x \in Sess |-> IF x # s /\ cur[x].in THEN cwn[x] \cup tn[s] ELSE IF x = s THEN {} ELSE cwn[x]]
  /\ cwe' = [x \in Sess |-> IF x # s /\ cur[x].in THEN cwe[x] \cup te[s] ELSE IF x = s THEN {} ELSE cwe[x]]
  /\ UNCHANGED <<nextTx, nn, ne, nv, nlab, nprop, ev, esrc, edst, adj>>

\* Session::rollback and Drop of a session with an open transaction: discard_uncommitted_versions
Rollback(s) ==
  /\ cur[s].in
  /\ nv' = [n \in Nodes |-> IF nv[n] # NoV /\ nv[n].by = cur[s].id THEN NoV ELSE nv[n]]
  /\ ev' = [e \in Edges |-> IF ev[e] # NoV /\ ev[e].by = cur[s].id THEN NoV ELSE ev[e]]
  /\ cur' = [cur EXCEPT ![s] = NoTx]
  /\ tv' = [tv EXCEPT ![s] = EmptyG] /\ tn' = [tn EXCEPT ![s] = {}] /\ te' = [te EXCEPT ![s] = {}]
  /\ cwn' = [cwn EXCEPT ![s] = {}] /\ cwe' = [cwe EXCEPT ![s] = {}]
  \* (since the repair of discard_uncommitted_versions) the discarded edges also leave the adjacency lists
  /\ adj' = adj \ {e \in Edges : ev[e] # NoV /\ ev[e].by = cur[s].id}
  /\ UNCHANGED <<E, nextTx, nn, ne, nlab, nprop, esrc, edst, cg>>
\* Session::commit refused with a write conflict: the repaired Session::commit rolls the transaction back
CommitRefused(s) == Conflict(s) /\ Rollback(s)

\* INSERT (:L {k: v}) / Session::create_node_with_props
CreateNode(s, L, v) ==
  /\ nn < MaxN
  /\ LET i == nn + 1 IN
     /\ nn' = i
     /\ nv' = [nv EXCEPT ![i] = [c |-> VE(s), d |-> NONE, by |-> TX(s)]]
     /\ nlab' = [nlab EXCEPT ![i] = L]
     /\ nprop' = [nprop EXCEPT ![i] = v]
     /\ IWrite(s, GCreateNode(View(s), i, L, v), {i}, {})
  /\ UNCHANGED <<E, nextTx, cur, ne, ev, esrc, edst, adj>>

\* MATCH (n[:P]) WHERE id(n) = x SET n.k = v   /   REMOVE n.k  (v = 0)
Matched(s, n, lb) == IF lb = "" THEN n \in ASet(s) ELSE n \in LSet(s, lb)
IMatched(G, n, lb) == n \in G.ns /\ (lb = "" \/ lb \in G.lab[n])
SetProp(s, n, v, lb) ==
  /\ nprop' = IF Matched(s, n, lb) THEN [nprop EXCEPT ![n] = v] ELSE nprop
  /\ LET G == View(s) IN
       IF IMatched(G, n, lb) THEN IWrite(s, GSetProp(G, n, v), {n}, {}) ELSE UNCHANGED ghost
  /\ UNCHANGED <<E, nextTx, cur, nn, ne, nv, nlab, ev, esrc, edst, adj>>

\* MATCH (n) WHERE id(n) = x SET n:Q  /  REMOVE n:Q     (LpgStore::add_label / remove_label)
SetLabel(s, n, lb, add) ==
  /\ nlab' = IF n \in ASet(s) /\ VisAt(nv[n], E)
             THEN [nlab EXCEPT ![n] = IF add THEN @ \cup {lb} ELSE @ \ {lb}] ELSE nlab
  /\ LET G == View(s) IN
       IF n \in G.ns THEN IWrite(s, GSetLab(G, n, IF add THEN G.lab[n] \cup {lb} ELSE G.lab[n] \ {lb}), {n}, {})
       ELSE UNCHANGED ghost
  /\ UNCHANGED <<E, nextTx, cur, nn, ne, nv, nprop, ev, esrc, edst, adj>>

\* LpgStore::delete_edge_at_epoch(e, ep): requires visible_at(ep); marks the version, tombstones adjacency
EdgeDeletable(e, ep) == VisAt(ev[e], ep)
MarkDel(r, ep) == IF r.d = NONE THEN [r EXCEPT !.d = ep] ELSE r

\* MATCH (n) WHERE id(n) = x DETACH DELETE n
DeleteNode(s, n) ==
  /\ IF n \in ASet(s)
     THEN LET inc == {e \in adj : esrc[e] = n \/ edst[e] = n}            \* delete_node_edges: store epoch
              del == {e \in inc : EdgeDeletable(e, E)}
              nodeDel == VisAt(nv[n], VE(s))                              \* delete_node_at_epoch(viewing epoch)
          IN /\ ev' = [e \in Edges |-> IF e \in del THEN MarkDel(ev[e], E) ELSE ev[e]]
             /\ adj' = adj \ del
             /\ nv' = IF nodeDel THEN [nv EXCEPT ![n] = MarkDel(@, VE(s))] ELSE nv
             /\ nlab' = IF nodeDel THEN [nlab EXCEPT ![n] = {}] ELSE nlab
             /\ nprop' = IF nodeDel THEN [nprop EXCEPT ![n] = 0] ELSE nprop
     ELSE UNCHANGED <<ev, adj, nv, nlab, nprop>>
  /\ LET G == View(s) IN
       IF n \in G.ns THEN IWrite(s, GDelNode(G, n), {n}, {e \in G.es : esrc[e] = n \/ edst[e] = n})
       ELSE UNCHANGED ghost
  /\ UNCHANGED <<E, nextTx, cur, nn, ne, esrc, edst>>

\* Session::create_edge(a, b, "T")
CreateEdge(s, a, b) ==
  /\ ne < MaxE
  /\ LET i == ne + 1 IN
     /\ ne' = i
     /\ ev' = [ev EXCEPT ![i] = [c |-> VE(s), d |-> NONE, by |-> TX(s)]]
     /\ esrc' = [esrc EXCEPT ![i] = a] /\ edst' = [edst EXCEPT ![i] = b]
     /\ adj' = adj \cup {i}
     /\ IWrite(s, [View(s) EXCEPT !.es = @ \cup {i}], {}, {i})
  /\ UNCHANGED <<E, nextTx, cur, nn, nv, nlab, nprop>>

\* GrafeoDB::delete_edge(e): outside any session, store epoch
DbDeleteEdge(e) ==
  /\ IF e \in 1..ne /\ EdgeDeletable(e, E)
     THEN /\ ev' = [ev EXCEPT ![e] = MarkDel(@, E)] /\ adj' = adj \ {e}
     ELSE UNCHANGED <<ev, adj>>
  /\ cg' = IF e \in cg.es THEN GDelEdge(cg, e) ELSE cg
  /\ UNCHANGED <<tv, tn, te>>
  /\ cwn' = cwn /\ cwe' = [x \in Sess |-> IF cur[x].in THEN cwe[x] \cup {e} ELSE cwe[x]]
  /\ UNCHANGED <<E, nextTx, cur, nn, ne, nv, nlab, nprop, esrc, edst>>

\* ------------------------------------------------------------------ the property (C01 / C02)
\* every kind of read by every session equals the read of its ideal view
SnapshotReads ==
  \A s \in Sess : LET G == View(s) IN
     /\ MLS(s) = ILS(G) /\ MAS(s) = IAS(G) /\ MGT(s) = IGT(G)
     /\ MEX(s) = IEX(G) /\ MNO(s) = INO(G) /\ MNI(s) = INI(G)
CountsAgree == MNC = INC /\ MEC = IEC
=============================================================================
