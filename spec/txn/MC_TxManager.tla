---------------------------- MODULE MC_TxManager ----------------------------
EXTENDS TxManager
Sym == Permutations(Tx) \cup Permutations(Ent)
\* coverage witnesses: each must be REACHABLE (checked by expecting a violation of its negation)
SomeWW == \E t \in DOMAIN g : g[t].out = "ww"
SomeRW == \E t \in DOMAIN g : g[t].out = "rw"
NeverWW == ~SomeWW
NeverRW == ~SomeRW
=============================================================================
