----------------------------- MODULE FcwHistory -----------------------------
(* First-committer-wins decided from recorded API return values only (no timing assumptions):
   a transaction is [s = start epoch, c = commit epoch (0 = refused), w = write set].  Two committed
   transactions overlap iff each started before the other committed (s_a < c_b and s_b < c_a).
   Used on histories produced by really concurrent threads (harness `gv txstress`). *)
EXTENDS Naturals, Sequences, FiniteSets, TLC, Json, IOUtils
Ev == ndJsonDeserialize(IOEnv.TRACE)
VARIABLE l
Range(q) == {q[i] : i \in DOMAIN q}
Committed(txs) == {i \in DOMAIN txs : txs[i].c > 0}
Overlap(a, b) == a.s < b.c /\ b.s < a.c
FCWOk(txs) == \A i, j \in Committed(txs) : i # j /\ Overlap(txs[i], txs[j]) => Range(txs[i].w) \cap Range(txs[j].w) = {}
EpochsOk(txs) == \A i, j \in Committed(txs) : i # j => txs[i].c # txs[j].c
StartOk(txs) == \A i \in Committed(txs) : txs[i].s < txs[i].c
Init == l = 1
Step == l <= Len(Ev) /\ FCWOk(Ev[l].txs) /\ EpochsOk(Ev[l].txs) /\ StartOk(Ev[l].txs) /\ l' = l + 1
Spec == Init /\ [][Step]_l
Accepted == LET d == TLCGet("stats").diameter IN
            IF d - 1 = Len(Ev) THEN TRUE ELSE PrintT(<<"REJECT", d, ToJson([a |-> "round"])>>) /\ FALSE
=============================================================================
