SPECIFICATION TSpec
CONSTANTS
  Sess = {"s1", "s2", "s3"}
  MaxN = 8
  MaxE = 8
POSTCONDITION Accepted
CHECK_DEADLOCK FALSE
