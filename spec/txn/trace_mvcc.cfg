SPECIFICATION TSpec
CONSTANTS
  Sess = {"s1", "s2", "s3"}
  MaxN = 8
  MaxE = 8
  DevAll = FALSE
  CopyOnly = FALSE
POSTCONDITION Accepted
CHECK_DEADLOCK FALSE
