---------------------------- MODULE Trace_TxManager ----------------------------
(* Trace validation: every event recorded from the real TransactionManager (harness `gv txm`)
   must be explained by the TxManager action of the same name with the same arguments, and every
   logged result / observation must equal what the model predicts. The TxManager invariants
   (FCW, NoFalseRefusal, ...) are evaluated in every state of the validated trace. *)
EXTENDS TxManager, Json, IOUtils
Ev == ndJsonDeserialize(IOEnv.TRACE)
VARIABLE l
tvars == <<vars, l>>

Reset == /\ epoch' = 0 /\ txns' = EmptyF /\ cepoch' = EmptyF /\ started' = {}
         /\ g' = EmptyF /\ pend' = EmptyF /\ last' = [a |-> "init"]

Obs(e) == /\ epoch' = e.obs.epoch
          /\ MinActiveEpoch' = e.obs.minact
          /\ Cardinality(ActiveSet') = e.obs.nact
          /\ \A t \in 1..Len(e.obs.st) : StateOf(t)' = e.obs.st[t]
          /\ \A t \in started' : t <= Len(e.obs.st)

TStep ==
  /\ l <= Len(Ev)
  /\ l' = l + 1
  /\ LET e == Ev[l] IN
     CASE e.a = "reset"    -> Reset
       [] e.a = "begin"    -> BeginSeq(e.t, e.iso) /\ last'.start = e.start /\ Obs(e)
       [] e.a = "recw"     -> RecW(e.t, e.e) /\ last'.r = e.r /\ Obs(e)
       [] e.a = "recr"     -> RecR(e.t, e.e) /\ last'.r = e.r /\ Obs(e)
       [] e.a = "commit"   -> Commit(e.t) /\ last'.r = e.r /\ last'.e = e.epoch /\ Obs(e)
       [] e.a = "abort"    -> Abort(e.t) /\ last'.r = e.r /\ Obs(e)
       [] e.a = "abortall" -> (IF ActiveSet # {} THEN AbortAll ELSE UNCHANGED vars) /\ Obs(e)
       [] e.a = "gc"       -> Gc(FALSE) /\ last'.n = e.n /\ Obs(e)

TInit == Init /\ l = 1
TSpec == TInit /\ [][TStep]_tvars

Accepted ==
  LET d == TLCGet("stats").diameter IN
  IF d - 1 = Len(Ev) THEN TRUE
  ELSE /\ PrintT(<<"REJECT", d, ToJson(Ev[d])>>)
       /\ FALSE
=============================================================================
