SPECIFICATION Spec
CONSTANTS
  Tx = {t1, t2, t3}
  Ent = {x, y}
  MaxOps = 2
  AsIs = {}
  IsoLevels = {"SI", "SER"}
  StopAfterRefusal = TRUE
INVARIANT FCW
INVARIANT NoFalseRefusal
INVARIANT ExactSer
INVARIANT NoMissedRW
INVARIANT NoSpuriousRefusal
INVARIANT GcTransparent
INVARIANT EpochsUnique
INVARIANT DSGFollowsCommitOrder
PROPERTY EpochMonotone
SYMMETRY Sym
VIEW View
CHECK_DEADLOCK FALSE
