------------------------------ MODULE MC_RdfTx ------------------------------
(* All histories of RdfTx.tla for a small universe.  With AsIs = {} Conforms / MStable / MRollback hold;
   every single switch must violate at least one of them (vacuity guard re-run by the check).  In Gen mode
   (`hist`, hidden from the fingerprint by MCView in exhaustive runs) behaviours are printed for replay on
   real sessions. *)
EXTENDS RdfTx, Json, TLC
CONSTANTS Depth, Preds
Pats == {[s |-> 1, p |-> 0, o |-> 0], [s |-> 0, p |-> 1, o |-> 0], [s |-> 0, p |-> 0, o |-> 1], [s |-> 1, p |-> 1, o |-> 0], [s |-> 0, p |-> 0, o |-> 0]}
VARIABLES hist, actor
gvars == <<rvars, hist, actor>>
Act(s, r) == hist' = Append(hist, r) /\ actor' = s
Sets1 == {{t} : t \in Triples} \cup {T \in SUBSET Triples : Cardinality(T) = 2 /\ \E a, b \in T : a # b /\ TS(a) = TS(b)}
GNext ==
  /\ Len(hist) < Depth
  /\ \E s \in Sess :
     \/ Begin(s) /\ Act(s, [a |-> "begin", s |-> s])
     \/ Commit(s) /\ Act(s, [a |-> "commit", s |-> s])
     \/ Rollback(s) /\ Act(s, [a |-> "rollback", s |-> s])
     \/ Rollback(s) /\ Act(s, [a |-> "drop", s |-> s])
     \/ \E T \in Sets1 : InsData(s, T) /\ Act(s, [a |-> "ins", s |-> s, T |-> T])
     \/ \E T \in Sets1 : DelData(s, T) /\ Act(s, [a |-> "del", s |-> s, T |-> T])
     \/ \E p \in Pats : DelWhere(s, p) /\ Act(s, [a |-> "delw", s |-> s, ps |-> p.s, pp |-> p.p, po |-> p.o])
     \/ \E p1, p2 \in Preds : Modify(s, p1, p2) /\ Act(s, [a |-> "mod", s |-> s, p1 |-> p1, p2 |-> p2])
     \/ Clear(s) /\ Act(s, [a |-> "clear", s |-> s])
GInit == Init /\ hist = <<>> /\ actor = CHOOSE s \in Sess : TRUE
GSpec == GInit /\ [][GNext]_gvars
Emit == Len(hist) = Depth => PrintT(<<"REPLAY", ToJson(hist)>>)
MCView == <<rvars, Len(hist)>>

\* Mechanism-side statements of the clauses, independent of the i-side:
\* C01 - a step of another session never changes what a session inside a transaction reads
MStable == [][\A r \in Sess : (r # actor' /\ intx[r] /\ intx'[r]) => MView(r)' = MView(r)]_gvars
\* C01 - a step of a session inside a transaction (other than its commit) is invisible to everybody else
MNoDirty == [][\A r \in Sess : (r # actor' /\ intx[actor'] /\ intx'[actor']) => MView(r)' = MView(r)]_gvars
\* C02 - rollback / drop changes nothing for anybody else, and the shared store is untouched
MRollback == [][(intx[actor'] /\ ~intx'[actor'] /\ hist'[Len(hist')].a \in {"rollback", "drop"}) =>
                  (mstore' = mstore /\ \A r \in Sess \ {actor'} : MView(r)' = MView(r))]_gvars
\* C01 - the writer reads its own writes: after INSERT DATA T inside a transaction T is read, after DELETE DATA it is not
MOwnWrites == [][LET e == hist'[Len(hist')] IN
                   \A s \in Sess : (actor' = s /\ intx[s]) =>
                     /\ (e.a = "ins" => e.T \subseteq MView(s)')
                     /\ (e.a = "del" => e.T \cap MView(s)' = {})]_gvars
=============================================================================
