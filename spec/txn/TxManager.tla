---------------------------- MODULE TxManager ----------------------------
(* Model of grafeo_engine::transaction::TransactionManager (manager.rs).
   One action per public call; `Commit` transcribes the three validation loops of
   TransactionManager::commit literally (first loop over the table, second loop over
   committed_epochs, SSI loops), `Gc` transcribes gc().

   Deviation switches (AsIs \subseteq Switches):
     "RefuseAnyCommitted"     first loop of commit() refuses because of ANY committed transaction
                              still in the table with an intersecting write set, even one that
                              committed before this transaction began        (pinned tree; C03)
     "BeginEpochOutsideLock"  begin_with_isolation() loads current_epoch before taking the table
                              lock, so Gc/Commit can slip between load and insert (pinned tree; C03/C20)
   With AsIs = {} the mechanisms are the repaired ones.

   Ghost state g[t] is relational/canonical (no clocks, no logs):
     cc  = set of transactions that committed while t was live  (lifetime overlap relation)
     ws, rs = everything t ever recorded;  out = last outcome of commit;  se/ce = start / commit epoch
*)
EXTENDS Naturals, FiniteSets, Sequences, TLC
CONSTANTS Tx, Ent, MaxOps, AsIs, IsoLevels, StopAfterRefusal
VARIABLES epoch, txns, cepoch, started, g, pend, last
vars == <<epoch, txns, cepoch, started, g, pend, last>>
mvars == <<epoch, txns, cepoch, started, g, pend>>

Switches == {"RefuseAnyCommitted", "BeginEpochOutsideLock"}
ASSUME AsIs \subseteq Switches

EmptyF == [t \in {} |-> 0]
NewGhost(iso, se) == [cc |-> {}, ws |-> {}, rs |-> {}, out |-> "none", iso |-> iso, live |-> TRUE, se |-> se, ce |-> 0]
NewInfo(iso, st) == [state |-> "active", iso |-> iso, start |-> st, ws |-> {}, rs |-> {}]
Put(f, k, v) == [x \in DOMAIN f \cup {k} |-> IF x = k THEN v ELSE f[x]]
Drop(f, K) == [x \in DOMAIN f \ K |-> f[x]]

Init == /\ epoch = 0 /\ txns = EmptyF /\ cepoch = EmptyF /\ started = {}
        /\ g = EmptyF /\ pend = EmptyF /\ last = [a |-> "init"]

\* ---- begin_with_isolation: atomic (repaired) or split in two steps (as-is, concurrent use only)
Begin(t, iso) ==
  /\ "BeginEpochOutsideLock" \notin AsIs
  /\ t \notin started
  /\ started' = started \cup {t}
  /\ txns' = Put(txns, t, NewInfo(iso, epoch))
  /\ g' = Put(g, t, NewGhost(iso, epoch))
  /\ last' = [a |-> "begin", t |-> t, iso |-> iso, start |-> epoch]
  /\ UNCHANGED <<epoch, cepoch, pend>>
\* sequential begin used by the trace / generator modules: transactions are numbered in begin order
BeginSeq(t, iso) ==
  /\ t \notin started
  /\ \A u \in Tx : u < t => u \in started
  /\ started' = started \cup {t}
  /\ txns' = Put(txns, t, NewInfo(iso, epoch))
  /\ g' = Put(g, t, NewGhost(iso, epoch))
  /\ last' = [a |-> "begin", t |-> t, iso |-> iso, start |-> epoch]
  /\ UNCHANGED <<epoch, cepoch, pend>>
LoadEpoch(t, iso) ==
  /\ "BeginEpochOutsideLock" \in AsIs
  /\ t \notin started
  /\ started' = started \cup {t}
  /\ pend' = Put(pend, t, [iso |-> iso, start |-> epoch])
  /\ g' = Put(g, t, NewGhost(iso, epoch))
  /\ last' = [a |-> "load", t |-> t]
  /\ UNCHANGED <<epoch, cepoch, txns>>
Insert(t) ==
  /\ t \in DOMAIN pend
  /\ txns' = Put(txns, t, NewInfo(pend[t].iso, pend[t].start))
  /\ pend' = Drop(pend, {t})
  /\ last' = [a |-> "begin", t |-> t, iso |-> pend[t].iso, start |-> pend[t].start]
  /\ UNCHANGED <<epoch, cepoch, started, g>>

IsActive(t) == t \in DOMAIN txns /\ txns[t].state = "active"
CanOp(t) == IsActive(t) /\ (StopAfterRefusal => g[t].out = "none")
Budget(t) == Cardinality(txns[t].ws) + Cardinality(txns[t].rs) < MaxOps

\* ---- record_write / record_read : Ok iff the transaction is in the table and active
RecW(t, e) ==
  /\ t \in started
  /\ IF IsActive(t)
     THEN /\ CanOp(t) /\ (e \notin txns[t].ws => Budget(t))
          /\ txns' = [txns EXCEPT ![t].ws = @ \cup {e}]
          /\ g' = [g EXCEPT ![t].ws = @ \cup {e}]
          /\ last' = [a |-> "recw", t |-> t, e |-> e, r |-> "ok"]
     ELSE /\ ~StopAfterRefusal
          /\ UNCHANGED <<txns, g>> /\ last' = [a |-> "recw", t |-> t, e |-> e, r |-> "invalid"]
  /\ UNCHANGED <<epoch, cepoch, started, pend>>
RecR(t, e) ==
  /\ t \in started
  /\ IF IsActive(t)
     THEN /\ CanOp(t) /\ (e \notin txns[t].rs => Budget(t))
          /\ txns' = [txns EXCEPT ![t].rs = @ \cup {e}]
          /\ g' = [g EXCEPT ![t].rs = @ \cup {e}]
          /\ last' = [a |-> "recr", t |-> t, e |-> e, r |-> "ok"]
     ELSE /\ ~StopAfterRefusal
          /\ UNCHANGED <<txns, g>> /\ last' = [a |-> "recr", t |-> t, e |-> e, r |-> "invalid"]
  /\ UNCHANGED <<epoch, cepoch, started, pend>>

\* ---- commit(): validation loops, as functions of the table T and committed_epochs C
WW1(t, T, C) == \E o \in DOMAIN T \ {t} : /\ T[o].state = "committed"
                                         /\ T[o].ws \cap T[t].ws # {}
                                         /\ ("RefuseAnyCommitted" \in AsIs \/ (o \in DOMAIN C /\ C[o] > T[t].start))
WW2(t, T, C) == \E o \in DOMAIN C \ {t} : C[o] > T[t].start /\ o \in DOMAIN T /\ T[o].ws \cap T[t].ws # {}
RW(t, T, C)  == /\ T[t].iso = "SER" /\ T[t].rs # {}
                /\ \E o \in DOMAIN C \ {t} : C[o] > T[t].start /\ o \in DOMAIN T /\ T[o].ws \cap T[t].rs # {}
Outcome(t, T, C) == IF WW1(t, T, C) \/ WW2(t, T, C) THEN "ww" ELSE IF RW(t, T, C) THEN "rw" ELSE "ok"

Commit(t) ==
  /\ t \in started
  /\ IF IsActive(t)
     THEN /\ CanOp(t)
          /\ LET o == Outcome(t, txns, cepoch) IN
             IF o = "ok"
             THEN /\ epoch' = epoch + 1
                  /\ txns' = [txns EXCEPT ![t].state = "committed"]
                  /\ cepoch' = Put(cepoch, t, epoch + 1)
                  /\ g' = [x \in DOMAIN g |->
                             IF x = t THEN [g[x] EXCEPT !.out = "ok", !.live = FALSE, !.ce = epoch + 1]
                             ELSE IF g[x].live THEN [g[x] EXCEPT !.cc = @ \cup {t}] ELSE g[x]]
                  /\ last' = [a |-> "commit", t |-> t, r |-> "ok", e |-> epoch + 1]
             ELSE /\ UNCHANGED <<epoch, txns, cepoch>>
                  /\ g' = [g EXCEPT ![t].out = o]
                  /\ last' = [a |-> "commit", t |-> t, r |-> o, e |-> 0]
     ELSE /\ ~StopAfterRefusal
          /\ UNCHANGED <<epoch, txns, cepoch, g>>
          /\ last' = [a |-> "commit", t |-> t, r |-> "invalid", e |-> 0]
  /\ UNCHANGED <<started, pend>>

Abort(t) ==
  /\ t \in started
  /\ IF IsActive(t)
     THEN /\ txns' = [txns EXCEPT ![t].state = "aborted"]
          /\ g' = [g EXCEPT ![t].live = FALSE]
          /\ last' = [a |-> "abort", t |-> t, r |-> "ok"]
     ELSE /\ ~StopAfterRefusal
          /\ UNCHANGED <<txns, g>> /\ last' = [a |-> "abort", t |-> t, r |-> "invalid"]
  /\ UNCHANGED <<epoch, cepoch, started, pend>>

AbortAll ==
  /\ \E t \in DOMAIN txns : txns[t].state = "active"
  /\ txns' = [t \in DOMAIN txns |-> IF txns[t].state = "active" THEN [txns[t] EXCEPT !.state = "aborted"] ELSE txns[t]]
  /\ g' = [t \in DOMAIN g |-> IF t \in DOMAIN txns /\ txns[t].state = "active" THEN [g[t] EXCEPT !.live = FALSE] ELSE g[t]]
  /\ last' = [a |-> "abortall"]
  /\ UNCHANGED <<epoch, cepoch, started, pend>>

\* ---- gc(): what it removes, as a function (also used by GcTransparent)
GcRemoved(T, C) ==
  LET act == {t \in DOMAIN T : T[t].state = "active"} IN
  {t \in DOMAIN T : \/ T[t].state = "aborted"
                    \/ /\ T[t].state = "committed"
                       /\ IF act = {} THEN TRUE
                          ELSE t \in DOMAIN C /\ \A a \in act : C[t] < T[a].start}
GcOf(T, C) == LET rm == GcRemoved(T, C) IN <<Drop(T, rm), Drop(C, rm)>>
Gc(mustChange) ==
  /\ LET r == GcOf(txns, cepoch) IN
       /\ txns' = r[1] /\ cepoch' = r[2]
       /\ last' = [a |-> "gc", n |-> Cardinality(DOMAIN txns) - Cardinality(DOMAIN r[1])]
  /\ (mustChange => txns' # txns)
  /\ UNCHANGED <<epoch, started, g, pend>>

Next == \/ \E t \in Tx, i \in IsoLevels : Begin(t, i) \/ LoadEpoch(t, i)
        \/ \E t \in Tx : Insert(t)
        \/ \E t \in Tx, e \in Ent : RecW(t, e) \/ RecR(t, e)
        \/ \E t \in Tx : Commit(t) \/ Abort(t)
        \/ AbortAll
        \/ Gc(TRUE)
Spec == Init /\ [][Next]_vars

\* ---- observers (public accessors)
StateOf(t) == IF t \in DOMAIN txns THEN txns[t].state ELSE "none"
ActiveSet == {t \in DOMAIN txns : txns[t].state = "active"}
MinOf(S) == CHOOSE x \in S : \A y \in S : x <= y
MinActiveEpoch == IF ActiveSet = {} THEN epoch ELSE MinOf({txns[t].start : t \in ActiveSet})

\* ---------------------------------------------------------------- properties
Committed == {t \in DOMAIN g : g[t].out = "ok"}
Overlap(a, b) == b \in g[a].cc \/ a \in g[b].cc
\* C03 (1): two committed transactions with overlapping lifetimes have disjoint write sets
FCW == \A a, b \in Committed : a # b /\ b \in g[a].cc => g[a].ws \cap g[b].ws = {}
\* C03 (2): a write-conflict refusal is explained by an overlapping committed writer of a common entity
NoFalseRefusal == \A t \in DOMAIN g : g[t].out = "ww" => \E o \in g[t].cc : g[o].ws \cap g[t].ws # {}
\* C04: a serialization failure is explained by an overlapping committed writer of something t read
ExactSer == \A t \in DOMAIN g : g[t].out = "rw" => (g[t].iso = "SER" /\ \E o \in g[t].cc : g[o].ws \cap g[t].rs # {})
\* C04: no committed Serializable transaction read something an overlapping, earlier-committed transaction wrote
NoMissedRW == \A t \in Committed : g[t].iso = "SER" => \A o \in g[t].cc : g[o].ws \cap g[t].rs = {}
\* C04: a transaction that is neither ww- nor rw-exposed is never refused (read-only / non-overlapping)
NoSpuriousRefusal == \A t \in DOMAIN g : g[t].out \in {"ww", "rw"} => g[t].cc # {}
\* C03 (3): clean-up never changes which commits are accepted
GcTransparent == \A t \in DOMAIN txns : (txns[t].state = "active") =>
   LET r == GcOf(txns, cepoch) IN Outcome(t, txns, cepoch) = Outcome(t, r[1], r[2])
\* C20: commit epochs unique, positive, bounded by the current epoch
EpochsUnique == /\ \A a, b \in DOMAIN cepoch : a # b => cepoch[a] # cepoch[b]
                /\ \A a \in DOMAIN cepoch : cepoch[a] >= 1 /\ cepoch[a] <= epoch
                /\ \A a, b \in Committed : a # b => g[a].ce # g[b].ce
EpochMonotone == [][epoch' >= epoch]_vars
\* C04: direct serialization graph over committed transactions (all-Serializable histories):
\* every dependency edge a -> b follows commit order, hence the graph is acyclic and the
\* committed transactions are equivalent to running them one at a time in commit order.
AllSer == \A t \in DOMAIN g : g[t].iso = "SER"
DepEdge(a, b) == \/ (g[a].ws \cap g[b].ws # {} /\ g[a].ce < g[b].ce)          \* ww
                 \/ (g[a].ws \cap g[b].rs # {} /\ g[a].ce <= g[b].se)         \* wr : b saw a's write
                 \/ (g[a].rs \cap g[b].ws # {} /\ g[b].ce > g[a].se)          \* rw : a did not see b's write
DSGFollowsCommitOrder == AllSer => \A a, b \in Committed : (a # b /\ DepEdge(a, b)) => g[a].ce < g[b].ce

View == mvars
=============================================================================
