SPECIFICATION Spec
CONSTANTS
  NSrc = 3
POSTCONDITION Accepted
CHECK_DEADLOCK FALSE
