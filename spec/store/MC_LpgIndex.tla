---------------------------- MODULE MC_LpgIndex ----------------------------
(* Mechanism model of LpgStore's derived lookup structures (sequential): label index, property
   (hash) indexes per key, maintained incrementally by create / delete / set / remove / add_label /
   remove_label / create_index / drop_index the way store.rs does.  Invariant: each derived
   structure equals its definition from the primary data (live nodes, their labels and values), i.e.
   "a property lookup through an index equals a scan" and "label lookup = live nodes with the label".
   Switch "DeleteKeepsIndexEntries": delete_node drops the values without unindexing (pinned tree). *)
EXTENDS Naturals, FiniteSets, TLC
CONSTANTS N, Vals, AsIs
VARIABLES live, lab, pr, lidx, pidx, indexed
vars == <<live, lab, pr, lidx, pidx, indexed>>
Labels == {"A", "B"}
Init == /\ live = {} /\ lab = [n \in N |-> {}] /\ pr = [n \in N |-> 0]
        /\ lidx = [L \in Labels |-> {}] /\ pidx = [v \in Vals |-> {}] /\ indexed = FALSE
Create(n, L, v) == /\ n \notin live /\ lab[n] = {} /\ pr[n] = 0
                   /\ live' = live \cup {n} /\ lab' = [lab EXCEPT ![n] = L] /\ pr' = [pr EXCEPT ![n] = v]
                   /\ lidx' = [x \in Labels |-> IF x \in L THEN lidx[x] \cup {n} ELSE lidx[x]]
                   /\ pidx' = IF indexed /\ v # 0 THEN [pidx EXCEPT ![v] = @ \cup {n}] ELSE pidx
                   /\ UNCHANGED indexed
Delete(n) == /\ n \in live /\ live' = live \ {n}
             /\ lidx' = [x \in Labels |-> lidx[x] \ {n}] /\ lab' = [lab EXCEPT ![n] = {}]
             /\ pidx' = IF indexed /\ pr[n] # 0 /\ "DeleteKeepsIndexEntries" \notin AsIs THEN [pidx EXCEPT ![pr[n]] = @ \ {n}] ELSE pidx
             /\ pr' = [pr EXCEPT ![n] = 0] /\ UNCHANGED indexed
Set(n, v) == /\ n \in live /\ v # 0
             /\ pidx' = IF indexed THEN [x \in Vals |-> IF x = v THEN pidx[x] \cup {n} ELSE pidx[x] \ {n}] ELSE pidx
             /\ pr' = [pr EXCEPT ![n] = v] /\ UNCHANGED <<live, lab, lidx, indexed>>
Remove(n) == /\ n \in live
             /\ pidx' = IF indexed /\ pr[n] # 0 THEN [pidx EXCEPT ![pr[n]] = @ \ {n}] ELSE pidx
             /\ pr' = [pr EXCEPT ![n] = 0] /\ UNCHANGED <<live, lab, lidx, indexed>>
AddLabel(n, L) == n \in live /\ lab' = [lab EXCEPT ![n] = @ \cup {L}] /\ lidx' = [lidx EXCEPT ![L] = @ \cup {n}] /\ UNCHANGED <<live, pr, pidx, indexed>>
RemLabel(n, L) == n \in live /\ lab' = [lab EXCEPT ![n] = @ \ {L}] /\ lidx' = [lidx EXCEPT ![L] = @ \ {n}] /\ UNCHANGED <<live, pr, pidx, indexed>>
CreateIndex == ~indexed /\ indexed' = TRUE /\ pidx' = [v \in Vals |-> {n \in live : pr[n] = v}] /\ UNCHANGED <<live, lab, pr, lidx>>
DropIndex == indexed /\ indexed' = FALSE /\ pidx' = [v \in Vals |-> {}] /\ UNCHANGED <<live, lab, pr, lidx>>
Next == \/ \E n \in N, L \in SUBSET Labels, v \in Vals \cup {0} : Create(n, L, v)
        \/ \E n \in N : Delete(n) \/ Remove(n)
        \/ \E n \in N, v \in Vals : Set(n, v)
        \/ \E n \in N, L \in Labels : AddLabel(n, L) \/ RemLabel(n, L)
        \/ CreateIndex \/ DropIndex
Spec == Init /\ [][Next]_vars
LabelIndexOk == \A L \in Labels : lidx[L] = {n \in live : L \in lab[n]}
PropIndexOk == indexed => \A v \in Vals : pidx[v] = {n \in live : pr[n] = v}
=============================================================================
