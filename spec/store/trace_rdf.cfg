SPECIFICATION TSpec
CONSTANTS
  S = {1, 2, 3}
  P = {1, 2}
  O = {1, 2, 3}
  TxIds = {1, 2}
  IndexObjects = TRUE
POSTCONDITION Accepted
CHECK_DEADLOCK FALSE
