--------------------------- MODULE Trace_LpgStore ---------------------------
(* After every mutator call on a real LpgStore the harness logs the result and the answers of every
   access path; each must equal the definition from LpgStore.tla's abstract graph.  might_match is an
   implication (a match exists => TRUE). *)
EXTENDS LpgStore, Json, IOUtils
Ev == ndJsonDeserialize(IOEnv.TRACE)
VARIABLE l
tvars == <<vars, l>>
Range(q) == {q[i] : i \in DOMAIN q}
Is(q, X) == Range(q) = X /\ Len(q) = Cardinality(X)
Vals == {1, 2, 3, 9}
VIdx(v) == IF v = 9 THEN 4 ELSE v
Obs(e) ==
  /\ Is(e.obs.la, ByLabel("A")') /\ Is(e.obs.lb, ByLabel("B")')
  /\ Is(e.obs.ids, live') /\ e.obs.nc = Cardinality(live') /\ e.obs.ec = Cardinality(elive')
  /\ Is(e.obs.alln, live') /\ Is(e.obs.alle, elive')
  /\ \A n \in 1..nn' : e.obs.gn[n] = GetNode(n)'
  /\ \A x \in 1..ne' : e.obs.ge[x] = GetEdge(x)'
  /\ \A n \in 1..nn' : /\ Is(e.obs.out[n], Out(n)') /\ Is(e.obs.inn[n], In(n)')
                       /\ e.obs.od[n] = Cardinality(Out(n)') /\ e.obs.idg[n] = Cardinality(In(n)')
                       /\ Is(e.obs.eto[n], In(n)')
  /\ \A k \in Keys : \A v \in Vals :
        /\ Is(e.obs.fp[k][VIdx(v)], {n \in FindByProp(k, v)' : n \in 1..nn'})
        /\ ((\E n \in 1..nn' : HasVal(n, k, v)') => e.obs.mm[k][VIdx(v)])
  /\ \A k \in Keys : Is(e.obs.fr[k], {n \in InRange(k, 1, 2)' : n \in 1..nn'})
  /\ Is(e.obs.ewt, {x \in elive' : etyp'[x] = 1})
  /\ e.obs.ix = [k \in Keys |-> k \in idx']
R(e) == e.r
TStep ==
  /\ l <= Len(Ev)
  /\ l' = l + 1
  /\ LET e == Ev[l] IN
     CASE e.a = "reset" -> /\ nn' = 0 /\ ne' = 0 /\ live' = {} /\ lab' = [n \in Nodes |-> {}] /\ pr' = [n \in Nodes |-> [k \in Keys |-> 0]]
                           /\ elive' = {} /\ esrc' = [x \in Edges |-> 0] /\ edst' = [x \in Edges |-> 0] /\ etyp' = [x \in Edges |-> 0]
                           /\ ew' = [x \in Edges |-> 0] /\ idx' = {}
       [] e.a = "cnode"  -> CreateNode(Range(e.L), e.p1, e.p2) /\ e.id = nn' /\ Obs(e)
       [] e.a = "dnode"  -> DeleteNode(e.n) /\ R(e) = (e.n \in live) /\ Obs(e)
       [] e.a = "setp"   -> SetProp(e.n, e.k, e.v) /\ Obs(e)
       [] e.a = "remp"   -> RemoveProp(e.n, e.k) /\ R(e) = (pr[e.n][e.k] # 0) /\ Obs(e)
       [] e.a = "addl"   -> AddLabel(e.n, e.lb) /\ R(e) = (e.n \in live /\ e.lb \notin lab[e.n]) /\ Obs(e)
       [] e.a = "reml"   -> RemoveLabel(e.n, e.lb) /\ R(e) = (e.n \in live /\ e.lb \in lab[e.n]) /\ Obs(e)
       [] e.a = "cedge"  -> CreateEdge(e.s, e.d, e.t, e.w) /\ e.id = ne' /\ Obs(e)
       [] e.a = "dedge"  -> DeleteEdge(e.e) /\ R(e) = (e.e \in elive) /\ Obs(e)
       [] e.a = "setep"  -> SetEdgeProp(e.e, e.w) /\ Obs(e)
       [] e.a = "cidx"   -> CreateIndex(e.k) /\ Obs(e)
       [] e.a = "didx"   -> DropIndex(e.k) /\ R(e) = (e.k \in idx) /\ Obs(e)
       [] e.a = "stats"  -> Stutter /\ e.tn = Cardinality(live) /\ e.te = Cardinality(elive) /\ Obs(e)
TInit == Init /\ l = 1
TSpec == TInit /\ [][TStep]_tvars
Accepted ==
  LET d == TLCGet("stats").diameter IN
  IF d - 1 = Len(Ev) THEN TRUE
  ELSE PrintT(<<"REJECT", d, ToJson([a |-> Ev[d].a])>>) /\ FALSE
=============================================================================
