----------------------------- MODULE PropColumn -----------------------------
(* Property columns with a hot buffer and a compressed part (graph/lpg/property.rs PropertyStorage /
   PropertyColumn) refine a map (id, key) -> value (C15: "turning compression of property columns on or
   off never changes what a property read returns").  Compress / ForceCompress are stuttering steps of
   the abstract map.  Values are coded integers (0 = absent).

   Known deviation "CompressedColumnUnreadable": PropertyColumn::get never consults the compressed part,
   so an entry that was moved there reads as absent until it is set again.  The trace spec accepts
   "absent" for entries that a compress call may have moved (hid), and nothing else. *)
EXTENDS Naturals, FiniteSets, Sequences, TLC, Json, IOUtils
CONSTANTS NIds, Keys
Ev == ndJsonDeserialize(IOEnv.TRACE)
VARIABLES m, hid, l, dev
vars == <<m, hid, l, dev>>
Ids == 1..NIds
Present(k) == {i \in Ids : m[i][k] # 0}
Obs(e) ==
  /\ \A i \in Ids : \A k \in Keys :
        LET got == e.obs.get[i][k] IN
        IF got = m'[i][k] THEN TRUE ELSE (got = 0 /\ i \in hid'[k])
  /\ \A i \in Ids : \A k \in Keys : e.obs.all[i][k] = e.obs.get[i][k]              \* get_all agrees with get
  /\ \A k \in Keys : \A v \in 1..9 : ((\E i \in Ids : m'[i][k] = v /\ i \notin hid'[k]) => e.obs.mm[k][v])  \* pruning never denies a readable match
  /\ dev' = (dev \/ \E i \in Ids, k \in Keys : e.obs.get[i][k] # m'[i][k])
Step ==
  /\ l <= Len(Ev) /\ l' = l + 1
  /\ LET e == Ev[l] IN
     CASE e.a = "reset" -> m' = [i \in Ids |-> [k \in Keys |-> 0]] /\ hid' = [k \in Keys |-> {}] /\ dev' = FALSE
       [] e.a = "set" -> m' = [m EXCEPT ![e.i][e.k] = e.v] /\ hid' = [hid EXCEPT ![e.k] = @ \ {e.i}] /\ Obs(e)
       [] e.a = "remove" -> m' = [m EXCEPT ![e.i][e.k] = 0] /\ hid' = hid /\ Obs(e)
                            /\ (e.r = (m[e.i][e.k] # 0) \/ e.i \in hid[e.k])
       [] e.a = "remove_all" -> m' = [m EXCEPT ![e.i] = [k \in Keys |-> 0]] /\ hid' = hid /\ Obs(e)
       [] e.a = "compress" -> m' = m /\ hid' = (IF e.mode = "None" THEN hid ELSE [k \in Keys |-> hid[k] \cup Present(k)]) /\ Obs(e)
       [] e.a = "force_compress" -> m' = m /\ hid' = [k \in Keys |-> hid[k] \cup Present(k)] /\ Obs(e)
Init == m = [i \in Ids |-> [k \in Keys |-> 0]] /\ hid = [k \in Keys |-> {}] /\ l = 1 /\ dev = FALSE
Spec == Init /\ [][Step]_vars
Accepted == LET d == TLCGet("stats").diameter IN
            IF d - 1 = Len(Ev) THEN TRUE ELSE PrintT(<<"REJECT", d, ToJson([a |-> Ev[d].a])>>) /\ FALSE
\* reported (not an error): some read deviated from the map because of the compressed part
NoDeviation == ~dev
=============================================================================
