----------------------------- MODULE RdfStore -----------------------------
(* The triple store as a set (C13, store part) — grafeo_core::graph::rdf::RdfStore.
   State: `set` (the triples) and the per-transaction buffers of pending operations.
   Every lookup the store offers is DEFINED from `set`: find for the eight bound/unbound shapes,
   triples_with_subject/predicate/object, subjects/predicates/objects, len, contains, stats.
   Triples are <<s, p, o>> over small term indices; the harness maps indices to IRIs, blank nodes,
   plain / language-tagged / typed literals.  0 in a pattern = unbound. *)
EXTENDS Naturals, Sequences, FiniteSets, TLC
CONSTANTS S, P, O, TxIds, IndexObjects
VARIABLES set, buf
vars == <<set, buf>>
Univ == S \X P \X O
Init == set = {} /\ buf = [t \in TxIds |-> <<>>]

Matches(pat, t) == (pat[1] = 0 \/ pat[1] = t[1]) /\ (pat[2] = 0 \/ pat[2] = t[2]) /\ (pat[3] = 0 \/ pat[3] = t[3])
Find(X, pat) == {t \in X : Matches(pat, t)}
Subjects(X) == {t[1] : t \in X}
Predicates(X) == {t[2] : t \in X}
Objects(X) == {t[3] : t \in X}
Stats(X) == <<Cardinality(X), Cardinality(Subjects(X)), Cardinality(Predicates(X)),
              IF IndexObjects THEN Cardinality(Objects(X)) ELSE 0>>

Insert(t) == set' = set \cup {t} /\ UNCHANGED buf          \* returns t \notin set
Remove(t) == set' = set \ {t} /\ UNCHANGED buf             \* returns t \in set
Clear == set' = {} /\ UNCHANGED buf

\* transactional buffer: insert_in_tx / remove_in_tx / commit_tx / rollback_tx
InsertTx(x, t) == buf' = [buf EXCEPT ![x] = Append(@, <<"ins", t>>)] /\ UNCHANGED set
RemoveTx(x, t) == buf' = [buf EXCEPT ![x] = Append(@, <<"del", t>>)] /\ UNCHANGED set
RECURSIVE ApplyOps(_, _)
ApplyOps(X, ops) == IF ops = <<>> THEN X
                    ELSE ApplyOps(IF Head(ops)[1] = "ins" THEN X \cup {Head(ops)[2]} ELSE X \ {Head(ops)[2]}, Tail(ops))
CommitTx(x) == set' = ApplyOps(set, buf[x]) /\ buf' = [buf EXCEPT ![x] = <<>>]      \* returns Len(buf[x])
RollbackTx(x) == buf' = [buf EXCEPT ![x] = <<>>] /\ UNCHANGED set
\* read-your-writes: what transaction x must see for a pattern = the set with its own operations applied in order
FindWithPending(x, pat) == Find(ApplyOps(set, buf[x]), pat)

Next == \/ \E t \in Univ : Insert(t) \/ Remove(t)
        \/ Clear
        \/ \E x \in TxIds, t \in Univ : InsertTx(x, t) \/ RemoveTx(x, t)
        \/ \E x \in TxIds : CommitTx(x) \/ RollbackTx(x)
Spec == Init /\ [][Next]_vars
TypeOK == set \subseteq Univ
=============================================================================
