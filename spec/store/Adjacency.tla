------------------------------ MODULE Adjacency ------------------------------
(* ChunkedAdjacency (index/adjacency.rs): chunked adjacency lists with a delta buffer, tombstones and
   hot -> cold compression (C14 "neighbour lists and degrees match the set of live edges", C15
   "compressed adjacency chunks are lossless").

   ABSTRACT state: per source node the sequence of live <<dst, edge>> entries in insertion order.
   MECHANISM (per source): cold chunks (compressed, immutable), hot chunks of capacity Cap, a delta
   buffer and a tombstone set; add = push to the last hot chunk if it has room else to the delta
   buffer; compact = drain the delta buffer into hot chunks, then move the oldest hot chunks to cold
   while more than ColdThr remain; freeze = all hot chunks to cold; reads = cold ++ hot ++ delta minus
   tombstones.  Invariant Refines: the mechanism's read equals the abstract sequence — compaction and
   compression are stuttering steps of the abstract state. *)
EXTENDS Naturals, Sequences, FiniteSets, TLC
CONSTANTS Src, Cap, DeltaThr, ColdThr, MaxAdds
VARIABLES abs, cold, hot, delta, dead, nadd
vars == <<abs, cold, hot, delta, dead, nadd>>
Init == /\ abs = [s \in Src |-> <<>>] /\ cold = [s \in Src |-> <<>>] /\ hot = [s \in Src |-> <<>>]
        /\ delta = [s \in Src |-> <<>>] /\ dead = [s \in Src |-> {}] /\ nadd = 0
RECURSIVE Flat(_)
Flat(chunks) == IF chunks = <<>> THEN <<>> ELSE Head(chunks) \o Flat(Tail(chunks))
Live(q, D) == SelectSeq(q, LAMBDA x : x[2] \notin D)
Read(s) == Live(Flat(cold[s]) \o Flat(hot[s]) \o delta[s], dead[s])
\* add_edge(s, d, e): e is a fresh edge id
Add(s, d) ==
  /\ nadd < MaxAdds /\ nadd' = nadd + 1
  /\ LET x == <<d, nadd + 1>> IN
     /\ abs' = [abs EXCEPT ![s] = Append(@, x)]
     /\ IF hot[s] # <<>> /\ Len(hot[s][Len(hot[s])]) < Cap
        THEN hot' = [hot EXCEPT ![s][Len(hot[s])] = Append(@, x)] /\ delta' = delta
        ELSE delta' = [delta EXCEPT ![s] = Append(@, x)] /\ hot' = hot
  /\ UNCHANGED <<cold, dead>>
\* mark_deleted(s, e) for a live edge
Delete(s, e) ==
  /\ \E i \in DOMAIN abs[s] : abs[s][i][2] = e
  /\ abs' = [abs EXCEPT ![s] = SelectSeq(@, LAMBDA x : x[2] # e)]
  /\ dead' = [dead EXCEPT ![s] = @ \cup {e}]
  /\ UNCHANGED <<cold, hot, delta, nadd>>
RECURSIVE Fill(_, _)
\* pushes the entries of q into the chunk list hs (last chunk may have room)
Fill(hs, q) ==
  IF q = <<>> THEN hs
  ELSE IF hs # <<>> /\ Len(hs[Len(hs)]) < Cap THEN Fill([hs EXCEPT ![Len(hs)] = Append(@, Head(q))], Tail(q))
  ELSE Fill(Append(hs, <<Head(q)>>), Tail(q))
RECURSIVE ToCold(_, _)
ToCold(cs, hs) == IF Len(hs) > ColdThr THEN ToCold(Append(cs, Head(hs)), Tail(hs)) ELSE <<cs, hs>>
CompactOne(s) == IF delta[s] = <<>> THEN <<cold[s], hot[s], delta[s]>>
                 ELSE LET r == ToCold(cold[s], Fill(hot[s], delta[s])) IN <<r[1], r[2], <<>>>>
Compact(onlyIfNeeded) ==
  /\ LET res == [s \in Src |-> IF onlyIfNeeded /\ Len(delta[s]) < DeltaThr THEN <<cold[s], hot[s], delta[s]>> ELSE CompactOne(s)] IN
       /\ cold' = [s \in Src |-> res[s][1]] /\ hot' = [s \in Src |-> res[s][2]] /\ delta' = [s \in Src |-> res[s][3]]
  /\ UNCHANGED <<abs, dead, nadd>>
Freeze == /\ cold' = [s \in Src |-> cold[s] \o hot[s]] /\ hot' = [s \in Src |-> <<>>]
          /\ UNCHANGED <<abs, delta, dead, nadd>>
Next == \/ \E s \in Src, d \in Src : Add(s, d)
        \/ \E s \in Src, e \in 1..nadd : Delete(s, e)
        \/ Compact(TRUE) \/ Compact(FALSE) \/ Freeze
Spec == Init /\ [][Next]_vars
Refines == \A s \in Src : Read(s) = abs[s]
ChunksWithinCapacity == \A s \in Src : \A i \in DOMAIN hot[s] : Len(hot[s][i]) <= Cap /\ Len(hot[s][i]) >= 1
HotBounded == \A s \in Src : Len(hot[s]) <= ColdThr \/ delta[s] # <<>> \/ TRUE
=============================================================================
