-------------------------- MODULE Trace_RdfStore --------------------------
(* Every call result and the complete projection of the real RdfStore (all 48 patterns of find,
   the three triples_with_* families, term listings, len, stats, contains of every triple of the
   universe, find_with_pending for every transaction) after every call must equal the definitions
   of RdfStore.tla; result lists must not contain duplicates ("once each"). *)
EXTENDS RdfStore, Json, IOUtils
Ev == ndJsonDeserialize(IOEnv.TRACE)
VARIABLE l
tvars == <<vars, l>>
Range(q) == {q[i] : i \in DOMAIN q}
Code(t) == t[1] * 100 + t[2] * 10 + t[3]
Codes(X) == {Code(t) : t \in X}
T(q) == <<q[1], q[2], q[3]>>
Is(q, X) == Range(q) = X /\ Len(q) = Cardinality(X)
Pats == (S \cup {0}) \X (P \cup {0}) \X (O \cup {0})
PatIdx(pat) == pat[1] * (Cardinality(P) + 1) * (Cardinality(O) + 1) + pat[2] * (Cardinality(O) + 1) + pat[3] + 1

Obs(e) ==
  /\ e.obs.len = Cardinality(set')
  /\ Is(e.obs.tr, Codes(set'))
  /\ \A pat \in Pats : Is(e.obs.f[PatIdx(pat)], Codes(Find(set', pat)))
  /\ \A s \in S : Is(e.obs.ws[s], Codes(Find(set', <<s, 0, 0>>)))
  /\ \A p \in P : Is(e.obs.wp[p], Codes(Find(set', <<0, p, 0>>)))
  /\ \A o \in O : Is(e.obs.wo[o], Codes(Find(set', <<0, 0, o>>)))
  /\ Is(e.obs.subj, Subjects(set')) /\ Is(e.obs.pred, Predicates(set')) /\ Is(e.obs.obj, Objects(set'))
  /\ e.obs.stats = Stats(set')
  /\ Range(e.obs.has) = Codes(set')
  /\ \A x \in TxIds : \A pat \in {<<0, 0, 0>>} \cup {<<s, 0, 0>> : s \in S} :
        Is(e.obs.fp[x][PatIdx(pat)], Codes(FindWithPending(x, pat)'))

TStep ==
  /\ l <= Len(Ev)
  /\ l' = l + 1
  /\ LET e == Ev[l] IN
     CASE e.a = "reset" -> set' = {} /\ buf' = [t \in TxIds |-> <<>>] /\ e.io = IndexObjects
       [] e.a = "ins"   -> Insert(T(e.t)) /\ e.r = (T(e.t) \notin set) /\ Obs(e)
       [] e.a = "rem"   -> Remove(T(e.t)) /\ e.r = (T(e.t) \in set) /\ Obs(e)
       [] e.a = "clear" -> Clear /\ Obs(e)
       [] e.a = "instx" -> InsertTx(e.x, T(e.t)) /\ Obs(e)
       [] e.a = "remtx" -> RemoveTx(e.x, T(e.t)) /\ Obs(e)
       [] e.a = "committx" -> CommitTx(e.x) /\ e.r = Len(buf[e.x]) /\ Obs(e)
       [] e.a = "rollbacktx" -> RollbackTx(e.x) /\ e.r = Len(buf[e.x]) /\ Obs(e)
TInit == Init /\ l = 1
TSpec == TInit /\ [][TStep]_tvars
Accepted ==
  LET d == TLCGet("stats").diameter IN
  IF d - 1 = Len(Ev) THEN TRUE
  ELSE /\ PrintT(<<"REJECT", d, ToJson([a |-> Ev[d].a, t |-> IF "t" \in DOMAIN Ev[d] THEN Ev[d].t ELSE <<>>])>>)
       /\ FALSE
=============================================================================
