---------------------------- MODULE Trace_Sparql ----------------------------
(* Trace validation for the SPARQL half of C13: the data set D follows the logged INSERT DATA / DELETE DATA / DELETE WHERE /
   DELETE-INSERT-WHERE / CLEAR events (SparqlSem!Update); every logged query result is judged by SparqlSem!Agrees.  Failures are printed as <<"MISMATCH", line, what>>. *)
EXTENDS SparqlSem, Json, IOUtils
Ev == ndJsonDeserialize(IOEnv.TRACE)
VARIABLES l, D
TripleSet(ts) == {<<ts[i][1], ts[i][2], ts[i][3]>> : i \in DOMAIN ts}
\* an update over a WHERE group with VALUES: the translator drops VALUES blocks (known finding, SparqlSem!StripValues), so the
\* engine may apply the update of the stripped group; the dump that follows every pattern update tells which one it applied
StripU(u) == [u EXCEPT !.where = StripG(@)]
NextDump(i) == IF i < Len(Ev) /\ Ev[i + 1].a = "dump" /\ ~Ev[i + 1].err /\ ~Ev[i + 1].panic THEN TripleSet(Ev[i + 1].rows) ELSE {<<0, 0, 0>>}
AsStripped(e, i) == /\ HasValuesG(e.u.where) /\ Update(D, e.u) # Update(D, StripU(e.u))
                    /\ NextDump(i) = Update(D, StripU(e.u))
Bad(e) == IF e.panic THEN {"panic"}
          ELSE CASE e.a = "reset" -> {}
                 [] e.a = "update" -> IF e.err THEN {"update_error"} ELSE IF AsStripped(e, l) THEN {"values_ignored"} ELSE {}
                 [] e.a \in {"insert", "delete", "delwhere", "clear"} -> IF e.err THEN {"update_error"} ELSE {}
                 [] e.a = "query" -> IF e.err THEN {"query_error"} ELSE IF Agrees(D, e.q, e.rows) THEN {}
                                      ELSE IF HasValuesG(e.q.where) /\ Agrees(D, StripValues(e.q), e.rows) THEN {"values_ignored"} ELSE {"solutions"}
                 \* the whole data set read back through SELECT * must be D (after updates)
                 [] e.a = "dump" -> IF e.err THEN {"query_error"} ELSE IF TripleSet(e.rows) = D /\ Len(e.rows) = Cardinality(D) THEN {} ELSE {"data_set"}
Init == l = 1 /\ D = {}
Step == /\ l <= Len(Ev)
        /\ LET e == Ev[l] IN
             /\ (LET b == Bad(e) IN IF b = {} THEN TRUE ELSE PrintT(<<"MISMATCH", l, b>>) /\ (IF "data_set" \in b THEN PrintT(<<"EXPECTED", l, D>>) ELSE TRUE))
             /\ D' = (CASE e.a = "reset" -> {}
                        [] e.a = "insert" -> D \cup TripleSet(e.ts)
                        [] e.a = "delete" -> D \ TripleSet(e.ts)
                        [] e.a = "update" -> IF e.err \/ e.panic THEN D ELSE IF AsStripped(e, l) THEN Update(D, StripU(e.u)) ELSE Update(D, e.u)
                        [] e.a = "delwhere" -> IF e.err \/ e.panic THEN D ELSE DeleteWhere(D, e.tps)
                        [] e.a = "clear" -> IF e.err \/ e.panic THEN D ELSE {}
                        \* a dump that disagrees is reported once; the model continues from what the engine holds, so
                        \* that one wrong update does not turn every later answer into a mismatch
                        [] e.a = "dump" -> IF e.err \/ e.panic THEN D ELSE TripleSet(e.rows)
                        [] OTHER -> D)
        /\ l' = l + 1
Spec == Init /\ [][Step]_<<l, D>>
=============================================================================
