------------------------------ MODULE LpgStore ------------------------------
(* "Every access path to the property graph tells the same story" (C14) — grafeo_core LpgStore
   through its non-transactional API.  Abstract state: the graph (nodes with labels and two property
   keys, edges with endpoints, type and one property) plus the set of indexed keys.  Every accessor is
   DEFINED from that graph; index / zone-map / statistics state has no influence on any answer.
   Values are coded: 0 = absent, 1, 2, 3 = integers, 9 = the string "a".
   delete_node does not cascade (documented): incident edges stay and still show in adjacency. *)
EXTENDS Naturals, Sequences, FiniteSets, TLC
CONSTANTS MaxN, MaxE
VARIABLES nn, ne, live, lab, pr, elive, esrc, edst, etyp, ew, idx
vars == <<nn, ne, live, lab, pr, elive, esrc, edst, etyp, ew, idx>>
Nodes == 1..MaxN
Edges == 1..MaxE
Keys == {1, 2}
Labels == {"A", "B"}
Init == /\ nn = 0 /\ ne = 0 /\ live = {} /\ lab = [n \in Nodes |-> {}] /\ pr = [n \in Nodes |-> [k \in Keys |-> 0]]
        /\ elive = {} /\ esrc = [e \in Edges |-> 0] /\ edst = [e \in Edges |-> 0] /\ etyp = [e \in Edges |-> 0]
        /\ ew = [e \in Edges |-> 0] /\ idx = {}

CreateNode(L, p1, p2) == /\ nn < MaxN /\ nn' = nn + 1 /\ live' = live \cup {nn + 1}
                         /\ lab' = [lab EXCEPT ![nn + 1] = L] /\ pr' = [pr EXCEPT ![nn + 1] = [k \in Keys |-> IF k = 1 THEN p1 ELSE p2]]
                         /\ UNCHANGED <<ne, elive, esrc, edst, etyp, ew, idx>>
DeleteNode(n) == /\ live' = live \ {n} /\ (IF n \in live THEN lab' = [lab EXCEPT ![n] = {}] /\ pr' = [pr EXCEPT ![n] = [k \in Keys |-> 0]] ELSE UNCHANGED <<lab, pr>>)
                 /\ UNCHANGED <<nn, ne, elive, esrc, edst, etyp, ew, idx>>          \* returns n \in live
SetProp(n, k, v) == /\ pr' = [pr EXCEPT ![n][k] = v]      \* set_node_property does not check liveness
                    /\ UNCHANGED <<nn, ne, live, lab, elive, esrc, edst, etyp, ew, idx>>
RemoveProp(n, k) == SetProp(n, k, 0)
AddLabel(n, L) == /\ lab' = IF n \in live THEN [lab EXCEPT ![n] = @ \cup {L}] ELSE lab     \* returns n \in live /\ L \notin lab[n]
                  /\ UNCHANGED <<nn, ne, live, pr, elive, esrc, edst, etyp, ew, idx>>
RemoveLabel(n, L) == /\ lab' = IF n \in live THEN [lab EXCEPT ![n] = @ \ {L}] ELSE lab     \* returns n \in live /\ L \in lab[n]
                     /\ UNCHANGED <<nn, ne, live, pr, elive, esrc, edst, etyp, ew, idx>>
CreateEdge(a, b, t, w) == /\ ne < MaxE /\ ne' = ne + 1 /\ elive' = elive \cup {ne + 1}
                          /\ esrc' = [esrc EXCEPT ![ne + 1] = a] /\ edst' = [edst EXCEPT ![ne + 1] = b]
                          /\ etyp' = [etyp EXCEPT ![ne + 1] = t] /\ ew' = [ew EXCEPT ![ne + 1] = w]
                          /\ UNCHANGED <<nn, live, lab, pr, idx>>
DeleteEdge(e) == /\ elive' = elive \ {e} /\ ew' = IF e \in elive THEN [ew EXCEPT ![e] = 0] ELSE ew
                 /\ UNCHANGED <<nn, ne, live, lab, pr, esrc, edst, etyp, idx>>       \* returns e \in elive
SetEdgeProp(e, w) == ew' = [ew EXCEPT ![e] = w] /\ UNCHANGED <<nn, ne, live, lab, pr, elive, esrc, edst, etyp, idx>>
CreateIndex(k) == idx' = idx \cup {k} /\ UNCHANGED <<nn, ne, live, lab, pr, elive, esrc, edst, etyp, ew>>
DropIndex(k) == idx' = idx \ {k} /\ UNCHANGED <<nn, ne, live, lab, pr, elive, esrc, edst, etyp, ew>>   \* returns k \in idx
Stutter == UNCHANGED vars                       \* compute_statistics, rebuild_zone_maps

\* ---- accessors, all defined from the graph
ByLabel(L) == {n \in live : L \in lab[n]}
Out(n) == {<<edst[e], e>> : e \in {x \in elive : esrc[x] = n}}
In(n) == {<<esrc[e], e>> : e \in {x \in elive : edst[x] = n}}
\* property tables are keyed by id and not tied to liveness: a value set on a deleted / never-created id exists
HasVal(n, k, v) == pr[n][k] = v
FindByProp(k, v) == {n \in 1..MaxN : pr[n][k] = v /\ v # 0}
IntVal(v) == v \in {1, 2, 3}
InRange(k, lo, hi) == {n \in 1..MaxN : IntVal(pr[n][k]) /\ pr[n][k] >= lo /\ pr[n][k] <= hi}
LabCode(L) == (IF "A" \in L THEN 1 ELSE 0) + (IF "B" \in L THEN 2 ELSE 0)
GetNode(n) == IF n \in live THEN <<1, LabCode(lab[n]), pr[n][1], pr[n][2]>> ELSE <<0, 0, 0, 0>>
GetEdge(e) == IF e \in elive THEN <<1, esrc[e], edst[e], etyp[e], ew[e]>> ELSE <<0, 0, 0, 0, 0>>
=============================================================================
