SPECIFICATION TSpec
CONSTANTS
  MaxN = 8
  MaxE = 12
POSTCONDITION Accepted
CHECK_DEADLOCK FALSE
