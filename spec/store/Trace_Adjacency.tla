-------------------------- MODULE Trace_Adjacency --------------------------
(* Real ChunkedAdjacency histories (add_edge, mark_deleted, compact, compact_if_needed, freeze_all,
   clear) validated against the ABSTRACT part of Adjacency.tla: after every call, for every source,
   edges_from / neighbors / out_degree must be exactly the live entries (as a bag), and the counters
   must equal the number of entries enumerated. *)
EXTENDS Naturals, Sequences, FiniteSets, TLC, Json, IOUtils
CONSTANT NSrc
Ev == ndJsonDeserialize(IOEnv.TRACE)
VARIABLES abs, l
vars == <<abs, l>>
Rng(q) == {q[i] : i \in DOMAIN q}
Bag(q) == [r \in Rng(q) |-> Cardinality({i \in DOMAIN q : q[i] = r})]
Srcs == 1..NSrc
RECURSIVE SumLen(_)
SumLen(S) == IF S = {} THEN 0 ELSE LET s == CHOOSE s \in S : TRUE IN Len(abs'[s]) + SumLen(S \ {s})
Obs(e) == /\ \A s \in Srcs : /\ Bag(e.obs.ef[s]) = Bag(abs'[s])
                            /\ Bag(e.obs.nb[s]) = Bag([i \in DOMAIN abs'[s] |-> abs'[s][i][1]])
                            /\ e.obs.deg[s] = Len(abs'[s])
          /\ e.obs.active = SumLen(Srcs)
Step ==
  /\ l <= Len(Ev) /\ l' = l + 1
  /\ LET e == Ev[l] IN
     CASE e.a = "reset" -> abs' = [s \in Srcs |-> <<>>]
       [] e.a = "add"   -> abs' = [abs EXCEPT ![e.s] = Append(@, <<e.d, e.e>>)] /\ Obs(e)
       [] e.a = "del"   -> abs' = [abs EXCEPT ![e.s] = SelectSeq(@, LAMBDA x : x[2] # e.e)] /\ Obs(e)
       [] e.a \in {"compact", "compact_if_needed", "freeze"} -> abs' = abs /\ Obs(e)
       [] e.a = "clear" -> abs' = [s \in Srcs |-> <<>>] /\ Obs(e)
Init == abs = [s \in Srcs |-> <<>>] /\ l = 1
Spec == Init /\ [][Step]_vars
Accepted == LET d == TLCGet("stats").diameter IN
            IF d - 1 = Len(Ev) THEN TRUE ELSE PrintT(<<"REJECT", d, ToJson([a |-> Ev[d].a])>>) /\ FALSE
=============================================================================
