----------------------------- MODULE SparqlSem -----------------------------
(* C13, second half: a SPARQL query returns exactly the solutions that evaluating it over the triple set yields.
   Executable definition of the SPARQL algebra (W3C SPARQL 1.1 Query, section 18) for the core the property lists -
   basic graph patterns, joins on shared variables, FILTER, OPTIONAL, UNION, projection, DISTINCT, ORDER BY, LIMIT, COUNT( * ) -
   plus INSERT DATA / DELETE DATA, DELETE WHERE, DELETE-INSERT-WHERE and CLEAR as the transitions of the data set.  TLC evaluates it for every recorded
   (data set, query) and compares with the rows the engine returned (bags; sets under DISTINCT).

   Terms are small integers (the harness maps them to IRIs / plain strings / integers and back):
       1..9 subject / object IRIs, 11..19 predicate IRIs, 21..29 plain string literals, 31..39 integers (value id - 30).
   A solution mapping is a function from a set of variable names to terms.  A multiset of mappings is a sequence.
   A group is a sequence of elements:
       [k |-> "tp", s, p, o]   each of s, p, o is [v |-> name] or [c |-> term]
       [k |-> "filter", e |-> expr]        applies to the whole group (18.2.2.2)
       [k |-> "opt", g |-> group]          LeftJoin with the group so far; a filter directly inside g is the join condition
       [k |-> "union", a |-> group, b |-> group]
   expr: [f |-> "eq"|"ne"|"lt"|"gt", v |-> name, c |-> term] | [f |-> "bound"|"nbound", v |-> name]
         | [f |-> "and"|"or", a |-> expr, b |-> expr] | [f |-> "not", a |-> expr]                                *)
EXTENDS Naturals, Integers, Sequences, FiniteSets, TLC
Rng(s) == {s[i] : i \in DOMAIN s}
IsVar(t) == "v" \in DOMAIN t
Empty == [x \in {} |-> 0]
Compatible(a, b) == \A x \in DOMAIN a \cap DOMAIN b : a[x] = b[x]
Merge(a, b) == [x \in DOMAIN a \cup DOMAIN b |-> IF x \in DOMAIN a THEN a[x] ELSE b[x]]
RECURSIVE FlatSeq(_, _)
FlatSeq(ss, i) == IF i > Len(ss) THEN <<>> ELSE ss[i] \o FlatSeq(ss, i + 1)
SetSeq(S) == LET RECURSIVE F(_) F(T) == IF T = {} THEN <<>> ELSE LET x == CHOOSE x \in T : TRUE IN <<x>> \o F(T \ {x}) IN F(S)
\* ---- matching one triple pattern against the data set D (a set of <<s, p, o>>)
VarsOf(tp) == {t.v : t \in {x \in {tp.s, tp.p, tp.o} : IsVar(x)}}
Binds(tp, tr, m) ==      \* m is the mapping the triple tr gives to the pattern tp
  /\ DOMAIN m = VarsOf(tp)
  /\ (IF IsVar(tp.s) THEN m[tp.s.v] = tr[1] ELSE tp.s.c = tr[1])
  /\ (IF IsVar(tp.p) THEN m[tp.p.v] = tr[2] ELSE tp.p.c = tr[2])
  /\ (IF IsVar(tp.o) THEN m[tp.o.v] = tr[3] ELSE tp.o.c = tr[3])
MatchTP(D, tp) ==        \* a set of mappings (D is a set, so each mapping once)
  { m \in UNION {[VarsOf(tp) -> {tr[1], tr[2], tr[3]}] : tr \in D} : \E tr \in D : Binds(tp, tr, m) }
Join(A, B) == FlatSeq([i \in DOMAIN A |-> LET ms == SelectSeq(B, LAMBDA b : Compatible(A[i], b)) IN [j \in DOMAIN ms |-> Merge(A[i], ms[j])]], 1)
\* ---- filters: an error (unbound variable, comparison of non-numbers with < >) is false
\* three-valued evaluation (SPARQL 17.2): "t", "f" or "e" (error: unbound variable, ordering of non-numbers).
\* A || B is true if either is true, an error if neither is true and one is an error; A && B dually; !error = error.
RECURSIVE Ev3(_, _)
Atom3(e, m) ==
  CASE e.f = "bound" -> IF e.v \in DOMAIN m THEN "t" ELSE "f"
    [] e.f = "nbound" -> IF e.v \notin DOMAIN m THEN "t" ELSE "f"
    [] e.f \in {"eq", "ne"} -> IF e.v \notin DOMAIN m THEN "e" ELSE IF (m[e.v] = e.c) = (e.f = "eq") THEN "t" ELSE "f"
    [] e.f \in {"in", "nin"} -> IF e.v \notin DOMAIN m THEN "e" ELSE IF (m[e.v] \in Rng(e.cs)) = (e.f = "in") THEN "t" ELSE "f"
    [] e.f \in {"lt", "gt"} -> IF e.v \notin DOMAIN m \/ m[e.v] \notin 31..39 \/ e.c \notin 31..39 THEN "e"
                               ELSE IF (IF e.f = "lt" THEN m[e.v] < e.c ELSE m[e.v] > e.c) THEN "t" ELSE "f"
Ev3(e, m) ==
  CASE e.f = "or" -> LET a == Ev3(e.a, m)  b == Ev3(e.b, m) IN IF a = "t" \/ b = "t" THEN "t" ELSE IF a = "e" \/ b = "e" THEN "e" ELSE "f"
    [] e.f = "and" -> LET a == Ev3(e.a, m)  b == Ev3(e.b, m) IN IF a = "f" \/ b = "f" THEN "f" ELSE IF a = "e" \/ b = "e" THEN "e" ELSE "t"
    [] e.f = "not" -> LET a == Ev3(e.a, m) IN IF a = "t" THEN "f" ELSE IF a = "f" THEN "t" ELSE "e"
    [] OTHER -> Atom3(e, m)
HoldsOld(e, m) ==
  CASE e.f = "bound" -> e.v \in DOMAIN m
    [] e.f = "nbound" -> e.v \notin DOMAIN m
    [] e.f = "eq" -> e.v \in DOMAIN m /\ m[e.v] = e.c
    [] e.f = "ne" -> e.v \in DOMAIN m /\ m[e.v] # e.c
    [] e.f = "lt" -> e.v \in DOMAIN m /\ m[e.v] \in 31..39 /\ e.c \in 31..39 /\ m[e.v] < e.c
    [] e.f = "gt" -> e.v \in DOMAIN m /\ m[e.v] \in 31..39 /\ e.c \in 31..39 /\ m[e.v] > e.c
AllHold(fs, m) == \A i \in DOMAIN fs : Ev3(fs[i], m) = "t"
LeftJoin(A, B, fs) ==
  FlatSeq([i \in DOMAIN A |->
             LET ms == SelectSeq(B, LAMBDA b : Compatible(A[i], b) /\ AllHold(fs, Merge(A[i], b)))
             IN IF ms = <<>> THEN <<A[i]>> ELSE [j \in DOMAIN ms |-> Merge(A[i], ms[j])]], 1)
FiltersOf(g) == LET fs == SelectSeq(g, LAMBDA x : x.k = "filter") IN [i \in DOMAIN fs |-> fs[i].e]
NonFilters(g) == SelectSeq(g, LAMBDA x : x.k # "filter")
RECURSIVE EvalElems(_, _, _, _), EvalGroup(_, _)
EvalGroup(D, g) == LET sols == EvalElems(D, NonFilters(g), 1, <<Empty>>) IN SelectSeq(sols, LAMBDA m : AllHold(FiltersOf(g), m))
EvalElems(D, es, i, acc) ==
  IF i > Len(es) THEN acc
  ELSE LET e == es[i] IN
       EvalElems(D, es, i + 1,
         CASE e.k = "tp" -> Join(acc, SetSeq(MatchTP(D, e)))
           [] e.k = "opt" -> LeftJoin(acc, EvalElems(D, NonFilters(e.g), 1, <<Empty>>), FiltersOf(e.g))
           [] e.k = "union" -> Join(acc, EvalGroup(D, e.a) \o EvalGroup(D, e.b))
           \* MINUS: a solution goes when some solution of the right side is compatible with it and shares a variable with it
           [] e.k = "minus" -> LET R == EvalGroup(D, e.g) IN
                               SelectSeq(acc, LAMBDA m : ~\E j \in DOMAIN R : Compatible(m, R[j]) /\ (DOMAIN m \cap DOMAIN R[j]) # {})
           \* VALUES ?v { c1 c2 ... }: a join with inline solutions
           [] e.k = "values" -> Join(acc, [j \in DOMAIN e.cs |-> (e.v :> e.cs[j])]))
\* ---- updates (SPARQL 1.1 Update, 3.1.3 DELETE/INSERT): the WHERE group is evaluated once over D; every solution
\* instantiates the DELETE templates and the INSERT templates (a template with a variable the solution leaves unbound
\* yields nothing); all deletions are applied before all insertions.  DELETE WHERE { tps } is the form whose
\* templates are its patterns; CLEAR empties the default graph.
TermOf(x, m) == IF IsVar(x) THEN (IF x.v \in DOMAIN m THEN m[x.v] ELSE 0) ELSE x.c
InstSet(tmpls, sols) ==
  {tr \in {<<TermOf(tmpls[i].s, sols[j]), TermOf(tmpls[i].p, sols[j]), TermOf(tmpls[i].o, sols[j])>> : i \in DOMAIN tmpls, j \in DOMAIN sols} :
     tr[1] # 0 /\ tr[2] # 0 /\ tr[3] # 0}
Update(D, u) == LET sols == EvalGroup(D, u.where) IN (D \ InstSet(u.del, sols)) \cup InstSet(u.ins, sols)
DeleteWhere(D, tps) == D \ InstSet(tps, EvalGroup(D, tps))
\* ---- result forms.  A row is a sequence over the selected variables; an unbound variable is 0.
RowOf(sel, m) == [i \in DOMAIN sel |-> IF sel[i] \in DOMAIN m THEN m[sel[i]] ELSE 0]
Rows(D, q) == LET sols == EvalGroup(D, q.where) IN [i \in DOMAIN sols |-> RowOf(q.sel, sols[i])]
BagOf(s) == [r \in Rng(s) |-> Cardinality({i \in DOMAIN s : s[i] = r})]
SubBag(a, b) == \A r \in DOMAIN a : r \in DOMAIN b /\ a[r] <= b[r]
Min2(a, b) == IF a < b THEN a ELSE b
Max2(a, b) == IF a > b THEN a ELSE b
\* ORDER BY ?v [DESC] (v is one of the selected variables, bound in every solution, of one kind - so term numbers order
\* like the terms) with optional OFFSET and LIMIT: the rows are sorted by the key, they are a sub-bag of the solutions (of the distinct
\* solutions under DISTINCT) of the right size, and for every key value exactly as many rows carry it as the window
\* offset+1 .. offset+limit cuts out of that key's run of positions in a sorted arrangement.
HasOrder(q) == "order" \in DOMAIN q
OrderedOk(q, exp0, rows) ==
  LET exp == IF q.distinct THEN SetSeq(Rng(exp0)) ELSE exp0
      k == CHOOSE i \in DOMAIN q.sel : q.sel[i] = q.order.v
      before(a, b) == IF q.order.desc THEN a[k] > b[k] ELSE a[k] < b[k]
      off == IF "offset" \in DOMAIN q THEN q.offset ELSE 0
      rest == IF Len(exp) > off THEN Len(exp) - off ELSE 0
      want == IF q.limit < 0 THEN rest ELSE Min2(q.limit, rest)
      be == BagOf(exp)  br == BagOf(rows)
      \* in any sorted arrangement the solutions with key c occupy positions lt(c)+1 .. lt(c)+cnt(c); the window is off+1 .. off+want
      lt(c) == Cardinality({i \in DOMAIN exp : IF q.order.desc THEN exp[i][k] > c ELSE exp[i][k] < c})
      cnt(c) == Cardinality({i \in DOMAIN exp : exp[i][k] = c})
      inwin(c) == LET lo == Max2(lt(c), off)  hi == Min2(lt(c) + cnt(c), off + want) IN IF hi > lo THEN hi - lo ELSE 0
  IN /\ Len(rows) = want
     /\ \A i \in 1..(Len(rows) - 1) : ~before(rows[i + 1], rows[i])
     /\ SubBag(br, be)
     /\ \A c \in {exp[i][k] : i \in DOMAIN exp} : Cardinality({i \in DOMAIN rows : rows[i][k] = c}) = inwin(c)
\* SELECT ?g (COUNT( * ) AS ?c) ... GROUP BY ?g  (?g bound in every solution): one row per value of ?g with its count
\* optional HAVING (COUNT( * ) > n | = n | >= n): only the groups whose count passes
CountOf(sols, g, key) == Cardinality({j \in DOMAIN sols : sols[j][g] = key})
HavingOk(q, n) == IF "having" \notin DOMAIN q THEN TRUE
                  ELSE CASE q.having.f = "gt" -> n > q.having.n [] q.having.f = "eq" -> n = q.having.n [] q.having.f = "ge" -> n >= q.having.n
GroupOk(D, q, rows) ==
  LET sols == EvalGroup(D, q.where)
      keys == {k \in {sols[i][q.group] : i \in DOMAIN sols} : HavingOk(q, CountOf(sols, q.group, k))}
  IN /\ Len(rows) = Cardinality(keys)
     /\ {rows[i][1] : i \in DOMAIN rows} = keys
     /\ \A i \in DOMAIN rows : rows[i][2] = Cardinality({j \in DOMAIN sols : sols[j][q.group] = rows[i][1]})
\* as-is on the pinned tree: the translator drops VALUES blocks (sparql_translator.rs InlineData -> Empty).  StripValues gives the
\* query the engine actually evaluates, so that a wrong answer to a query with VALUES is attributed to that and nothing else.
RECURSIVE StripG(_)
StripG(g) ==
  LET keep == SelectSeq(g, LAMBDA x : x.k # "values") IN
  [i \in DOMAIN keep |->
     CASE keep[i].k = "opt" -> [keep[i] EXCEPT !.g = StripG(@)]
       [] keep[i].k = "minus" -> [keep[i] EXCEPT !.g = StripG(@)]
       [] keep[i].k = "union" -> [keep[i] EXCEPT !.a = StripG(@), !.b = StripG(@)]
       [] OTHER -> keep[i]]
RECURSIVE HasValuesG(_)
HasValuesG(g) == \E i \in DOMAIN g : \/ g[i].k = "values"
                                     \/ (g[i].k \in {"opt", "minus"} /\ HasValuesG(g[i].g))
                                     \/ (g[i].k = "union" /\ (HasValuesG(g[i].a) \/ HasValuesG(g[i].b)))
StripValues(q) == [q EXCEPT !.where = StripG(@)]
Agrees(D, q, rows) ==
  LET exp == Rows(D, q) IN
  IF "group" \in DOMAIN q THEN GroupOk(D, q, rows)
  ELSE IF HasOrder(q) THEN OrderedOk(q, exp, rows)
  ELSE IF q.count THEN rows = << <<Len(exp)>> >>
  ELSE IF q.distinct
       THEN (IF q.limit < 0 THEN Rng(rows) = Rng(exp) /\ Len(rows) = Cardinality(Rng(exp))
             ELSE Rng(rows) \subseteq Rng(exp) /\ Len(rows) = Cardinality(Rng(rows)) /\ Len(rows) = Min2(q.limit, Cardinality(Rng(exp))))
       ELSE (IF q.limit < 0 THEN BagOf(rows) = BagOf(exp)
             ELSE SubBag(BagOf(rows), BagOf(exp)) /\ Len(rows) = Min2(q.limit, Len(exp)))
=============================================================================
