SPECIFICATION Spec
CONSTANTS
  Src = {1, 2}
  Cap = 2
  DeltaThr = 2
  ColdThr = 1
  MaxAdds = 5
INVARIANT Refines
INVARIANT ChunksWithinCapacity
CHECK_DEADLOCK FALSE
