---------------------------- MODULE MC_RdfIndex ----------------------------
(* Mechanism model of RdfStore's storage (sequential): primary set + subject / predicate / object
   index vectors maintained the way insert()/remove()/clear() do.  Invariant: every index mirrors
   the set (each matching triple exactly once), so every index-served lookup of RdfStore.tla
   equals the set-defined one.  The concurrent version (one step per critical section) is
   spec/conc/RdfConc.tla. *)
EXTENDS Naturals, Sequences, FiniteSets, TLC
CONSTANTS S, P, O
VARIABLES set, si, pi, oi
vars == <<set, si, pi, oi>>
Univ == S \X P \X O
Init == set = {} /\ si = [s \in S |-> <<>>] /\ pi = [p \in P |-> <<>>] /\ oi = [o \in O |-> <<>>]
Without(q, t) == SelectSeq(q, LAMBDA x : x # t)
Insert(t) == IF t \in set THEN UNCHANGED vars
             ELSE /\ set' = set \cup {t}
                  /\ si' = [si EXCEPT ![t[1]] = Append(@, t)]
                  /\ pi' = [pi EXCEPT ![t[2]] = Append(@, t)]
                  /\ oi' = [oi EXCEPT ![t[3]] = Append(@, t)]
Remove(t) == IF t \notin set THEN UNCHANGED vars
             ELSE /\ set' = set \ {t}
                  /\ si' = [si EXCEPT ![t[1]] = Without(@, t)]
                  /\ pi' = [pi EXCEPT ![t[2]] = Without(@, t)]
                  /\ oi' = [oi EXCEPT ![t[3]] = Without(@, t)]
Clear == set' = {} /\ si' = [s \in S |-> <<>>] /\ pi' = [p \in P |-> <<>>] /\ oi' = [o \in O |-> <<>>]
Next == (\E t \in Univ : Insert(t) \/ Remove(t)) \/ Clear
Spec == Init /\ [][Next]_vars
Range(q) == {q[i] : i \in DOMAIN q}
Once(q, X) == Range(q) = X /\ Len(q) = Cardinality(X)
Mirror == /\ \A s \in S : Once(si[s], {t \in set : t[1] = s})
          /\ \A p \in P : Once(pi[p], {t \in set : t[2] = p})
          /\ \A o \in O : Once(oi[o], {t \in set : t[3] = o})
=============================================================================
