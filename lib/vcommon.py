"""Shared plumbing for /verif checks: TLC runs, harness builds, evidence, known findings.

Exit-code contract (MANIFEST): 0 = property held on everything explored (KNOWN-FINDING lines allowed),
1 = VIOLATION line printed with a replay file, 2 = tool failure / timeout (never a VIOLATION).
"""
import json
import os
import re
import shutil
import subprocess
import sys
import time

VERIF = os.path.dirname(os.path.dirname(os.path.abspath(__file__)))
SPEC = os.path.join(VERIF, "spec")
HARNESS = os.path.join(VERIF, "harness")
WORK = os.path.join(VERIF, "work")
REPLAYS = os.path.join(VERIF, "replays")
EVIDENCE = os.path.join(VERIF, "evidence")
GV = os.path.join(HARNESS, "target", "debug", "gv")
TLA_CP = "/opt/veriftools/tla/tla2tools.jar:/opt/veriftools/tla/CommunityModules-deps.jar"


class ToolError(Exception):
    pass


def log(*a):
    print(*a, flush=True)


def seed_from_env():
    try:
        return int(os.environ.get("VERIF_SEED", "1"))
    except ValueError:
        return 1


def workdir(name, clean=True):
    d = os.path.join(WORK, name)
    if clean and os.path.isdir(d):
        shutil.rmtree(d, ignore_errors=True)
    os.makedirs(d, exist_ok=True)
    return d


_built = False


def cargo_build():
    """Builds the harness (dev profile: overflow checks + debug assertions, like the repo's tests).
    Path dependencies on /repo/crates/* mean any edit under /repo is rebuilt here."""
    global _built
    if _built:
        return
    t0 = time.time()
    env = dict(os.environ)
    env["CARGO_NET_OFFLINE"] = "true"
    # serialise concurrent checks on the shared target dir: cargo takes its own lock
    p = subprocess.run(["cargo", "build", "--offline", "--quiet"], cwd=HARNESS, env=env,
                       stdout=subprocess.PIPE, stderr=subprocess.STDOUT, text=True)
    if p.returncode != 0:
        log(p.stdout[-6000:])
        raise ToolError("cargo build of harness failed")
    _built = True
    log(f"[build] harness built in {time.time()-t0:.1f}s")


def gv(args, *, timeout=600, stdin=None, env=None, check=True, cwd=None):
    """Runs the harness binary. Returns (rc, stdout, stderr)."""
    cargo_build()
    e = dict(os.environ)
    if env:
        e.update(env)
    try:
        p = subprocess.run([GV] + [str(a) for a in args], input=stdin, stdout=subprocess.PIPE,
                           stderr=subprocess.PIPE, text=True, timeout=timeout, env=e, cwd=cwd)
    except subprocess.TimeoutExpired:
        raise ToolError(f"gv {' '.join(map(str,args))} timed out after {timeout}s")
    if check and p.returncode != 0:
        log(p.stdout[-3000:])
        log(p.stderr[-3000:])
        raise ToolError(f"gv {' '.join(map(str,args))} exited {p.returncode}")
    return p.returncode, p.stdout, p.stderr


class TlcResult:
    def __init__(self):
        self.out = ""
        self.generated = 0
        self.distinct = 0
        self.depth = 0
        self.ok = False          # finished with no error
        self.violation = None    # name of violated invariant / property, or "deadlock", "postcondition"
        self.timeout = False
        self.wall = 0.0
        self.coverage = {}       # action -> (taken, distinct)
        self.printed = []        # lines printed by PrintT / Print

    def summary(self):
        return {"generated": self.generated, "distinct": self.distinct, "depth": self.depth,
                "ok": self.ok, "violation": self.violation, "wall_s": round(self.wall, 1)}


def tlc(module_path, cfg_path, *, name, workers=8, timeout=900, xmx="8g", simulate=None,
        depth=None, seed=None, env=None, dfs=False, coverage=False, deadlock=False, extra=None,
        libs=None, continue_=False):
    """Runs TLC on module_path with cfg_path. `simulate` = number of behaviours (simulation mode)."""
    meta = workdir("tlc-" + name)
    res = TlcResult()
    jopts = ["-XX:+UseParallelGC", "-Xmx" + xmx, "-Xss1g"]
    lib = [os.path.join(SPEC, "common")] + (libs or [])
    jopts.append("-DTLA-Library=" + os.pathsep.join(lib))
    if dfs:
        jopts.append("-Dtlc2.tool.queue.IStateQueue=StateDeque")
    cmd = ["timeout", "-k", "10", str(timeout), "java"] + jopts + ["-cp", TLA_CP, "tlc2.TLC",
           "-workers", str(workers), "-metadir", meta, "-cleanup", "-noGenerateSpecTE",
           "-config", cfg_path]
    if not deadlock:
        cmd.append("-deadlock")   # -deadlock = do NOT check deadlock
    if coverage:
        cmd += ["-coverage", "1"]
    if continue_:
        cmd.append("-continue")
    if simulate is not None:
        cmd += ["-simulate", f"num={simulate}"]
        if depth is not None:
            cmd += ["-depth", str(depth)]
    if seed is not None:
        cmd += ["-seed", str(seed)]
    if extra:
        cmd += extra
    cmd.append(module_path)
    e = dict(os.environ)
    e.pop("JAVA_TOOL_OPTIONS", None)
    if env:
        e.update(env)
    t0 = time.time()
    p = subprocess.run(cmd, stdout=subprocess.PIPE, stderr=subprocess.STDOUT, text=True, env=e,
                       cwd=os.path.dirname(module_path))
    res.wall = time.time() - t0
    res.out = p.stdout
    shutil.rmtree(meta, ignore_errors=True)
    if p.returncode in (124, 137):
        res.timeout = True
    m = None
    for m in re.finditer(r"(\d+) states generated, (\d+) distinct states found", p.stdout):
        pass
    if m:
        res.generated, res.distinct = int(m.group(1)), int(m.group(2))
    m = re.search(r"The depth of the complete state graph search is (\d+)", p.stdout)
    if m:
        res.depth = int(m.group(1))
    m = re.search(r"Invariant (\S+) is violated", p.stdout)
    if m:
        res.violation = m.group(1)
    elif re.search(r"Action property (\S+) is violated", p.stdout):
        res.violation = re.search(r"Action property (\S+) is violated", p.stdout).group(1)
    elif "Temporal properties were violated" in p.stdout:
        res.violation = "temporal"
    elif "Deadlock reached" in p.stdout:
        res.violation = "deadlock"
    elif re.search(r"The postcondition (\S+)? ?(is|was) violated|Postcondition .* violated", p.stdout, re.I):
        res.violation = "postcondition"
    elif "Error:" in p.stdout and "Model checking completed. No error has been found" not in p.stdout \
            and not res.timeout:
        # evaluation errors, parse errors etc.
        if simulate is None or "The number of states generated" not in p.stdout:
            res.violation = res.violation or "error"
    res.ok = (not res.timeout) and res.violation is None and (
        "No error has been found" in p.stdout or simulate is not None and p.returncode == 0)
    for line in p.stdout.splitlines():
        if line.startswith("<<") or line.startswith('"') or line.startswith("[") or line.startswith("{"):
            res.printed.append(line)
    if coverage:
        for m in re.finditer(r"^<(\w+) line \d+, col \d+ to line \d+, col \d+ of module (\w+)>: (\d+):(\d+)", p.stdout, re.M):
            res.coverage[m.group(1)] = (int(m.group(4)), int(m.group(3)))
    return res


def tlc_trace_text(res):
    """Extracts the counterexample text (State 1.. lines) from a TLC output."""
    i = res.out.find("The behavior up to this point is")
    if i < 0:
        i = res.out.find("State 1:")
    if i < 0:
        return ""
    j = res.out.find("states generated", i)
    return res.out[i:j if j > 0 else None]


def write_cfg(path, *, spec="Spec", init=None, next_=None, constants=None, invariants=(),
              properties=(), constraints=(), action_constraints=(), symmetry=None, view=None,
              postcondition=None, check_deadlock=False):
    lines = []
    if init and next_:
        lines += [f"INIT {init}", f"NEXT {next_}"]
    else:
        lines.append(f"SPECIFICATION {spec}")
    if constants:
        lines.append("CONSTANTS")
        for k, v in constants.items():
            lines.append(f"  {k} = {v}")
    for i in invariants:
        lines.append(f"INVARIANT {i}")
    for i in properties:
        lines.append(f"PROPERTY {i}")
    for i in constraints:
        lines.append(f"CONSTRAINT {i}")
    for i in action_constraints:
        lines.append(f"ACTION_CONSTRAINT {i}")
    if symmetry:
        lines.append(f"SYMMETRY {symmetry}")
    if view:
        lines.append(f"VIEW {view}")
    if postcondition:
        lines.append(f"POSTCONDITION {postcondition}")
    lines.append("CHECK_DEADLOCK " + ("TRUE" if check_deadlock else "FALSE"))
    with open(path, "w") as f:
        f.write("\n".join(lines) + "\n")
    return path


def tla_set(items):
    return "{" + ", ".join(items) + "}"


def tla_strset(items):
    return "{" + ", ".join('"%s"' % i for i in items) + "}"


# ---------------------------------------------------------------- known findings

def load_known():
    with open(os.path.join(VERIF, "known_findings.json")) as f:
        return json.load(f)


def known_for(prop):
    return [k for k in load_known()["findings"] if k["property"] == prop and k["status"] == "known"]


class Report:
    """Collects outcome of one check run and writes evidence + exit code."""

    def __init__(self, prop, level, tier, seed):
        self.prop, self.level, self.tier, self.seed = prop, level, tier, seed
        self.t0 = time.time()
        self.coverage = {}
        self.assumptions = []
        self.violations = []      # (description, replay_path)
        self.known_hit = {}       # finding id -> text
        self.notes = []

    def add(self, **kw):
        for k, v in kw.items():
            if isinstance(v, int) and isinstance(self.coverage.get(k), int) and not isinstance(v, bool):
                self.coverage[k] += v
            elif isinstance(v, list) and isinstance(self.coverage.get(k), list):
                self.coverage[k] += v
            else:
                self.coverage[k] = v

    def known(self, fid, text):
        self.known_hit[fid] = text

    def violation(self, desc, replay_obj, tag="v"):
        os.makedirs(REPLAYS, exist_ok=True)
        n = len(self.violations)
        path = os.path.join(REPLAYS, f"{self.prop}-{self.tier}-{self.seed}-{tag}{n}.json")
        with open(path, "w") as f:
            json.dump({"property": self.prop, "what": desc, "replay": replay_obj}, f, indent=1, default=str)
        self.violations.append((desc, path))
        return path

    def finish(self):
        cov = self.coverage
        samples = cov.get("samples", [])
        cov["samples"] = samples[:8]
        ev = {"property_id": self.prop, "tier": self.tier, "seed": self.seed, "level": self.level,
              "coverage": cov, "assumptions": self.assumptions, "wall_s": round(time.time() - self.t0, 1),
              "violations": len(self.violations),
              "known_findings_reproduced": sorted(self.known_hit.keys()), "notes": self.notes}
        os.makedirs(EVIDENCE, exist_ok=True)
        with open(os.path.join(EVIDENCE, self.prop + ".json"), "w") as f:
            json.dump(ev, f, indent=1, default=str)
        for fid in sorted(self.known_hit):
            log(f"KNOWN-FINDING: property={self.prop} [{fid}] {self.known_hit[fid]}")
        for desc, path in self.violations:
            log(f"VIOLATION property={self.prop} replay={path}")
            log(f"  what: {desc}")
        log(f"[{self.prop}] tier={self.tier} seed={self.seed} wall={ev['wall_s']}s violations={len(self.violations)}")
        return 1 if self.violations else 0


def read_ndjson(path):
    out = []
    with open(path) as f:
        for line in f:
            line = line.strip()
            if line:
                out.append(json.loads(line))
    return out


def write_ndjson(path, recs):
    with open(path, "w") as f:
        for r in recs:
            f.write(json.dumps(r, separators=(",", ":")) + "\n")


# ---------------------------------------------------------------- trace validation (binding B)

def split_traces(events):
    """Splits a concatenated event list at {"a":"reset"} markers; returns list of (start_index, events)."""
    out, cur, start = [], None, 0
    for i, e in enumerate(events):
        if e.get("a") == "reset":
            if cur is not None:
                out.append((start, cur))
            cur, start = [e], i
        else:
            if cur is None:
                cur, start = [], i
            cur.append(e)
    if cur is not None:
        out.append((start, cur))
    return out


def validate_trace(module_path, cfg_path, trace_path, *, name, timeout=600, xmx="4g", env=None):
    """Runs a Trace_* spec over an ndjson trace. Returns dict(accepted, index, event, kind, out).
    index = 1-based index of the first event the spec cannot explain (kind 'reject'), or of the
    event after which an invariant failed (kind 'invariant:<name>')."""
    e = {"TRACE": trace_path}
    if env:
        e.update(env)
    r = tlc(module_path, cfg_path, name=name, workers=1, timeout=timeout, xmx=xmx, dfs=True, env=e)
    if r.timeout:
        raise ToolError(f"trace validation {name} timed out")
    if r.ok:
        return {"accepted": True, "generated": r.generated, "distinct": r.distinct, "wall": r.wall}
    m = re.search(r'<<"REJECT", (\d+), "(.*)">>', r.out)
    if m:
        try:
            ev = json.loads(m.group(2).encode().decode("unicode_escape"))
        except Exception:
            ev = m.group(2)
        return {"accepted": False, "kind": "reject", "index": int(m.group(1)), "event": ev, "out": r.out[-3000:]}
    if r.violation and r.violation not in ("error", "postcondition"):
        ls = re.findall(r"^/\\ l = (\d+)|^l = (\d+)", r.out, re.M)
        idx = 0
        if ls:
            last = ls[-1]
            idx = int(last[0] or last[1]) - 1
        return {"accepted": False, "kind": "invariant:" + r.violation, "index": idx, "event": None,
                "out": tlc_trace_text(r)[-4000:]}
    log(r.out[-4000:])
    raise ToolError(f"trace validation {name}: TLC failed without a verdict")


def validate_all(module_path, cfg_path, events, *, name, wd, max_violations=5, timeout=600, env=None):
    """Validates all reset-delimited traces; on a rejection the offending trace is cut out and the
    rest is still validated. Returns (n_traces_validated, n_events_validated, rejections[list of dict])."""
    traces = split_traces(events)
    remaining = list(range(len(traces)))
    rejections = []
    nev = 0
    rounds = 0
    while remaining:
        rounds += 1
        path = os.path.join(wd, f"{name}-r{rounds}.ndjson")
        flat, owner = [], []
        for ti in remaining:
            for e in traces[ti][1]:
                flat.append(e)
                owner.append(ti)
        write_ndjson(path, flat)
        res = validate_trace(module_path, cfg_path, path, name=f"{name}-r{rounds}", timeout=timeout, env=env)
        if res["accepted"]:
            nev += len(flat)
            break
        idx = max(1, min(res["index"], len(flat)))
        bad = owner[idx - 1]
        off = idx - 1 - owner.index(bad)      # offset inside the offending trace
        rejections.append({"trace_no": bad, "kind": res["kind"], "offset": off,
                           "event": res.get("event"), "trace": traces[bad][1], "detail": res.get("out", "")[-1500:]})
        remaining = [t for t in remaining if t != bad]
        if len(rejections) >= max_violations:
            break
    ok_traces = len(traces) - len(rejections) if len(rejections) < max_violations else 0
    return ok_traces, nev, rejections


def subsets_desc(K):
    """All subsets of K, largest first."""
    import itertools
    K = sorted(K)
    out = []
    for n in range(len(K), -1, -1):
        for c in itertools.combinations(K, n):
            out.append(frozenset(c))
    return out


def conformance(module_path, mkcfg, events, known_switches, *, name, wd, max_violations=5, timeout=600):
    """Validates traces against the model of the current tree (all known, unfixed switches as-is).
    A trace rejected by that model is re-validated under every other permitted assignment (any subset
    of the known switches, including the fully repaired model); only a trace that NO permitted
    assignment explains is a violation.  mkcfg(frozenset) -> cfg path."""
    K = frozenset(known_switches)
    ok, nev, rej = validate_all(module_path, mkcfg(K), events, name=name, wd=wd,
                                max_violations=max_violations, timeout=timeout)
    violations, explained = [], []
    for r in rej:
        acc = None
        for S in subsets_desc(K):
            if S == K:
                continue
            p = os.path.join(wd, f"{name}-single.ndjson")
            write_ndjson(p, r["trace"])
            res = validate_trace(module_path, mkcfg(S), p, name=f"{name}-single", timeout=timeout)
            if res["accepted"]:
                acc = S
                break
        if acc is None:
            violations.append(r)
        else:
            explained.append((r, sorted(acc)))
    return {"traces_ok": ok + len(explained), "events_ok": nev, "violations": violations, "explained": explained}
