"""Static classes of generated SPARQL queries used to recognise the two recorded (structural) SPARQL findings:
  J  a variable that may be unbound on one side (bound only inside an OPTIONAL, or in only one UNION branch) is shared
     with another part of the pattern - needs the compatible-mapping join (unbound is compatible with everything),
     the engine joins on value equality of the column;
  F  a FILTER inside OPTIONAL mentions a variable that the optional part does not bind - it must be evaluated as the
     condition of the left join, the engine evaluates it inside the optional part."""


def expr_vars(e):
    if e["f"] in ("and", "or"):
        return expr_vars(e["a"]) | expr_vars(e["b"])
    if e["f"] == "not":
        return expr_vars(e["a"])
    return {e["v"]}


def tvars(t):
    return {x["v"] for x in (t["s"], t["p"], t["o"]) if "v" in x}


def gvars(g):
    """(certain, maybe) variables of the solutions of a group"""
    certain, maybe = set(), set()
    for e in g:
        if e["k"] == "tp":
            certain |= tvars(e)
        elif e["k"] == "opt":
            c, m = gvars(e["g"])
            maybe |= (c | m)
        elif e["k"] == "union":
            ca, ma = gvars(e["a"])
            cb, mb = gvars(e["b"])
            certain |= (ca & cb)
            maybe |= (ca | ma | cb | mb) - (ca & cb)
    return certain, maybe - certain


def elem_vars(e):
    """(all variables, variables possibly unbound in the element's own solutions)"""
    if e["k"] == "tp":
        return tvars(e), set()
    if e["k"] == "opt":
        c, m = gvars(e["g"])
        return c | m, m
    if e["k"] == "union":
        ca, ma = gvars(e["a"])
        cb, mb = gvars(e["b"])
        allv = ca | ma | cb | mb
        return allv, allv - (ca & cb)
    return set(), set()


def classes(g):
    out = set()
    acc_all, acc_maybe = set(), set()
    for e in g:
        if e["k"] == "filter":
            continue
        allv, own_maybe = elem_vars(e)
        shared = allv & acc_all
        if shared & (own_maybe | acc_maybe):
            out.add("J")
        if e["k"] == "opt":
            inner = set()
            for x in e["g"]:
                if x["k"] != "filter":
                    inner |= elem_vars(x)[0]
            for x in e["g"]:
                if x["k"] == "filter" and not expr_vars(x["e"]) <= inner:
                    out.add("F")
            out |= classes(e["g"])
            acc_maybe |= (allv - acc_all)            # new variables of an OPTIONAL may stay unbound
            acc_maybe |= (own_maybe & allv)
        elif e["k"] == "union":
            out |= classes(e["a"]) | classes(e["b"])
            acc_maybe |= (own_maybe - (acc_all - acc_maybe))
        acc_all |= allv
        if e["k"] == "tp":
            acc_maybe -= tvars(e) if False else set()
    return out
