#!/opt/veriftools/pyvenv/bin/python
import json, sys, glob, jsonschema
jsonschema.validate(json.load(open('/verif/MANIFEST.json')), json.load(open('/root/.vp/MANIFEST.schema.json')))
s = json.load(open('/root/.vp/EVIDENCE.schema.json'))
for f in sorted(glob.glob('/verif/evidence/*.json')):
    jsonschema.validate(json.load(open(f)), s)
    print("ok", f)
print("manifest valid")
