#!/usr/bin/env python3
"""Prints the prompt given to an independent sub-agent that seeds a property-breaking change."""
import json, sys
pid = sys.argv[1]
variant = sys.argv[2] if len(sys.argv) > 2 else "a"
p = [json.loads(l) for l in open('/verif/properties.jsonl') if json.loads(l)['id'] == pid][0]
wt = f"/tmp/seed-{pid}{variant}"
print(f"""You are helping to evaluate a verification effort for the Rust project GrafeoDB/grafeo (an embeddable graph database). Your job: produce ONE realistic source change (a "seeded defect") that breaks the semantic property below while the project still compiles and its existing test suite still passes, plus a small demonstration that fails with your change and passes without it.

PROPERTY {p['id']} — {p['title']}
Statement: {p['statement']}
Quantified over: {p['quantifier']['text']}
Code anchors (where the mechanism lives): {', '.join(p['anchors']['files'][:8])}

RULES
- Work ONLY in your own scratch git worktree. Create it with:  git -C /repo worktree add --detach {wt} HEAD
  Never edit anything under /repo itself, and do NOT read or list anything under /verif (your change must be independent of it).
- Build/test offline only: export CARGO_NET_OFFLINE=true ; always pass --offline to cargo. Use the worktree's own target dir (default ./target inside {wt}). Limit parallelism with `-j 6` / `--test-threads 6` because other jobs share this machine.
- The change must be the kind of mistake a developer could plausibly make (a wrong comparison, a missing step, a mis-ordered update, a wrong boundary, an optimisation that is not quite valid, two edits that each look fine alone). It should need something SPECIFIC to manifest: a particular interleaving or history, a multi-step sequence of operations, a crash/fault at a particular point, an unusual input, a boundary size — NOT something that ordinary use would expose at once. Keep it small (typically < 30 changed lines), in non-test code, not behind any cfg/feature flag, no edits to existing tests.
- It must still compile, and the existing tests must still pass. At minimum run the full test suite of every crate you touched (e.g. `cargo test --offline -p grafeo-engine -j 6 -- --test-threads 6`, likewise grafeo-core / grafeo-common / grafeo-adapters) and report the pass counts. If an existing test fails because of your change, choose a different change.
- Write a demonstration: a new Rust integration test file (e.g. {wt}/crates/grafeo-engine/tests/seed_demo_{pid.lower()}.rs, or the crate that fits) using only the public API, which FAILS with your change and PASSES on the unmodified code. Verify both: run it with the change (fails); then save your source change with `git diff -- crates ':!*/tests/*' > /tmp/my_{pid}.diff`, revert it with `git apply -R /tmp/my_{pid}.diff` (keep the test), run it (passes), then re-apply with `git apply /tmp/my_{pid}.diff`. NEVER use `git stash`: the stash is shared by all worktrees of /repo and other processes use it.
- Note: the tree at HEAD may already violate parts of this property in some ways (known defects). Your demonstration must pass on unmodified HEAD and fail only with your change, so pick behaviour that is correct at HEAD.

DELIVERABLES (write these files, then report their paths and a summary in your final answer)
- {wt}/seed/patch.diff : `git diff` of the source change ONLY (not the demo test), relative to HEAD, applicable with `git apply` from the repo root.
- {wt}/seed/demo.rs : a copy of the demonstration test file, and {wt}/seed/demo_path.txt containing the repo-relative path where it must be placed to run and the exact cargo command to run it.
- {wt}/seed/meta.json : {{"property": "{pid}", "summary": "...what was changed...", "needs": "...what specific history/schedule/input is needed for it to manifest...", "ran": ["...commands you ran and their pass/fail counts..."]}}
Leave the worktree in place when you finish (with the change applied and the demo present); do not remove it. Your final answer: 5-10 lines — what you changed, why the existing tests miss it, what it needs to manifest, and the test results you observed.""")
