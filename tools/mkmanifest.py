#!/usr/bin/env python3
"""Regenerates /verif/MANIFEST.json from the table below (one source of truth for claimed checks)."""
import json
import os

VERIF = os.path.dirname(os.path.dirname(os.path.abspath(__file__)))

CLAIMED = {
    "C15": dict(
        engine="misc", category="exploration", design_ref="DESIGN.md §7 C15",
        technique="bounded-exhaustive + structured + random inputs through every codec, results recorded as symbol sequences and checked by TLC against Codec.tla (decode(encode)=id, random access, byte round trip, rank/select/access definitions); PropColumn.tla and Adjacency.tla trace validation for the stateful compressed structures",
        text="Every sequence up to length 3 (quick) / 4 (thorough) over 8 boundary symbols, structured sequences of lengths 7-9, 63-65, 127-129, 1000 and seeded random ones go through delta (signed/unsigned), bit-packing, delta+bit-packing, run-length (signed/unsigned), bit vectors, the automatic selector, dictionary, Elias-Fano, rank/select and wavelet trees; property columns and adjacency lists are driven through their compression entry points with every read compared to the abstract map / live-entry list.",
        note="Bit-level arithmetic is exercised with boundary symbols, not modelled. Compressed property columns are unreadable (known finding). epoch_store (tiered-storage feature) is out of scope."),
    "C16": dict(
        engine="misc", category="exploration", design_ref="DESIGN.md §7 C16",
        technique="relations (eq, hash-eq, cmp) of the hashable and orderable wrappers and bit-exact serialisation round trips evaluated on a universe of values, recorded as matrices; ValueLaws.tla checked by TLC for all pairs and triples",
        text="Equivalence, eq => equal hash, total order consistent with eq, and round-trip identity (spill serializer, WAL close+reopen, snapshot) over a universe of ~85 values per run (every variant, NaN payloads, signed zeros, infinities, integers around 2^53, i64 extremes, empty / non-ASCII strings, nested lists and maps, zero-length vectors + seeded random numerics); consequences for BTreeSet / HashSet / sort checked directly.",
        note="All f64 bit patterns are sampled, not enumerated. JSON for language bindings is out of scope."),
    "C19": dict(
        engine="misc", category="exploration", design_ref="DESIGN.md §7 C19",
        technique="every bundled graph algorithm run on all small directed multigraphs (exhaustive enumeration) and seeded random ones; results recorded and judged by TLC against the mathematical definitions written in GraphAlgo.tla (relaxation fixpoint, reachability, brute force over edge subsets / cuts / node subsets)",
        text="All multigraphs with <= 3 nodes and <= 2 (quick) / 3 (thorough) edges over every ordered pair (self-loops, parallel and antiparallel edges, isolated nodes) x weight class {1, 2, missing}, plus random graphs to 6 nodes / 9 edges with zero and equal weights; every source / target. Checked: Dijkstra = Bellman-Ford = Floyd-Warshall = definition, paths real and optimal (Dijkstra, A*), negative weights and negative-cycle detection, weak / strong components and counts, topological order iff acyclic, Kruskal and Prim (every start) minimum spanning forests, max flow = min cut with capacities and conservation, BFS order / layers, DFS, triangles, articulation points, bridges, core numbers, PageRank is a distribution.",
        note="Definitions are evaluated by brute force, so graphs are small. Community detection, betweenness / closeness and min-cost flow are not covered. PageRank values are not compared."),
    "C18": dict(
        engine="vector", category="model_checking", design_ref="DESIGN.md §7 C18",
        technique="TLA+ model of the HNSW beam search (MC_HnswBeam.tla) model-checked by TLC over every small graph / entry / ef / visiting order for the result-set lemma; histories on the real HnswIndex (proximity graph via a cfg(grafeo_verif) hook), quantised indexes, GrafeoDB::vector_search, brute_force_knn, distance kernels and quantisers validated by TLC against Hnsw.tla",
        text="Design: result within the reachable set R, |result| = min(ef,|R|), exact when ef >= |R| (all graphs on 3 (quick) / 4 (thorough) nodes). Code: for every search of the recorded histories TLC recomputes the greedy descent and R from the dumped graph and checks at most k distinct present ids, true distance under the metric, sorted, count = min(k,|R|), exactly the k nearest of R when max(ef,k) >= |R|, batch = one-by-one; removed ids never returned (no dangling links after every mutation); brute_force_knn exact; kernels = definitions for dims 1..40; quantiser contracts.",
        note="Integer-coordinate vectors only (exact arithmetic); extreme magnitudes / NaN are not covered. Quantised indexes are checked without the graph-derived count. zone maps, mmap storage and query-language vector operators are out of scope."),
    "C17": dict(
        engine="exec", category="exploration", design_ref="DESIGN.md §7 C17",
        technique="TLA+ sequential semantics of operator pipelines (ExecSem.tla) evaluated by TLC as the oracle for every recorded run of the same pipeline under pull, push (chunk sizes), spilling (thresholds) and parallel (workers x morsel sizes) execution, and for the parallel merge helpers on partitioned tables",
        text="Generated tables (0..25 rows with NULLs and duplicates; 1023..4097 rows around morsel / chunk boundaries; key column as int, string, timestamp, float, bool, mixed numeric) x pipelines (filters, projection, distinct, sort with NULL placement and direction, global / grouped aggregates, limit / skip) x execution modes. TLC computes Seq(ops, table) and compares every run (sequence equality; bags for parallel runs and aggregates); large tables are checked for agreement of all modes. Spill directory must be empty afterwards. merge_sorted_runs / merge_sorted_chunks / merge_distinct_results / MergeableAccumulator / fold helpers / generate_morsels are checked against the same definitions.",
        note="Worker thread schedules are sampled by repetition, not enumerated. Joins, adaptive execution, async spill and graph scan sources are not covered."),
    "C12": dict(
        engine="front", category="exploration", design_ref="DESIGN.md §7 C12",
        technique="the input space of the five query front ends as a TLA+ state machine (QueryGen.tla): TLC enumerates every token sequence up to a bound plus bracket-balanced random behaviours; with a mutation corpus of valid queries (truncations, special characters, deep nests, huge literals, parameter maps) every text is executed in a supervised child process (panic caught, abort and hang detected, memory capped); TLC judges the recorded outcomes (Trace_Front.tla)",
        text="Per language all sequences of <= 2 (quick) / <= 3 (thorough) tokens over an alphabet of 52-68 tokens (keywords, punctuation, extreme numbers, unterminated strings, NUL, backslash, non-ASCII), random balanced texts to 8 / 12 tokens, and 6-13 valid seed queries with every truncation, each position replaced by 27 special characters, 10 parameter maps, nests of depth 10..10^5 and literals to 10^6 characters; each on a populated and an empty database. Outcome must be a result or an error value.",
        note="Grammar-unaware beyond tokens; far shallower than coverage-guided fuzzing. Deep nesting aborts the process in every language (known findings). The C binding is not built."),
    "C07": dict(
        engine="txn", category="model_checking", design_ref="DESIGN.md §7 C07",
        technique="copies (import(export), to_memory, save+open, open_in_memory) logged after every action of multi-session histories and validated by TLC against Mvcc.tla (mechanism enumeration or committed graph); plus bit-exact value-fidelity checks and child-process enumeration of truncated / bit-flipped snapshots",
        text="Every graph reachable by the generated histories (committed and open transactions, deleted entities, sparse ids) is copied through every path; TLC checks each copy against the model, that the copies agree, that export is byte-deterministic and the source unchanged. Graphs carrying every value type are compared bit-exactly; every truncation and single-bit flip (strided on large snapshots in the quick tier) must give an error or a self-consistent database, never a panic or process death.",
        note="Byte-fault positions are enumerated by the harness, not modelled. The wasm binding is out of scope. A copy taken while a transaction is open contains uncommitted work (known finding)."),
    "C08": dict(
        engine="query", category="model_checking", design_ref="DESIGN.md §7 C08",
        technique="TLA+ reference semantics QuerySem.tla (pattern bindings, Kleene WHERE, DISTINCT, aggregates, ORDER/SKIP/LIMIT) evaluated by TLC as the oracle for every (graph, abstract query) case; queries rendered to GQL and Cypher (and, for path patterns with conjunctive property filters, to Gremlin: count / id / dedup, and to GraphQL: root field per label with argument filters, property fields, one nested edge field) and executed on the real engine",
        text="Tens of thousands of random (graph, core query) cases per run: graphs with self-loops, parallel edges, isolated nodes, missing and heterogeneous properties; 0-2 hop patterns with labels, types, directions; three-valued predicates over node and edge properties; projections, DISTINCT, count/sum/min/max with grouping, ORDER BY + SKIP/LIMIT. TLC computes the expected bag (sequence when ordered) from QuerySem.tla and compares with the rows the engine returned, per language; both languages must agree with the same oracle.",
        note="Gremlin / GraphQL renderings, variable-length paths, avg/collect, OPTIONAL MATCH are not generated. Errors for unsupported constructs are 'no answer'."),
    "C09": dict(
        engine="query", category="model_checking", design_ref="DESIGN.md §7 C09",
        technique="same QuerySem.tla oracle; each case executed through a hand-built translate/bind/optimize/plan/execute pipeline under no optimizer and all 2^3 rewrite combinations, with statistics never computed / fresh / stale",
        text="Every optimizer configuration must return exactly the rows QuerySem.tla defines (so an unsound rewrite shared by all configurations is still caught), for every generated query and graph.",
        note="The plan-level PlanSem extension of the design is not built; results, not plans, are compared."),
    "C10": dict(
        engine="query", category="model_checking", design_ref="DESIGN.md §7 C10",
        technique="same QuerySem.tla oracle over physical configurations: property indexes on any subset of the filtered keys (created before the data, mid-history, dropped), factorized execution on/off, plan cache cold/warm, the same text re-executed after the data changed",
        text="For every generated query (incl. predicates shaped to hit the index path, the range path and min/max pruning with extra conjuncts, ORs and mixed types) and every physical configuration / history of configurations the rows must equal the oracle's for the graph as it is at that moment.",
        note="Edge-property indexes and adaptive execution are not varied."),
    "C11": dict(
        engine="query", category="model_checking", design_ref="DESIGN.md §7 C11",
        technique="TLA+ module Metamorphic.tla: partition / count / DISTINCT / window / UNION ALL identities evaluated by TLC on recorded results of related queries (no semantic oracle); graphs of 0, 1, 2047, 2048, 2049 rows for chunk boundaries",
        text="For base queries x predicates (comparisons, arithmetic, connectives, IN, string operators, missing properties) x skip/limit values (0, 1, n-1, n, n+1, 2047, 2048) in GQL and Cypher, TLC checks that the recorded bags satisfy Q = Q|p + Q|not p + Q|p IS NULL, count = number of rows, DISTINCT = set of Q, window = SubSeq of the ordered result, UNION ALL = concatenation.",
        note="GQL has no UNION production (known finding, class precision). LimitChunks operator-level model of the design is not built."),
    "C14": dict(
        engine="store", category="model_checking", design_ref="DESIGN.md §7 C14",
        technique="TLA+ specs LpgStore.tla (every accessor defined from one abstract graph) and MC_LpgIndex.tla (incremental label/property index mechanism = definitions, model-checked by TLC); recorded mutator histories of the real LpgStore validated by TLC with all access paths after every call",
        text="TLC checks that the incrementally maintained label and property indexes equal their definitions over all histories of the bounded model; on the real store, after every call of random histories (node/edge create and delete incl. self-loops, parallel edges and hub nodes with more than 64 incident edges, set/remove property, add/remove label, create/drop index, statistics refresh) the answers of all access paths are validated against the single abstract graph: label lookup, scans, counts, point lookups, out/in neighbour lists and degrees, index vs scan property lookup, range lookup, min/max pruning as an implication.",
        note="Non-transactional API, single thread. The store without backward adjacency cannot be built through the public API. Adjacency compaction entry points are not called by LpgStore."),
    "C13": dict(
        engine="store", category="model_checking", design_ref="DESIGN.md §7 C13",
        technique="TLA+ specs RdfStore.tla (set semantics of every lookup) and MC_RdfIndex.tla (index mechanism mirrors the set, model-checked by TLC); recorded histories of the real RdfStore validated by TLC with the full projection after every call; SparqlSem.tla, an executable definition of the SPARQL algebra, evaluated by TLC as the oracle for generated queries and updates run through execute_sparql",
        text="TLC checks that the subject/predicate/object index mechanism mirrors the set over all histories of the bounded model; every call result and the complete projection (find for all 48 bound/unbound patterns, triples_with_*, term listings, len, stats, contains, find_with_pending) of random insert/remove/clear/transactional-buffer histories on the real store, with and without the object index, over IRIs / blank nodes / plain, language-tagged and typed literals, is validated against the set semantics, each result once. SPARQL: histories of INSERT DATA / DELETE DATA and generated SELECT queries (1-3 triple patterns with shared variables and variable predicates, FILTER =, !=, <, >, BOUND, OPTIONAL, UNION nested to depth 2, DISTINCT, ORDER BY, LIMIT, COUNT(*)); TLC computes the solution multiset and compares.",
        note="SPARQL terms are IRIs, plain strings and small integers under a fixed predicate schema; updates are INSERT / DELETE DATA, DELETE WHERE (1-2 patterns), DELETE-INSERT-WHERE with generated templates and CLEAR; property paths, sub-queries, GRAPH, other aggregates and CONSTRUCT / ASK are not generated."),
    "C20": dict(
        engine="conc", category="model_checking", design_ref="DESIGN.md §7 C20",
        technique="TLA+ specs RdfConc / TxConc / BufMgr / LpgConc / EdgeTypes (one action per critical section) and LpgLocks (one action per lock acquisition) model-checked by TLC over all interleavings; real threads run under a yield-point controller (cfg grafeo_verif) with enumerated, random and TLC-counterexample schedules; recorded schedules validated against the specs by TLC; free-running threads (commit rounds, begin/commit/gc loops, LpgStore program rounds) judged by FcwHistory.tla / LpgConc LinObs; looping mutator pairs under a watchdog for deadlocks",
        text="TLC explores every interleaving of 2-3 threads x 2-4 operations at critical-section granularity (index/primary agreement and linearizability of the triple store, first-committer-wins and dense unique commit epochs of the transaction manager, hard limit and zero-at-end of the memory manager, linearizability / unique ids / index agreement of the property-graph store mutators, deadlock freedom of their lock scopes) and finds the counterexample schedules of the as-is switches; the same programs run on real threads under the controller, and every recorded schedule with its return values and quiescent projection is validated against the spec.",
        note="Granularity = yield points between critical sections; sequential consistency assumed. LpgLocks scopes are hand-transcribed (bound to the code by the looping stress only). Tiered-storage variants, catalog, WAL, query cache, statistics refresh and HNSW are not modelled (sub-claims uncovered)."),
    "C01": dict(
        engine="txn", category="model_checking", design_ref="DESIGN.md §7 C01",
        technique="TLA+ specs Mvcc.tla (as-is MVCC mechanism + ideal snapshot views) and RdfTx.tla (triples under transactions: buffer mechanism with deviation switches vs snapshot definition) explored by TLC; TLC-generated behaviours replayed through real sessions; recorded histories validated by TLC with every read kind of every session after every step",
        text="Every observation (label scan, unlabelled scan with projection, point lookup of every id, 1-hop expand, neighbour listings, counts) of every session after every action of thousands of generated and random multi-session histories must equal the as-is mechanism model or the ideal snapshot view; any third behaviour is a violation. Observations that equal the mechanism but not the ideal are the listed known findings (dirty reads etc.), whose witnesses are re-executed on every run.",
        note="Sessions are driven from one thread; one property key, two labels, one edge type; triples over 3 subjects x 2 predicates x 3 objects through SPARQL (INSERT / DELETE DATA, DELETE WHERE, DELETE-INSERT-WHERE, CLEAR; full dump and one triple pattern per session after every action). The tree violates C01 in the listed ways (known_findings.json); a different deviation is reported."),
    "C02": dict(
        engine="txn", category="model_checking", design_ref="DESIGN.md §7 C02",
        technique="same Mvcc.tla and RdfTx.tla machinery as C01 (TLC model checking + trace validation) with rollback / drop / refused-commit heavy histories; full dump through all access paths compared after every step",
        text="After every rollback, session drop, commit and refused commit the full projection through all access paths, for a fresh view and every open session, is validated by TLC against Mvcc.tla (mechanism or ideal); rollback residue that is not one of the listed known findings is a violation.",
        note="As C01."),
    "C05": dict(
        engine="wal", category="model_checking", design_ref="DESIGN.md §7 C05",
        technique="TLA+ spec Wal.tla model-checked by TLC (3 durability modes, rotation, checkpoints, crashes, bit flips); traces of a real persistent GrafeoDB with WAL hook events validated against it",
        text="TLC proves Consistent/RecoveryOk for the repaired WAL design on the bounded model and shows each deviation switch breaks it; close/reopen cycles with checkpoints anywhere under Sync/Batch/NoSync/Adaptive on the real database are validated event by event (per-file appended/flushed/fsynced record counts from the hook, recovered full dump = the dump of the required history position, fresh identifiers).",
        note="Prefix states are the live database's own dumps. Log rotation is exercised on the real code with the size limit lowered through the cfg(grafeo_verif) hook, in histories without close / checkpoint. Never-logged mutations are known findings with witnesses."),
    "C06": dict(
        engine="wal", category="model_checking", design_ref="DESIGN.md §7 C06",
        technique="Wal.tla crash/bit-flip actions model-checked by TLC; real crash images (every record boundary, torn records, every byte in thorough) and single-bit flips opened on copies, results validated by TLC",
        text="For every explored history and crash point the harness builds crash images between the last fsync (hook) and the on-disk length of every log file, plus single-bit corruptions, opens each, and TLC checks: open succeeds, recovered dump is the dump of a prefix, no shorter than the durable prefix, and continuation crash->open->writes->close->open stays consistent.",
        note="fsync points come from the hook; the OS is assumed to keep fsynced bytes and to lose any suffix of un-fsynced bytes. Multi-file logs (rotation every ~400 bytes through the hook) include the images of a crash inside rotate()."),
    "C03": dict(
        engine="txn", category="model_checking", design_ref="DESIGN.md §7 C03",
        technique="TLA+ spec TxManager.tla model-checked by TLC; TLC-generated behaviours replayed on the real TransactionManager and recorded traces validated against the spec by TLC",
        text="TLC exhaustively checks FCW / NoFalseRefusal / GcTransparent / EpochsUnique on the manager model (3-4 transactions, 2 entities, gc and abort anywhere); every call result and every observable (epoch, min active epoch, state of each transaction) of thousands of TLC-generated and seeded random histories executed on the real TransactionManager is validated event by event against the same spec, with the invariants evaluated in every trace state.",
        note="Sequential driving of the manager's public API; the begin/gc thread race is C20's schedule replay. Session-level write registration is checked by C01/C02's Mvcc model."),
    "C04": dict(
        engine="txn", category="model_checking", design_ref="DESIGN.md §7 C04",
        technique="TLA+ spec TxManager.tla (SSI rules, dependency-graph invariant) model-checked by TLC; trace validation of recorded record_read/record_write/commit histories",
        text="TLC checks ExactSer / NoMissedRW / NoSpuriousRefusal and that every dependency edge of the direct serialization graph follows commit order on the bounded model (all histories of 3-4 transactions incl. write-skew, lost-update and read-only-anomaly shapes); recorded all-Serializable histories from the real manager are validated against the spec and the same invariants are evaluated on every state of every trace.",
        note="Reads/writes are those registered through record_read/record_write; whether sessions register them is outside the manager (see C03 note)."),
}

REASON_PENDING = "not claimed yet in this round: specification and conformance binding for this property are designed (DESIGN.md §7) but not built; no check is registered rather than an unsound one"

ENGINES = [
    dict(name="front", path="spec/front", serves_properties=["C12"],
         kind_free_text="TLA+ QueryGen.tla (token-sequence input space, enumerated / simulated by TLC) and Trace_Front.tla (outcome judgement); harness `gv front` run as supervised child processes by checks/C12.py"),
    dict(name="exec", path="spec/exec", serves_properties=["C17"],
         kind_free_text="TLA+ ExecSem.tla (sequential meaning of operator pipelines + merge-helper definitions) evaluated by TLC; harness `gv exec` runs pull / push / spill / parallel modes"),
    dict(name="vector", path="spec/vector", serves_properties=["C18"],
         kind_free_text="TLA+ Hnsw.tla (search contract over the layered proximity graph), MC_HnswBeam.tla (beam search state machine), Trace_Hnsw.tla checked by TLC; harness `gv vec` + hook HnswIndex::verif_dump"),
    dict(name="misc", path="spec/misc", serves_properties=["C15", "C16", "C19"],
         kind_free_text="TLA+ Codec.tla / ValueLaws.tla / GraphAlgo.tla (laws and identities over recorded results, evaluated by TLC); harness `gv codec`, `gv pcol`, `gv vals`, `gv galgo`"),
    dict(name="query", path="spec/query", serves_properties=["C08", "C09", "C10", "C11"],
         kind_free_text="TLA+ QuerySem.tla (executable reference semantics) + Check_Query.tla / Metamorphic.tla evaluated by TLC; harness `gv q` / `gv qmeta` generates graphs x queries, renders GQL/Cypher, runs sessions and hand-built pipelines"),
    dict(name="store", path="spec/store", serves_properties=["C13", "C14"],
         kind_free_text="TLA+ RdfStore.tla / MC_RdfIndex.tla / SparqlSem.tla / LpgStore.tla / MC_LpgIndex.tla / Adjacency.tla (+Trace_*) checked by TLC; harness `gv rdf`, `gv sparql`, `gv lpg`, `gv adj`"),
    dict(name="conc", path="spec/conc", serves_properties=["C20", "C03"],
         kind_free_text="TLA+ per-critical-section models checked by TLC; harness `gv conc` (yield-point controller, schedule enumeration), `gv txstress` and `gv lpgstress`"),
    dict(name="wal", path="spec/wal", serves_properties=["C05", "C06"],
         kind_free_text="TLA+ Wal.tla (+Trace_Wal) checked by TLC; Rust harness `gv wal` drives a persistent GrafeoDB, reads the cfg(grafeo_verif) WAL hook, builds crash images"),
    dict(name="txn", path="spec/txn", serves_properties=["C01", "C02", "C03", "C04", "C07"],
         kind_free_text="TLA+ TxManager.tla and Mvcc.tla (+MC_/Gen_/Trace_ modules) checked by TLC; Rust harness `gv txm` records traces / replays TLC behaviours"),
]


def main():
    props = [json.loads(l) for l in open(os.path.join(VERIF, "properties.jsonl"))]
    checks = []
    for p in props:
        c = CLAIMED.get(p["id"])
        if not c:
            continue
        checks.append({
            "property_id": p["id"],
            "quick_cmd": f"bin/check {p['id']} --tier quick",
            "thorough_cmd": f"bin/check {p['id']} --tier thorough",
            "evidence_file": f"/verif/evidence/{p['id']}.json",
            "replay_cmd_template": f"bin/check {p['id']} --replay {{path}}",
            "engine": c["engine"],
            "level_claimed": {"category": c["category"], "text": c["text"], "design_ref": c["design_ref"]},
            "level_note": c["note"],
            "technique": c["technique"],
        })
    na_reasons = json.load(open(os.path.join(VERIF, "tools", "not_applicable.json")))
    na = [{"property_id": p["id"], "reason": na_reasons.get(p["id"], REASON_PENDING)} for p in props if p["id"] not in CLAIMED]
    hooks_commits = [l.strip() for l in open(os.path.join(VERIF, "tools", "hook_commits.txt")) if l.strip()]
    m = {
        "version": 1,
        "setup_cmd": "bin/setup",
        "hooks": {
            "guard": "grafeo_verif",
            "enable": "RUSTFLAGS --cfg grafeo_verif, set for the harness build in /verif/harness/.cargo/config.toml (with --check-cfg so the guard adds no warning)",
            "baseline_off_cmd": "cd /repo && cargo nextest run --workspace --no-fail-fast --offline --test-threads 8 || cargo test --workspace --no-fail-fast --offline",
            "source_commits": hooks_commits,
            "add_only": True,
        },
        "engines": ENGINES,
        "checks": checks,
        "not_applicable": na,
        "notes": "All checks are `bin/check <ID>`; each rebuilds the harness (path dependencies on /repo/crates/*) before running. Genuine defects are listed in known_findings.json (status known|fixed).",
    }
    with open(os.path.join(VERIF, "MANIFEST.json"), "w") as f:
        json.dump(m, f, indent=1)
    print(f"MANIFEST.json: {len(checks)} checks, {len(na)} not_applicable")


if __name__ == "__main__":
    main()
