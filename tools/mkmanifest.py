#!/usr/bin/env python3
"""Regenerates /verif/MANIFEST.json from the table below (one source of truth for claimed checks)."""
import json
import os

VERIF = os.path.dirname(os.path.dirname(os.path.abspath(__file__)))

CLAIMED = {
    "C03": dict(
        engine="txn", category="model_checking", design_ref="DESIGN.md §7 C03",
        technique="TLA+ spec TxManager.tla model-checked by TLC; TLC-generated behaviours replayed on the real TransactionManager and recorded traces validated against the spec by TLC",
        text="TLC exhaustively checks FCW / NoFalseRefusal / GcTransparent / EpochsUnique on the manager model (3-4 transactions, 2 entities, gc and abort anywhere); every call result and every observable (epoch, min active epoch, state of each transaction) of thousands of TLC-generated and seeded random histories executed on the real TransactionManager is validated event by event against the same spec, with the invariants evaluated in every trace state.",
        note="Sequential driving of the manager's public API; the begin/gc thread race is C20's schedule replay. Session-level write registration is checked by C01/C02's Mvcc model."),
    "C04": dict(
        engine="txn", category="model_checking", design_ref="DESIGN.md §7 C04",
        technique="TLA+ spec TxManager.tla (SSI rules, dependency-graph invariant) model-checked by TLC; trace validation of recorded record_read/record_write/commit histories",
        text="TLC checks ExactSer / NoMissedRW / NoSpuriousRefusal and that every dependency edge of the direct serialization graph follows commit order on the bounded model (all histories of 3-4 transactions incl. write-skew, lost-update and read-only-anomaly shapes); recorded all-Serializable histories from the real manager are validated against the spec and the same invariants are evaluated on every state of every trace.",
        note="Reads/writes are those registered through record_read/record_write; whether sessions register them is outside the manager (see C03 note)."),
}

REASON_PENDING = "not claimed yet in this round: specification and conformance binding for this property are designed (DESIGN.md §7) but not built; no check is registered rather than an unsound one"

ENGINES = [
    dict(name="txn", path="spec/txn", serves_properties=["C03", "C04"],
         kind_free_text="TLA+ TxManager.tla (+MC_/Gen_/Trace_ modules) checked by TLC; Rust harness `gv txm` records traces / replays TLC behaviours"),
]


def main():
    props = [json.loads(l) for l in open(os.path.join(VERIF, "properties.jsonl"))]
    checks = []
    for p in props:
        c = CLAIMED.get(p["id"])
        if not c:
            continue
        checks.append({
            "property_id": p["id"],
            "quick_cmd": f"bin/check {p['id']} --tier quick",
            "thorough_cmd": f"bin/check {p['id']} --tier thorough",
            "evidence_file": f"/verif/evidence/{p['id']}.json",
            "replay_cmd_template": f"bin/check {p['id']} --replay {{path}}",
            "engine": c["engine"],
            "level_claimed": {"category": c["category"], "text": c["text"], "design_ref": c["design_ref"]},
            "level_note": c["note"],
            "technique": c["technique"],
        })
    na_reasons = json.load(open(os.path.join(VERIF, "tools", "not_applicable.json")))
    na = [{"property_id": p["id"], "reason": na_reasons.get(p["id"], REASON_PENDING)} for p in props if p["id"] not in CLAIMED]
    hooks_commits = [l.strip() for l in open(os.path.join(VERIF, "tools", "hook_commits.txt")) if l.strip()]
    m = {
        "version": 1,
        "setup_cmd": "bin/setup",
        "hooks": {
            "guard": "grafeo_verif",
            "enable": "RUSTFLAGS --cfg grafeo_verif, set for the harness build in /verif/harness/.cargo/config.toml (with --check-cfg so the guard adds no warning)",
            "baseline_off_cmd": "cd /repo && cargo nextest run --workspace --no-fail-fast --offline --test-threads 8 || cargo test --workspace --no-fail-fast --offline",
            "source_commits": hooks_commits,
            "add_only": True,
        },
        "engines": ENGINES,
        "checks": checks,
        "not_applicable": na,
        "notes": "All checks are `bin/check <ID>`; each rebuilds the harness (path dependencies on /repo/crates/*) before running. Genuine defects are listed in known_findings.json (status known|fixed).",
    }
    with open(os.path.join(VERIF, "MANIFEST.json"), "w") as f:
        json.dump(m, f, indent=1)
    print(f"MANIFEST.json: {len(checks)} checks, {len(na)} not_applicable")


if __name__ == "__main__":
    main()
