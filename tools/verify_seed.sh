#!/bin/bash
# verify_seed.sh <worktree> <id>: confirms a seeded change in its scratch worktree (demo fails with the
# change, passes without; touched crates' existing tests pass with it), then stores it under /verif/seeded/<id>.
set -u
WT=$1; ID=$2
export CARGO_NET_OFFLINE=true
cd "$WT" || exit 2
LOG=/tmp/verify-$ID.log; : > $LOG
DEMO_CMD=$(grep -E "cargo (test|nextest)" seed/demo_path.txt | head -1 | sed -E 's/^.*(cargo (test|nextest))/\1/')
echo "demo cmd: $DEMO_CMD" >> $LOG
crates=$(grep '^+++ b/crates/' seed/patch.diff | sed 's#+++ b/crates/\([^/]*\)/.*#\1#' | sort -u)
echo "touched crates: $crates" >> $LOG
# 1. with change: demo must fail
git apply --check -R seed/patch.diff 2>>$LOG || { echo "patch not applied in worktree; applying" >> $LOG; git apply seed/patch.diff || exit 2; }
eval "$DEMO_CMD" >> $LOG 2>&1; WITH=$?
# 2. existing tests of touched crates with the change (demo file moved aside)
DEMO_FILE=$(grep -oE "crates/[a-z-]+/tests/[A-Za-z0-9_]+\.rs" seed/demo_path.txt | head -1)
[ -f "$DEMO_FILE" ] || DEMO_FILE=$(grep -oE "crates/[a-z-]+/tests/[a-z0-9_]+\.rs" seed/demo_path.txt | head -1)
mv "$DEMO_FILE" /tmp/demo-$ID.rs
SUITE=0
for c in $crates; do
  cargo test --offline -p $c -j 8 --no-fail-fast -- --test-threads 8 >> $LOG 2>&1 || SUITE=1
done
mv /tmp/demo-$ID.rs "$DEMO_FILE"
# 3. without change: demo must pass
git apply -R seed/patch.diff
eval "$DEMO_CMD" >> $LOG 2>&1; WITHOUT=$?
git apply seed/patch.diff
echo "RESULT id=$ID demo_with_change_rc=$WITH demo_without_change_rc=$WITHOUT suite_with_change_rc=$SUITE" | tee -a $LOG
if [ $WITH -ne 0 ] && [ $WITHOUT -eq 0 ] && [ $SUITE -eq 0 ]; then
  mkdir -p /verif/seeded/$ID
  cp seed/patch.diff seed/meta.json seed/demo_path.txt /verif/seeded/$ID/
  cp seed/demo.rs /verif/seeded/$ID/demo.rs
  echo "CONFIRMED $ID"
else
  echo "NOT-CONFIRMED $ID"
fi
