//! Driver/recorder for sessions + MVCC (spec/txn/Mvcc.tla, Trace_Mvcc.tla).
//! After every action every read kind is executed for every session and logged.
use crate::util::{Opts, Out};
use grafeo_common::types::{EdgeId, NodeId, Value};
use grafeo_engine::{GrafeoDB, Session};
use rand::rngs::StdRng;
use rand::{Rng, SeedableRng};
use serde_json::{json, Value as J};
use std::collections::HashMap;

pub const SESS: [&str; 3] = ["s1", "s2", "s3"];

pub struct Run {
    pub db: GrafeoDB,
    pub sess: Vec<Option<Session>>,
    pub nodes: Vec<NodeId>,
    pub edges: Vec<EdgeId>,
    nidx: HashMap<u64, usize>,
    eidx: HashMap<u64, usize>,
    pub sample_disk: bool,
}

fn si(s: &str) -> usize {
    SESS.iter().position(|x| *x == s).expect("session name")
}

fn int(v: &Value) -> i64 {
    match v {
        Value::Int64(i) => *i,
        Value::Null => 0,
        _ => -7,
    }
}

fn labcode_strs<'a>(it: impl Iterator<Item = &'a str>) -> i64 {
    let mut c = 0;
    for l in it {
        if l == "P" { c |= 1 } else if l == "Q" { c |= 2 } else { c |= 4 }
    }
    c
}

impl Run {
    pub fn new() -> Self {
        let db = GrafeoDB::new_in_memory();
        let sess = (0..SESS.len()).map(|_| Some(db.session())).collect();
        Self { db, sess, nodes: vec![], edges: vec![], nidx: HashMap::new(), eidx: HashMap::new(), sample_disk: false }
    }
    fn s(&self, i: usize) -> &Session {
        self.sess[i].as_ref().unwrap()
    }
    fn n_of(&self, id: i64) -> i64 {
        self.nidx.get(&(id as u64)).map(|x| *x as i64).unwrap_or(99)
    }
    fn e_of(&self, id: i64) -> i64 {
        self.eidx.get(&(id as u64)).map(|x| *x as i64).unwrap_or(99)
    }
    fn add_node(&mut self, id: NodeId) -> usize {
        self.nodes.push(id);
        self.nidx.insert(id.as_u64(), self.nodes.len());
        self.nodes.len()
    }
    fn add_edge(&mut self, id: EdgeId) -> usize {
        self.edges.push(id);
        self.eidx.insert(id.as_u64(), self.edges.len());
        self.edges.len()
    }
    fn q(&self, s: usize, text: &str) -> Result<Vec<Vec<Value>>, String> {
        match self.s(s).execute(text) {
            Ok(r) => Ok(r.rows.clone()),
            Err(e) => Err(e.to_string()),
        }
    }

    pub fn obs(&self) -> J {
        let mut ls = serde_json::Map::new();
        let mut as_ = serde_json::Map::new();
        let mut gt = serde_json::Map::new();
        let mut ex = serde_json::Map::new();
        let mut no = serde_json::Map::new();
        let mut ni = serde_json::Map::new();
        for (i, name) in SESS.iter().enumerate() {
            let rows = self.q(i, "MATCH (n:P) RETURN id(n), n.k").unwrap_or_default();
            ls.insert(name.to_string(), json!(rows.iter().map(|r| json!([self.n_of(int(&r[0])), int(&r[1])])).collect::<Vec<_>>()));
            let rows = self.q(i, "MATCH (n) RETURN id(n), n.k, labels(n)").unwrap_or_default();
            as_.insert(
                name.to_string(),
                json!(rows
                    .iter()
                    .map(|r| {
                        let lc = match &r[2] {
                            Value::List(l) => labcode_strs(l.iter().filter_map(|v| v.as_str())),
                            Value::Null => 9,
                            _ => 8,
                        };
                        json!([self.n_of(int(&r[0])), int(&r[1]), lc])
                    })
                    .collect::<Vec<_>>()),
            );
            let g: Vec<J> = self
                .nodes
                .iter()
                .map(|id| match self.s(i).get_node(*id) {
                    Some(n) => json!([1, n.get_property("k").map(int).unwrap_or(0), labcode_strs(n.labels.iter().map(|l| l.as_str()))]),
                    None => json!([0, 0, 0]),
                })
                .collect();
            gt.insert(name.to_string(), json!(g));
            let rows = self.q(i, "MATCH (a)-[e]->(b) RETURN id(a), id(e), id(b)").unwrap_or_default();
            ex.insert(name.to_string(), json!(rows.iter().map(|r| json!([self.n_of(int(&r[0])), self.e_of(int(&r[1])), self.n_of(int(&r[2]))])).collect::<Vec<_>>()));
            let o: Vec<J> = self.nodes.iter().map(|id| json!(self.s(i).get_neighbors_outgoing(*id).iter().map(|(n, e)| json!([self.n_of(n.as_u64() as i64), self.e_of(e.as_u64() as i64)])).collect::<Vec<_>>())).collect();
            no.insert(name.to_string(), json!(o));
            let o: Vec<J> = self.nodes.iter().map(|id| json!(self.s(i).get_neighbors_incoming(*id).iter().map(|(n, e)| json!([self.n_of(n.as_u64() as i64), self.e_of(e.as_u64() as i64)])).collect::<Vec<_>>())).collect();
            ni.insert(name.to_string(), json!(o));
        }
        // C07: copies of the database
        // (nodes, edges, outgoing adjacency [node, nbr, edge], incoming adjacency [node, nbr, edge]) of a database
        let dump_copy = |c: &GrafeoDB| -> (Vec<J>, Vec<J>, Vec<J>, Vec<J>) {
            let mut xn: Vec<J> = c.iter_nodes().map(|n| json!([self.n_of(n.id.as_u64() as i64), n.get_property("k").map(int).unwrap_or(0), labcode_strs(n.labels.iter().map(|l| l.as_str()))])).collect();
            let mut xe: Vec<J> = c.iter_edges().map(|e| json!([self.e_of(e.id.as_u64() as i64), self.n_of(e.src.as_u64() as i64), self.n_of(e.dst.as_u64() as i64)])).collect();
            let cs = c.session();
            let mut xo: Vec<J> = vec![];
            let mut xi: Vec<J> = vec![];
            for n in c.iter_nodes() {
                let me = self.n_of(n.id.as_u64() as i64);
                for (nb, e) in cs.get_neighbors_outgoing(n.id) { xo.push(json!([me, self.n_of(nb.as_u64() as i64), self.e_of(e.as_u64() as i64)])); }
                for (nb, e) in cs.get_neighbors_incoming(n.id) { xi.push(json!([me, self.n_of(nb.as_u64() as i64), self.e_of(e.as_u64() as i64)])); }
            }
            xn.sort_by_key(|v| v.to_string());
            xe.sort_by_key(|v| v.to_string());
            xo.sort_by_key(|v| v.to_string());
            xi.sort_by_key(|v| v.to_string());
            (xn, xe, xo, xi)
        };
        let before = dump_copy(&self.db);
        let bytes1 = self.db.export_snapshot().unwrap_or_default();
        let bytes2 = self.db.export_snapshot().unwrap_or_default();
        let mut xok = bytes1 == bytes2;
        let (xn, xe, xo, xi) = match GrafeoDB::import_snapshot(&bytes1) {
            Ok(c) => dump_copy(&c),
            Err(_) => { xok = false; (vec![], vec![], vec![], vec![]) }
        };
        let same = |d: &(Vec<J>, Vec<J>, Vec<J>, Vec<J>)| d.0 == xn && d.1 == xe && d.2 == xo && d.3 == xi;
        match self.db.to_memory() {
            Ok(c) => { let d = dump_copy(&c); if !same(&d) { xok = false; } }
            Err(_) => xok = false,
        }
        if self.sample_disk {
            let dir = std::env::temp_dir().join(format!("gv-c07-{}", std::process::id()));
            let _ = std::fs::remove_dir_all(&dir);
            match self.db.save(&dir) {
                Ok(()) => {
                    match GrafeoDB::open(&dir) { Ok(c) => { let d = dump_copy(&c); if !same(&d) { xok = false; } let _ = c.close(); } Err(_) => xok = false }
                    match GrafeoDB::open_in_memory(&dir) { Ok(c) => { let d = dump_copy(&c); if !same(&d) { xok = false; } } Err(_) => xok = false }
                }
                Err(_) => xok = false,
            }
            let _ = std::fs::remove_dir_all(&dir);
        }
        // the source is left unchanged by all of this
        if dump_copy(&self.db) != before { xok = false; }
        json!({"ls": ls, "as": as_, "gt": gt, "ex": ex, "no": no, "ni": ni, "nc": self.db.node_count(), "ec": self.db.edge_count(),
               "xn": xn, "xe": xe, "xo": xo, "xi": xi, "xok": xok})
    }

    /// Executes one action; returns the event (with observations) or None if the action was skipped.
    pub fn step(&mut self, act: &J) -> J {
        let a = act["a"].as_str().unwrap();
        let mut ev = act.clone();
        let s = act.get("s").and_then(|x| x.as_str()).map(si).unwrap_or(0);
        match a {
            "begin" => {
                let r = self.sess[s].as_mut().unwrap().begin_tx();
                ev["r"] = json!(if r.is_ok() { "ok" } else { "err" });
            }
            "commit" => {
                let r = self.sess[s].as_mut().unwrap().commit();
                ev["r"] = json!(match &r {
                    Ok(()) => "ok",
                    Err(grafeo_common::utils::error::Error::Transaction(grafeo_common::utils::error::TransactionError::WriteConflict(_))) => "conflict",
                    Err(_) => "err",
                });
            }
            "rollback" => {
                let r = self.sess[s].as_mut().unwrap().rollback();
                ev["r"] = json!(if r.is_ok() { "ok" } else { "err" });
            }
            "drop" => {
                self.sess[s] = None;
                self.sess[s] = Some(self.db.session());
            }
            "cnode" => {
                let labels: Vec<String> = act["L"].as_array().unwrap().iter().map(|x| x.as_str().unwrap().to_string()).collect();
                let v = act["v"].as_i64().unwrap();
                let via = act.get("via").and_then(|x| x.as_str()).unwrap_or("api");
                let id = if via == "gql" {
                    let lab: String = labels.iter().map(|l| format!(":{l}")).collect();
                    let rows = self.q(s, &format!("INSERT ({lab} {{k: {v}}})")).expect("insert");
                    NodeId::new(int(&rows[0][0]) as u64)
                } else {
                    let lr: Vec<&str> = labels.iter().map(|x| x.as_str()).collect();
                    self.s(s).create_node_with_props(&lr, [("k", Value::Int64(v))])
                };
                ev["id"] = json!(self.add_node(id));
            }
            "setp" => {
                let n = self.nodes[act["n"].as_u64().unwrap() as usize - 1].as_u64();
                let v = act["v"].as_i64().unwrap();
                let lb = act["lb"].as_str().unwrap();
                let pat = if lb.is_empty() { "(n)".to_string() } else { format!("(n:{lb})") };
                let q = if v == 0 { format!("MATCH {pat} WHERE id(n) = {n} REMOVE n.k") } else { format!("MATCH {pat} WHERE id(n) = {n} SET n.k = {v}") };
                let r = self.q(s, &q);
                ev["r"] = json!(if r.is_ok() { "ok" } else { "err" });
            }
            "setl" => {
                let n = self.nodes[act["n"].as_u64().unwrap() as usize - 1].as_u64();
                let lb = act["lb"].as_str().unwrap();
                let q = if act["add"].as_bool().unwrap() { format!("MATCH (n) WHERE id(n) = {n} SET n:{lb}") } else { format!("MATCH (n) WHERE id(n) = {n} REMOVE n:{lb}") };
                let r = self.q(s, &q);
                ev["r"] = json!(if r.is_ok() { "ok" } else { "err" });
            }
            "deln" => {
                let n = self.nodes[act["n"].as_u64().unwrap() as usize - 1].as_u64();
                let r = self.q(s, &format!("MATCH (n) WHERE id(n) = {n} DETACH DELETE n"));
                ev["r"] = json!(if r.is_ok() { "ok" } else { "err" });
            }
            "cedge" => {
                let a1 = self.nodes[act["a1"].as_u64().unwrap() as usize - 1];
                let b1 = self.nodes[act["b1"].as_u64().unwrap() as usize - 1];
                let id = self.s(s).create_edge(a1, b1, "T");
                ev["id"] = json!(self.add_edge(id));
            }
            "dbdele" => {
                let e = self.edges[act["e"].as_u64().unwrap() as usize - 1];
                let r = self.db.delete_edge(e);
                ev["r"] = json!(r);
            }
            _ => panic!("unknown action {a}"),
        }
        ev["obs"] = self.obs();
        ev
    }
}

pub fn random_script(rng: &mut StdRng, len: usize, nsess: usize, max_n: usize, max_e: usize) -> Vec<J> {
    // The driver keeps only counters; all semantic bookkeeping is the spec's.
    let mut out = vec![];
    let (mut nn, mut ne) = (0usize, 0usize);
    let mut intx = vec![false; nsess];
    while out.len() < len {
        let s = rng.random_range(0..nsess);
        let sn = SESS[s];
        let roll = rng.random_range(0..100);
        if roll < 12 {
            if intx[s] { continue; }
            intx[s] = true;
            out.push(json!({"a": "begin", "s": sn}));
        } else if roll < 22 {
            if !intx[s] { continue; }
            intx[s] = false;
            out.push(json!({"a": "commit", "s": sn}));
        } else if roll < 29 {
            if !intx[s] { continue; }
            intx[s] = false;
            out.push(json!({"a": "rollback", "s": sn}));
        } else if roll < 31 {
            intx[s] = false;
            out.push(json!({"a": "drop", "s": sn}));
        } else if roll < 50 || nn == 0 {
            if nn >= max_n { continue; }
            nn += 1;
            let labs: Vec<&str> = match rng.random_range(0..4) { 0 => vec!["P"], 1 => vec!["P", "Q"], 2 => vec!["Q"], _ => vec!["P"] };
            out.push(json!({"a": "cnode", "s": sn, "L": labs, "v": rng.random_range(1..=5), "via": if rng.random_bool(0.5) { "gql" } else { "api" }}));
        } else if roll < 66 {
            let v = if rng.random_range(0..6) == 0 { 0 } else { rng.random_range(1..=5) };
            out.push(json!({"a": "setp", "s": sn, "n": rng.random_range(1..=nn), "v": v, "lb": if rng.random_bool(0.5) { "P" } else { "" }}));
        } else if roll < 74 {
            out.push(json!({"a": "setl", "s": sn, "n": rng.random_range(1..=nn), "lb": if rng.random_bool(0.5) { "P" } else { "Q" }, "add": rng.random_bool(0.5)}));
        } else if roll < 84 {
            out.push(json!({"a": "deln", "s": sn, "n": rng.random_range(1..=nn)}));
        } else if roll < 96 {
            if ne >= max_e { continue; }
            ne += 1;
            out.push(json!({"a": "cedge", "s": sn, "a1": rng.random_range(1..=nn), "b1": rng.random_range(1..=nn)}));
        } else {
            if ne == 0 { continue; }
            out.push(json!({"a": "dbdele", "e": rng.random_range(1..=ne)}));
        }
    }
    out
}

pub fn main(o: &Opts) -> i32 {
    let mut out = Out::create(&o.str("out", "trace.ndjson"));
    let mut scripts: Vec<Vec<J>> = vec![];
    if let Some(p) = o.get("script") {
        for v in crate::util::read_ndjson(p) {
            scripts.push(v.as_array().cloned().unwrap_or_default());
        }
    } else {
        let mut rng = StdRng::seed_from_u64(o.u64("seed", 1));
        for _ in 0..o.usize("traces", 50) {
            let nsess = if rng.random_bool(0.3) { 3 } else { 2 };
            scripts.push(random_script(&mut rng, o.usize("len", 25), nsess, o.usize("maxn", 6), o.usize("maxe", 6)));
        }
    }
    let mut ntr = 0;
    let disk_every = o.usize("disk-every", 0);
    for s in &scripts {
        out.emit(&json!({"a": "reset"}));
        let mut run = Run::new();
        for (ai, act) in s.iter().enumerate() {
            // save(path)+open / open_in_memory are sampled (file I/O), the in-memory copies are taken after every action
            run.sample_disk = disk_every > 0 && ai % disk_every == disk_every - 1;
            let ev = run.step(act);
            out.emit(&ev);
        }
        ntr += 1;
    }
    let n = out.n;
    out.finish();
    println!("{{\"traces\": {ntr}, \"events\": {n}}}");
    0
}
