//! LpgStore programs under controlled schedules (spec/conc/LpgConc.tla) and free-running pair stress.
//! ops: ["cn", 0|1] create node (1 = with label A) | ["dn", n] | ["al", n] | ["rl", n] (label A) | ["sp", n, v] (key k1, indexed)
//!      | ["ce", a, b] | ["de", e];  node / edge numbers are 1-based creation numbers (= raw id + 1).
use crate::conc::run_controlled;
use crate::util::{Opts, Out};
use grafeo_common::types::{EdgeId, NodeId, Value};
use grafeo_core::graph::lpg::LpgStore;
use grafeo_core::graph::Direction;
use serde_json::{json, Value as J};
use std::sync::Arc;

fn nid(j: &J) -> NodeId { NodeId::new(j.as_u64().unwrap() - 1) }
fn eid(j: &J) -> EdgeId { EdgeId::new(j.as_u64().unwrap() - 1) }

pub fn apply(st: &LpgStore, op: &J) -> J {
    match op[0].as_str().unwrap() {
        "cn" => { let id = if op[1] == 1 { st.create_node(&["A"]) } else { st.create_node(&[]) }; json!(id.as_u64() + 1) }
        "dn" => json!(st.delete_node(nid(&op[1]))),
        "al" => json!(st.add_label(nid(&op[1]), "A")),
        "rl" => json!(st.remove_label(nid(&op[1]), "A")),
        "sp" => { st.set_node_property(nid(&op[1]), "k1", Value::Int64(op[2].as_i64().unwrap())); json!(0) }
        "ce" => json!(st.create_edge(nid(&op[1]), nid(&op[2]), "T").as_u64() + 1),
        "de" => json!(st.delete_edge(eid(&op[1]))),
        // loops mode only: create a node and delete it again
        "cd" => { let id = st.create_node(&["A"]); json!(st.delete_node(id)) }
        "ced" => { let id = st.create_edge(nid(&op[1]), nid(&op[2]), "T"); json!(st.delete_edge(id)) }
        x => panic!("op {x}"),
    }
}

fn ids(v: Vec<NodeId>) -> Vec<u64> { let mut v: Vec<u64> = v.into_iter().map(|x| x.as_u64() + 1).collect(); v.sort_unstable(); v }
fn eids(it: impl Iterator<Item = (NodeId, EdgeId)>) -> Vec<u64> { let mut v: Vec<u64> = it.map(|(_, e)| e.as_u64() + 1).collect(); v.sort_unstable(); v }

/// every access path at quiescence; nn / ne = how many node / edge ids were handed out in total
pub fn obs(st: &LpgStore, nn: u64, ne: u64) -> J {
    let gn: Vec<J> = (0..nn).map(|i| match st.get_node(NodeId::new(i)) {
        Some(n) => json!([1, if n.labels.iter().any(|l| l.as_str() == "A") { 1 } else { 0 }, match n.get_property("k1") { Some(Value::Int64(v)) => *v, None => 0, _ => -7 }]),
        None => json!([0, 0, 0]),
    }).collect();
    let ge: Vec<J> = (0..ne).map(|i| match st.get_edge(EdgeId::new(i)) { Some(e) => json!([1, e.src.as_u64() + 1, e.dst.as_u64() + 1]), None => json!([0, 0, 0]) }).collect();
    let fp: Vec<Vec<u64>> = [1i64, 2, 3].iter().map(|v| ids(st.find_nodes_by_property("k1", &Value::Int64(*v)))).collect();
    let mut ebt = Vec::<u64>::new();
    for e in st.edges_with_type("T") { ebt.push(e.id.as_u64() + 1); }
    ebt.sort_unstable();
    let ety: Vec<i64> = (0..ne).map(|i| st.edge_type(EdgeId::new(i)).map(|t| (t.as_str() == "T") as i64).unwrap_or(-1)).collect();
    json!({
        "nn": nn, "ne": ne, "gn": gn, "ge": ge,
        "la": ids(st.nodes_by_label("A")), "ids": ids(st.node_ids()), "nc": st.node_count(), "ec": st.edge_count(),
        "fp": fp,
        // lookup by edge type (every edge of the programs has type T) and the edges' own type names
        "ebt": ebt,
        "ety": ety,
        "out": (0..nn).map(|i| eids(st.edges_from(NodeId::new(i), Direction::Outgoing))).collect::<Vec<_>>(),
        "inn": (0..nn).map(|i| eids(st.edges_from(NodeId::new(i), Direction::Incoming))).collect::<Vec<_>>(),
        "od": (0..nn).map(|i| st.out_degree(NodeId::new(i))).collect::<Vec<_>>(),
        "idg": (0..nn).map(|i| st.in_degree(NodeId::new(i))).collect::<Vec<_>>(),
    })
}

fn count(prog: &J, kind: &str) -> u64 {
    let c = |ops: &J| ops.as_array().unwrap().iter().filter(|o| o[0] == kind).count() as u64;
    prog["init"].as_array().map(|a| a.iter().filter(|o| o[0] == kind).count() as u64).unwrap_or(0) + prog["threads"].as_array().unwrap().iter().map(c).sum::<u64>()
}

fn fresh(prog: &J) -> Arc<LpgStore> {
    let st = Arc::new(LpgStore::new());
    st.create_property_index("k1");
    if let Some(init) = prog["init"].as_array() { for op in init { apply(&st, op); } }
    st
}

/// prog: {"init": [op, ...], "threads": [[op, ...], ...]}
pub fn run(prog: &J, chooser: &mut dyn FnMut(&[(usize, &'static str)], usize) -> usize) -> (Vec<J>, J, Vec<usize>) {
    let st = fresh(prog);
    let bodies = prog["threads"].as_array().unwrap().iter().map(|ops| {
        let ops = ops.clone();
        let s = Arc::clone(&st);
        Box::new(move || ops.as_array().unwrap().iter().map(|op| apply(&s, op)).collect::<Vec<J>>()) as Box<dyn FnOnce() -> Vec<J> + Send>
    }).collect();
    let (steps, rets, br) = run_controlled(bodies, chooser);
    (steps, json!({"a": "end", "rets": rets, "obs": obs(&st, count(prog, "cn"), count(prog, "ce"))}), br)
}

/// Free-running stress (`gv lpgstress`): each program of --progs is run --rounds times with its threads released together by a
/// barrier; every round's returns and quiescent observation are recorded (judged by Trace_LpgConc's end-state rule:
/// some sequential order explains them).  With --loops N each thread repeats its op list N times on one store without
/// recording (deadlock hunt); a watchdog reports a hang ("HANG <program>", exit code 3).
pub fn stress(o: &Opts) -> i32 {
    crate::util::silence_panics();
    let progs = crate::util::read_ndjson(&o.str("progs", "progs.ndjson"));
    let rounds = o.usize("rounds", 200);
    let loops = o.usize("loops", 0);
    let limit = std::time::Duration::from_secs(o.u64("limit", 20));
    let mut out = Out::create(&o.str("out", "trace.ndjson"));
    for p in &progs {
        let prog = p["prog"].clone();
        if loops > 0 {
            let st = fresh(&prog);
            let n = prog["threads"].as_array().unwrap().len();
            let bar = Arc::new(std::sync::Barrier::new(n));
            let (tx, rx) = std::sync::mpsc::channel();
            for ops in prog["threads"].as_array().unwrap() {
                let (ops, s, b, tx) = (ops.clone(), Arc::clone(&st), Arc::clone(&bar), tx.clone());
                std::thread::spawn(move || {
                    b.wait();
                    for _ in 0..loops { for op in ops.as_array().unwrap() { let _ = crate::util::catch(std::panic::AssertUnwindSafe(|| apply(&s, op))); } }
                    let _ = tx.send(());
                });
            }
            let t0 = std::time::Instant::now();
            let mut done = 0;
            while done < n {
                match rx.recv_timeout(limit.saturating_sub(t0.elapsed())) {
                    Ok(()) => done += 1,
                    Err(_) => { out.emit(&json!({"a": "hang", "name": p["name"], "prog": prog, "finished_threads": done})); out.finish(); println!("HANG {}", p["name"]); std::process::exit(3); }
                }
            }
            out.emit(&json!({"a": "loops", "name": p["name"], "loops": loops, "ms": t0.elapsed().as_millis() as u64}));
            continue;
        }
        // distinct outcomes only (the judge's work does not grow with the number of rounds); "times" = how often each was seen
        let mut seen: std::collections::BTreeMap<String, (J, u64)> = std::collections::BTreeMap::new();
        for _ in 0..rounds {
            let st = fresh(&prog);
            let n = prog["threads"].as_array().unwrap().len();
            let bar = Arc::new(SpinBarrier::new(n));
            let (tx, rx) = std::sync::mpsc::channel();
            for (i, ops) in prog["threads"].as_array().unwrap().iter().enumerate() {
                let (ops, s, b, tx) = (ops.clone(), Arc::clone(&st), Arc::clone(&bar), tx.clone());
                std::thread::spawn(move || {
                    b.wait();
                    let r = crate::util::catch(std::panic::AssertUnwindSafe(|| ops.as_array().unwrap().iter().map(|op| apply(&s, op)).collect::<Vec<J>>()));
                    let _ = tx.send((i, r.unwrap_or_else(|_| vec![json!({"panic": true})])));
                });
            }
            let mut rets: Vec<Vec<J>> = vec![vec![]; n];
            let t0 = std::time::Instant::now();
            for done in 0..n {
                match rx.recv_timeout(limit.saturating_sub(t0.elapsed())) {
                    Ok((i, r)) => rets[i] = r,
                    Err(_) => { out.emit(&json!({"a": "hang", "name": p["name"], "prog": prog, "finished_threads": done})); out.finish(); println!("HANG {}", p["name"]); std::process::exit(3); }
                }
            }
            let e = json!({"a": "end", "free": true, "rets": rets, "obs": obs(&st, count(&prog, "cn"), count(&prog, "ce"))});
            seen.entry(e.to_string()).or_insert((e, 0)).1 += 1;
        }
        for (_, (mut e, times)) in seen {
            e["times"] = json!(times);
            out.emit(&json!({"a": "reset", "prog": prog, "name": p["name"]}));
            out.emit(&e);
        }
    }
    let n = out.n;
    out.finish();
    println!("{{\"events\": {n}}}");
    0
}

/// all threads leave together (busy-waiting: a std Barrier wakes its waiters one after another, far apart for these short operations)
pub struct SpinBarrier { n: usize, arrived: std::sync::atomic::AtomicUsize }
impl SpinBarrier {
    pub fn new(n: usize) -> Self { Self { n, arrived: std::sync::atomic::AtomicUsize::new(0) } }
    pub fn wait(&self) {
        self.arrived.fetch_add(1, std::sync::atomic::Ordering::SeqCst);
        while self.arrived.load(std::sync::atomic::Ordering::SeqCst) < self.n { std::hint::spin_loop(); }
    }
}
