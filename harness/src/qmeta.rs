//! C11: metamorphic cases — related queries executed on one graph; only the returned rows are logged.
use crate::q::{gen_graph, gen_query, render, tagged, Graph};
use crate::util::{Opts, Out};
use grafeo_common::types::Value;
use grafeo_engine::GrafeoDB;
use rand::rngs::StdRng;
use rand::{Rng, SeedableRng};
use serde_json::{json, Value as J};

fn rows(g: &Graph, lang: &str, text: &str) -> Option<J> {
    let s = g.db.session();
    let r = crate::util::catch(std::panic::AssertUnwindSafe(|| match lang { "gql" => s.execute(text), _ => s.execute_cypher(text) })).ok()?.ok()?;
    Some(json!(r.rows.iter().map(|row| row.iter().map(tagged).collect::<Vec<_>>()).collect::<Vec<_>>()))
}

fn big_graph(n: usize) -> Graph {
    let db = GrafeoDB::new_in_memory();
    for i in 0..n {
        let mut props: Vec<(&str, Value)> = vec![("u", Value::Int64(i as i64))];
        if i % 7 != 3 { props.push(("k", Value::Int64((i % 5) as i64))); }
        db.create_node_with_props(&["A"], props);
    }
    Graph { db, json: json!({}), nnodes: n }
}

pub fn main(o: &Opts) -> i32 {
    crate::util::silence_panics();
    let mut out = Out::create(&o.str("out", "meta.ndjson"));
    let mut rng = StdRng::seed_from_u64(o.u64("seed", 1));
    let mut cid = 0usize;
    let mut emit = |out: &mut Out, mut c: J, text: String| { cid += 1; c["cid"] = json!(cid); c["text"] = json!(text); out.emit(&c); };
    let preds = ["n0.k > 1", "n0.k = 2", "n0.k <> 2", "n0.s = 'a'", "n0.k >= 1 AND n0.s <> 'b'", "n0.k < 2 OR n0.s = 'a'", "NOT (n0.k = 0)", "n0.k + 1 > 2", "n0.k IN [1, 3]", "n0.s STARTS WITH 'a'", "n0.q = 1", "n0.k * 2 = 4", "n0.k % 2 = 0"];
    let mut graphs: Vec<Graph> = (0..o.usize("graphs", 40)).map(|_| gen_graph(&mut rng, 6, 9)).collect();
    for n in [0usize, 1, 2047, 2048, 2049] { if o.flag("big") || n < 2 { graphs.push(big_graph(n)); } }
    for g in &graphs {
        let big = g.nnodes > 100;
        let pats = if big { vec!["(n0:A)"] } else { vec!["(n0)", "(n0:A)", "(n0)-[e1]->(n1)", "(n0)-[e1:T]-(n1)"] };
        for lang in ["gql", "cypher"] {
            for pat in &pats {
                let ret = if pat.contains("n1") { "id(n0), id(n1), id(e1)" } else { "id(n0), n0.k" };
                let Some(all) = rows(g, lang, &format!("MATCH {pat} RETURN {ret}")) else { continue };
                // count
                if let Some(c) = rows(g, lang, &format!("MATCH {pat} RETURN count(n0)")) {
                    if let Some(n) = c[0][0]["v"].as_i64() { emit(&mut out, json!({"kind": "count", "n": n, "rows": all, "lang": lang}), format!("MATCH {pat} RETURN count(n0)")); }
                }
                // partition
                for p in preds.iter() {
                    if big && rng.random_range(0..3) != 0 { continue; }
                    let (Some(rp), Some(rnp)) = (rows(g, lang, &format!("MATCH {pat} WHERE {p} RETURN {ret}")), rows(g, lang, &format!("MATCH {pat} WHERE NOT ({p}) RETURN {ret}"))) else { continue };
                    let ru = rows(g, lang, &format!("MATCH {pat} WHERE ({p}) IS NULL RETURN {ret}"));
                    emit(&mut out, json!({"kind": "partition", "all": all, "p": rp, "np": rnp, "hasu": ru.is_some(), "u": ru.unwrap_or(json!([])), "lang": lang}), format!("MATCH {pat} WHERE {p} RETURN {ret}"));
                }
                // distinct
                for items in ["n0.k", "n0.s", "n0.k, n0.s"] {
                    let (Some(d), Some(full)) = (rows(g, lang, &format!("MATCH {pat} RETURN DISTINCT {items}")), rows(g, lang, &format!("MATCH {pat} RETURN {items}"))) else { continue };
                    emit(&mut out, json!({"kind": "distinct", "d": d, "full": full, "lang": lang}), format!("MATCH {pat} RETURN DISTINCT {items}"));
                }
                // window over the ordered result (u is unique and present on every node)
                if !pat.contains("n1") {
                    for desc in ["", " DESC"] {
                        let Some(full) = rows(g, lang, &format!("MATCH {pat} RETURN n0.u, n0.k ORDER BY n0.u{desc}")) else { continue };
                        let n = g.nnodes as i64;
                        for (s, l) in [(0i64, 0i64), (0, 1), (1, 2), (n - 1, 3), (n, 1), (n + 1, 5), (2047, 1), (2047, 2), (2048, 1), (1, 2047), (0, 2048), (1, 2048), (0, -1), (3, -1)] {
                            if s < 0 { continue; }
                            if !big && s > n + 2 { continue; }
                            let mut t = format!("MATCH {pat} RETURN n0.u, n0.k ORDER BY n0.u{desc}");
                            if s > 0 { t += &format!(" SKIP {s}"); }
                            if l >= 0 { t += &format!(" LIMIT {l}"); }
                            let Some(win) = rows(g, lang, &t) else { continue };
                            emit(&mut out, json!({"kind": "window", "full": full, "win": win, "skip": s, "limit": l, "lang": lang}), t);
                        }
                    }
                }
                // windows without ORDER BY: any rows of the full result, but exactly the right number of them; bare variables are
                // returned (no projection materialises the chunk) and the predicates are ones a FilterOperator evaluates
                if !pat.contains("n1") {
                    for (wp, ret) in [("n0.k % 2 = 0", "n0"), ("n0.k + 0 >= 1", "n0"), ("n0.s = 'a'", "n0, n0.k"), ("n0.k > 0", "n0"), ("n0.k % 2 = 0", "id(n0)")] {
                        if big && rng.random_range(0..2) != 0 { continue; }
                        let Some(full) = rows(g, lang, &format!("MATCH {pat} WHERE {wp} RETURN {ret}")) else { continue };
                        let m = full.as_array().map(|a| a.len()).unwrap_or(0) as i64;
                        for (s, l) in [(1i64, -1i64), (2, -1), (m / 2, -1), (m - 1, -1), (m, -1), (1, 1), (2, 3), (m / 2, 2), (0, m / 2 + 1), (3, 3)] {
                            if s < 0 || (s == 0 && l < 0) { continue; }
                            let mut t = format!("MATCH {pat} WHERE {wp} RETURN {ret}");
                            if s > 0 { t += &format!(" SKIP {s}"); }
                            if l >= 0 { t += &format!(" LIMIT {l}"); }
                            let Some(win) = rows(g, lang, &t) else { continue };
                            emit(&mut out, json!({"kind": "uwindow", "full": full, "win": win, "skip": s, "limit": l, "lang": lang}), t);
                        }
                    }
                }
                // grouped aggregation: one row per distinct key, with its multiplicity (also across the 2048-row output chunk boundary)
                if !pat.contains("n1") {
                    for key in ["n0.u", "n0.k"] {
                        if big && key == "n0.k" && rng.random_bool(0.5) { continue; }
                        let (Some(gr), Some(full)) = (rows(g, lang, &format!("MATCH {pat} RETURN {key}, count(n0)")), rows(g, lang, &format!("MATCH {pat} RETURN {key}"))) else { continue };
                        emit(&mut out, json!({"kind": "groups", "g": gr, "full": full, "lang": lang}), format!("MATCH {pat} RETURN {key}, count(n0)"));
                    }
                }
                // union all
                if !big {
                    let (q1, q2) = (format!("MATCH {pat} WHERE n0.k > 1 RETURN id(n0)"), format!("MATCH {pat} WHERE n0.k < 3 RETURN id(n0)"));
                    if let (Some(a), Some(b), Some(u)) = (rows(g, lang, &q1), rows(g, lang, &q2), rows(g, lang, &format!("{q1} UNION ALL {q2}"))) {
                        emit(&mut out, json!({"kind": "union", "a": a, "b": b, "u": u, "lang": lang}), format!("{q1} UNION ALL {q2}"));
                    }
                }
            }
        }
    }
    // C09 (agree): constructs outside QuerySem's grammar must at least be answered identically under every optimizer configuration
    if o.flag("agree") {
        let fams = [
            "MATCH (a) OPTIONAL MATCH (a)-[e]->(b) RETURN id(a), id(b)",
            "MATCH (a) OPTIONAL MATCH (a)-[e]->(b) WHERE b.k IS NULL RETURN id(a), id(b)",
            "MATCH (a) OPTIONAL MATCH (a)-[e]->(b) WHERE b.k > 1 RETURN id(a), id(b)",
            "MATCH (a) OPTIONAL MATCH (a)-[e]->(b) WHERE b IS NULL RETURN id(a)",
            "MATCH (a:A) OPTIONAL MATCH (a)-[e:T]->(b) WHERE coalesce(b.k, 0) < 2 RETURN id(a), id(b)",
            "MATCH (a) OPTIONAL MATCH (a)<-[e]-(b:B) WHERE a.k > 0 RETURN id(a), id(b)",
            "MATCH (a) WITH a WHERE a.k > 1 RETURN id(a)",
            "MATCH (a)-[e]->(b) WITH a, b WHERE a.k <= b.k RETURN id(a), id(b)",
            "MATCH (a), (b) WHERE a.k = b.k AND id(a) < id(b) RETURN id(a), id(b)",
            "MATCH (a)-[e]->(b), (b)-[f]->(c) WHERE a.k > 0 RETURN id(a), id(c)",
            "MATCH (a)-[e]->(b) WHERE a.k > 1 AND b.s = 'a' RETURN a.s, count(b)",
            "UNWIND [1, 2, 3] AS x MATCH (a) WHERE a.k = x RETURN x, id(a)",
            // a WITH that re-binds a name bound further down: the WHERE of the WITH sees the new binding
            "MATCH (a)-[e]->(b) WITH b AS a WHERE a.k > 1 RETURN id(a)",
            "MATCH (a)-[e]->(b) WITH b AS a WHERE a.s = 'a' RETURN id(a)",
            "MATCH (a)-[e]->(b) WITH b AS a, a AS b WHERE a.k > b.k RETURN id(a), id(b)",
            "MATCH (a)-[e]->(b) WITH a.k AS k, b WHERE k > 1 RETURN k, id(b)",
            "MATCH (a)-[e]->(b) WITH b.k AS k, a AS b WHERE b.k > 1 RETURN k, id(b)",
            // filters above aggregation / distinct / limit stay there
            "MATCH (a)-[e]->(b) WITH a, count(b) AS c WHERE c > 1 RETURN id(a), c",
            "MATCH (a)-[e]->(b) WITH DISTINCT b WHERE b.k > 0 RETURN id(b)",
            "MATCH (a) WITH a ORDER BY id(a) LIMIT 3 WHERE a.k > 1 RETURN id(a)",
            // ... and above paging: the filter sees only the rows that SKIP lets through
            // (ORDER BY id(a) is not supported by the translators: the unique property u orders the rows)
            "MATCH (a) WITH a ORDER BY a.u LIMIT 3 WHERE a.k > 1 RETURN id(a)",
            "MATCH (a) WITH a ORDER BY a.u SKIP 1 WHERE a.k > 1 RETURN id(a)",
            "MATCH (a) WITH a ORDER BY a.u SKIP 2 WHERE a.k < 2 RETURN id(a)",
            "MATCH (a) WITH a ORDER BY a.u DESC SKIP 1 WHERE a.s = 'a' RETURN id(a)",
            "MATCH (a) WITH a ORDER BY a.u SKIP 1 LIMIT 2 WHERE a.k > 0 RETURN id(a)",
            "MATCH (a) WITH a SKIP 0 WHERE a.k > 1 RETURN id(a)",
            "UNWIND [1, 2, 3] AS x WITH x WHERE x > 1 MATCH (a) WHERE a.k = x RETURN x, id(a)",
            // patterns spread over several MATCH clauses, paths, subqueries
            "MATCH (a) MATCH (b), (c) WHERE a.k = b.k AND b.k = c.k AND id(b) < id(c) RETURN id(a), id(b), id(c)",
            "MATCH (a)-[e]->(b) MATCH (b)-[f]->(c) WHERE a.k < c.k RETURN id(a), id(c)",
            "MATCH p = (a)-[*1..2]->(b) WHERE length(p) > 1 RETURN id(a), id(b)",
            "MATCH (a) WHERE EXISTS { MATCH (a)-[e]->(b) WHERE b.k > 1 } RETURN id(a)",
        ];
        for g in graphs.iter().filter(|g| g.nnodes <= 100) {
            for lang in ["gql", "cypher"] {
                for f in fams.iter() {
                    let mut variants = vec![];
                    for cfg in [None, Some((false, false, false)), Some((true, false, false)), Some((false, true, false)), Some((false, false, true)), Some((true, true, true))] {
                        match crate::q::exec_pipeline(&g.db, lang, f, cfg, true) {
                            Ok(rs) => variants.push(json!(rs.iter().map(|row| row.iter().map(tagged).collect::<Vec<_>>()).collect::<Vec<_>>())),
                            Err(_) => {}
                        }
                    }
                    if variants.len() == 6 { emit(&mut out, json!({"kind": "agree", "variants": variants, "lang": lang}), f.to_string()); }
                }
            }
        }
    }
    // random core queries: distinct identity on generated projections
    for _ in 0..o.usize("random", 100) {
        let g = gen_graph(&mut rng, 6, 9);
        let mut q = gen_query(&mut rng, "distinct");
        // the identity compares whole results: no window
        q["skip"] = json!(0);
        q["limit"] = json!(-1);
        let mut q2 = q.clone();
        q2["distinct"] = json!(false);
        for lang in ["gql", "cypher"] {
            let (Some(t1), Some(t2)) = (render(&q, lang), render(&q2, lang)) else { continue };
            if let (Some(d), Some(full)) = (rows(&g, lang, &t1), rows(&g, lang, &t2)) {
                emit(&mut out, json!({"kind": "distinct", "d": d, "full": full, "lang": lang}), t1);
            }
        }
    }
    let n = out.n;
    out.finish();
    println!("{{\"cases\": {n}}}");
    0
}
