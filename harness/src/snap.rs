//! C07 (value fidelity + byte faults): snapshot export/import, save/open, to_memory, open_in_memory on graphs
//! carrying every value type; truncations and bit flips of valid snapshots (run in a child process: an abort
//! on a hostile length prefix must not take the harness down).
use crate::util::{Opts, Out};
use grafeo_common::types::{PropertyKey, Timestamp, Value};
use grafeo_engine::GrafeoDB;
use serde_json::json;
use std::collections::BTreeMap;
use std::io::Write;

/// Canonical bit-exact rendering of a value.
pub fn canon(v: &Value) -> String {
    match v {
        Value::Null => "null".into(),
        Value::Bool(b) => format!("b{b}"),
        Value::Int64(i) => format!("i{i}"),
        Value::Float64(f) => format!("f{:016x}", f.to_bits()),
        Value::String(s) => format!("s{:?}", s.as_str()),
        Value::Bytes(b) => format!("y{b:?}"),
        Value::Timestamp(t) => format!("t{t:?}"),
        Value::List(l) => format!("[{}]", l.iter().map(canon).collect::<Vec<_>>().join(",")),
        Value::Map(m) => format!("{{{}}}", m.iter().map(|(k, v)| format!("{}:{}", k.as_str(), canon(v))).collect::<Vec<_>>().join(",")),
        Value::Vector(x) => format!("v[{}]", x.iter().map(|f| format!("{:08x}", f.to_bits())).collect::<Vec<_>>().join(",")),
    }
}

pub fn values() -> Vec<(&'static str, Value)> {
    let mut m = BTreeMap::new();
    m.insert(PropertyKey::new("a"), Value::Int64(1));
    m.insert(PropertyKey::new("nested"), Value::List(vec![Value::Null, Value::Float64(f64::NAN)].into()));
    let mut m2 = BTreeMap::new();
    m2.insert(PropertyKey::new("inner"), Value::Map(std::sync::Arc::new(m.clone())));
    vec![
        ("null", Value::Null), ("t", Value::Bool(true)), ("f", Value::Bool(false)),
        ("i0", Value::Int64(0)), ("imin", Value::Int64(i64::MIN)), ("imax", Value::Int64(i64::MAX)), ("i53", Value::Int64((1 << 53) + 1)),
        ("f0", Value::Float64(0.0)), ("fneg0", Value::Float64(-0.0)), ("finf", Value::Float64(f64::INFINITY)), ("fninf", Value::Float64(f64::NEG_INFINITY)),
        ("fnan", Value::Float64(f64::NAN)), ("fnan2", Value::Float64(f64::from_bits(0x7ff8_0000_0000_1234))), ("fnan3", Value::Float64(f64::from_bits(0xfff0_0000_0000_0001))),
        ("fsub", Value::Float64(f64::from_bits(1))), ("fbig", Value::Float64(9007199254740993.0)), ("fpi", Value::Float64(std::f64::consts::PI)),
        ("sempty", Value::String("".into())), ("sascii", Value::String("hello".into())), ("suni", Value::String("žluťoučký 🐎 \u{0} \n".into())), ("slong", Value::String("x".repeat(70_000).into())),
        ("bempty", Value::Bytes(Vec::<u8>::new().into())), ("bytes", Value::Bytes(vec![0u8, 255, 1, 128].into())),
        ("ts0", Value::Timestamp(Timestamp::EPOCH)), ("tsneg", Value::Timestamp(Timestamp::from_micros(-1))), ("tsmax", Value::Timestamp(Timestamp::from_micros(i64::MAX))),
        ("lempty", Value::List(Vec::<Value>::new().into())), ("lmixed", Value::List(vec![Value::Int64(1), Value::String("a".into()), Value::Null, Value::List(vec![Value::Bool(true)].into())].into())),
        ("mempty", Value::Map(std::sync::Arc::new(BTreeMap::new()))), ("map", Value::Map(std::sync::Arc::new(m))), ("map2", Value::Map(std::sync::Arc::new(m2))),
        ("vempty", Value::Vector(Vec::<f32>::new().into())), ("vec", Value::Vector(vec![0.0f32, -0.0, f32::NAN, f32::INFINITY, 1.5].into())),
    ]
}

pub fn dump(db: &GrafeoDB) -> Vec<String> {
    let mut out: Vec<String> = db.iter_nodes().map(|n| {
        let mut l: Vec<String> = n.labels.iter().map(|x| x.to_string()).collect();
        l.sort();
        let mut p: Vec<String> = n.properties.iter().map(|(k, v)| format!("{}={}", k.as_str(), canon(v))).collect();
        p.sort();
        format!("N{}|{}|{}", n.id.as_u64(), l.join(","), p.join(";"))
    }).collect();
    out.extend(db.iter_edges().map(|e| {
        let mut p: Vec<String> = e.properties.iter().map(|(k, v)| format!("{}={}", k.as_str(), canon(v))).collect();
        p.sort();
        format!("E{}|{}>{}|{}|{}", e.id.as_u64(), e.src.as_u64(), e.dst.as_u64(), e.edge_type, p.join(";"))
    }));
    out.sort();
    out
}

pub fn build(variant: usize) -> GrafeoDB {
    let db = GrafeoDB::new_in_memory();
    let vals = values();
    let mut ids = vec![];
    for (i, (name, v)) in vals.iter().enumerate() {
        if variant == 1 && i % 3 == 0 { continue; }
        let labels: Vec<&str> = match i % 4 { 0 => vec![], 1 => vec!["A"], 2 => vec!["A", "B"], _ => vec!["Ünï"] };
        let id = db.create_node_with_props(&labels, [(*name, v.clone()), ("all", Value::List(vals.iter().take(i % 7).map(|x| x.1.clone()).collect::<Vec<_>>().into()))]);
        ids.push(id);
    }
    for (i, (name, v)) in vals.iter().enumerate() {
        if ids.len() < 2 { break; }
        let (a, b) = (ids[i % ids.len()], ids[(i * 7 + 1) % ids.len()]);
        // every third edge carries several properties (their order in the snapshot must not depend on the call)
        let e = if i % 3 == 0 {
            db.create_edge_with_props(a, b, if i % 2 == 0 { "T" } else { "" }, [(*name, v.clone()), ("w", Value::Int64(i as i64)), ("z", vals[(i + 5) % vals.len()].1.clone()), ("y", Value::String(format!("e{i}").into())), ("x", Value::Float64(-0.0))])
        } else {
            db.create_edge_with_props(a, b, if i % 2 == 0 { "T" } else { "" }, [(*name, v.clone())])
        };
        if i % 5 == 4 { db.delete_edge(e); }
    }
    // sparse identifiers: delete some nodes, then add more
    for i in (0..ids.len()).step_by(4) { db.delete_node(ids[i]); }
    if variant == 2 { let _ = db.create_node(&["Late"]); }
    // a committed transaction through a session
    let mut s = db.session();
    let _ = s.begin_tx();
    let _ = s.execute("INSERT (:Tx {k: 1})");
    let _ = s.commit();
    db
}

pub fn fidelity(o: &Opts) -> i32 {
    let mut out = Out::create(&o.str("out", "snap.ndjson"));
    let root = std::path::PathBuf::from(o.str("dir", "/tmp/gv-snap"));
    for variant in 0..3 {
        let db = build(variant);
        let src = dump(&db);
        let b1 = db.export_snapshot().unwrap();
        let b2 = db.export_snapshot().unwrap();
        let mut res = vec![];
        // several exports of the unchanged database: all byte-identical
        let more: Vec<Vec<u8>> = (0..6).map(|_| db.export_snapshot().unwrap()).collect();
        res.push(("export_deterministic", b1 == b2 && more.iter().all(|b| *b == b1)));
        res.push(("import", GrafeoDB::import_snapshot(&b1).map(|c| dump(&c) == src).unwrap_or(false)));
        res.push(("reexport_equal_dump", GrafeoDB::import_snapshot(&b1).ok().and_then(|c| c.export_snapshot().ok()).and_then(|b| GrafeoDB::import_snapshot(&b).ok()).map(|c| dump(&c) == src).unwrap_or(false)));
        res.push(("to_memory", db.to_memory().map(|c| dump(&c) == src).unwrap_or(false)));
        let dir = root.join(format!("v{variant}"));
        let _ = std::fs::remove_dir_all(&dir);
        let saved = db.save(&dir).is_ok();
        res.push(("save", saved));
        res.push(("open_saved", saved && GrafeoDB::open(&dir).map(|c| { let d = dump(&c) == src; let _ = c.close(); d }).unwrap_or(false)));
        res.push(("open_in_memory", saved && GrafeoDB::open_in_memory(&dir).map(|c| dump(&c) == src).unwrap_or(false)));
        res.push(("source_unchanged", dump(&db) == src));
        // ids handed out by the copy do not collide
        res.push(("copy_fresh_ids", GrafeoDB::import_snapshot(&b1).map(|c| { let before: std::collections::HashSet<u64> = c.iter_nodes().map(|n| n.id.as_u64()).collect(); let id = c.create_node(&["New"]); !before.contains(&id.as_u64()) }).unwrap_or(false)));
        let _ = std::fs::remove_dir_all(&dir);
        for (k, ok) in res {
            out.emit(&json!({"a": "fidelity", "variant": variant, "check": k, "ok": ok, "entities": src.len()}));
        }
    }
    let n = out.n;
    out.finish();
    println!("{{\"checks\": {n}}}");
    0
}

/// Child-process mode: import every corrupted snapshot listed by (variant, kind, position) range; prints one line per input BEFORE
/// touching it, so that the parent knows the culprit if this process dies.
pub fn faults(o: &Opts) -> i32 {
    crate::util::silence_panics();
    let variant = o.usize("variant", 0);
    let db = if variant == 9 { let d = GrafeoDB::new_in_memory(); d.create_node_with_props(&["A"], [("k", Value::Int64(1))]); d } else { build(variant) };
    let bytes = db.export_snapshot().unwrap();
    let kind = o.str("kind", "trunc");
    let from = o.usize("from", 0);
    let to = o.usize("to", usize::MAX).min(if kind == "trunc" { bytes.len() } else { bytes.len() * 8 });
    let step = o.usize("step", 1).max(1);
    let mut prog = std::fs::File::create(o.str("progress", "/tmp/gv-snap-progress")).unwrap();
    let mut out = Out::create(&o.str("out", "faults.ndjson"));
    let mut pos = from;
    while pos < to {
        let mut b = bytes.clone();
        if kind == "trunc" { b.truncate(pos); } else { b[pos / 8] ^= 1 << (pos % 8); }
        let _ = writeln!(prog, "{kind} {pos}");
        let _ = prog.flush();
        let r = crate::util::catch(std::panic::AssertUnwindSafe(|| GrafeoDB::import_snapshot(&b)));
        let outcome = match r {
            Err(p) => format!("panic: {}", &p[..p.len().min(80)]),
            Ok(Err(_)) => "err".to_string(),
            Ok(Ok(c)) => {
                // accepted bytes must denote a complete, self-consistent database: re-export / re-import is the identity
                let d = dump(&c);
                let again = c.export_snapshot().ok().and_then(|x| GrafeoDB::import_snapshot(&x).ok()).map(|c2| dump(&c2) == d).unwrap_or(false);
                if again { "ok".to_string() } else { "ok-not-idempotent".to_string() }
            }
        };
        out.emit(&json!({"a": "fault", "kind": kind, "pos": pos, "len": bytes.len(), "outcome": outcome}));
        pos += step;
    }
    out.finish();
    println!("{{\"len\": {}}}", bytes.len());
    0
}
