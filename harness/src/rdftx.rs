//! Driver/recorder for triples under transactions (spec/txn/RdfTx.tla, Trace_RdfTx.tla): C01 / C02, RDF part.
//! Every action is one call on a real Session (SPARQL text or begin / commit / rollback / drop); after it every
//! session is asked for the whole default graph and for one triple pattern. Triples are logged as s*100 + p*10 + o.
use crate::util::{Opts, Out};
use grafeo_common::types::Value;
use grafeo_engine::{GrafeoDB, Session};
use rand::rngs::StdRng;
use rand::{Rng, SeedableRng};
use serde_json::{json, Value as J};

pub const SESS: [&str; 3] = ["s1", "s2", "s3"];

fn si(s: &str) -> usize {
    SESS.iter().position(|x| *x == s).expect("session name")
}
fn subj(i: i64) -> String { format!("<http://x/s{i}>") }
fn pred(i: i64) -> String { format!("<http://x/p{i}>") }
fn triple_text(c: i64) -> String { format!("{} {} {}", subj(c / 100), pred((c / 10) % 10), subj(c % 10)) }
fn term_code(v: &Value, prefix: &str) -> i64 {
    match v {
        Value::String(s) => s.as_str().strip_prefix(prefix).and_then(|n| n.parse::<i64>().ok()).filter(|n| (1..=9).contains(n)).unwrap_or(0),
        _ => 0,
    }
}

pub struct Run {
    pub db: GrafeoDB,
    pub sess: Vec<Option<Session>>,
}

impl Run {
    pub fn new() -> Self {
        let db = GrafeoDB::new_in_memory();
        let sess = (0..SESS.len()).map(|_| Some(db.session())).collect();
        Self { db, sess }
    }
    fn s(&self, i: usize) -> &Session { self.sess[i].as_ref().unwrap() }
    fn run(&self, s: usize, text: &str) -> &'static str {
        match crate::util::catch(std::panic::AssertUnwindSafe(|| self.s(s).execute_sparql(text))) {
            Ok(Ok(_)) => "ok",
            Ok(Err(_)) => "err",
            Err(_) => "panic",
        }
    }
    /// the matches of pattern (ps, pp, po; 0 = variable) as session s reads them, as triple codes (-1: query failed)
    fn select(&self, s: usize, ps: i64, pp: i64, po: i64) -> Vec<i64> {
        let mut vars = vec![];
        let st = if ps == 0 { vars.push("?s"); "?s".to_string() } else { subj(ps) };
        let pt = if pp == 0 { vars.push("?p"); "?p".to_string() } else { pred(pp) };
        let ot = if po == 0 { vars.push("?o"); "?o".to_string() } else { subj(po) };
        let q = format!("SELECT {} WHERE {{ {st} {pt} {ot} }}", vars.join(" "));
        let r = match crate::util::catch(std::panic::AssertUnwindSafe(|| self.s(s).execute_sparql(&q))) {
            Ok(Ok(r)) => r,
            _ => return vec![-1],
        };
        r.rows.iter().map(|row| {
            let mut it = row.iter();
            let a = if ps == 0 { it.next().map(|v| term_code(v, "http://x/s")).unwrap_or(0) } else { ps };
            let b = if pp == 0 { it.next().map(|v| term_code(v, "http://x/p")).unwrap_or(0) } else { pp };
            let c = if po == 0 { it.next().map(|v| term_code(v, "http://x/s")).unwrap_or(0) } else { po };
            if a == 0 || b == 0 || c == 0 { 0 } else { a * 100 + b * 10 + c }
        }).collect()
    }
    fn obs(&self, qs: i64, qp: i64, qo: i64) -> J {
        let mut all = serde_json::Map::new();
        let mut pat = serde_json::Map::new();
        for (i, name) in SESS.iter().enumerate() {
            all.insert(name.to_string(), json!(self.select(i, 0, 0, 0)));
            pat.insert(name.to_string(), json!(self.select(i, qs, qp, qo)));
        }
        json!({"all": all, "pat": pat})
    }
    pub fn step(&mut self, act: &J) -> J {
        let mut ev = act.clone();
        let a = act["a"].as_str().unwrap();
        let s = si(act["s"].as_str().unwrap());
        let list = |k: &str| -> Vec<i64> { act[k].as_array().map(|v| v.iter().map(|x| x.as_i64().unwrap()).collect()).unwrap_or_default() };
        let r: &str = match a {
            "begin" => if self.sess[s].as_mut().unwrap().begin_tx().is_ok() { "ok" } else { "err" },
            "commit" => if self.sess[s].as_mut().unwrap().commit().is_ok() { "ok" } else { "err" },
            "rollback" => if self.sess[s].as_mut().unwrap().rollback().is_ok() { "ok" } else { "err" },
            "drop" => { self.sess[s] = None; self.sess[s] = Some(self.db.session()); "ok" }
            "ins" => self.run(s, &format!("INSERT DATA {{ {} }}", list("T").iter().map(|c| triple_text(*c)).collect::<Vec<_>>().join(" . "))),
            "del" => self.run(s, &format!("DELETE DATA {{ {} }}", list("T").iter().map(|c| triple_text(*c)).collect::<Vec<_>>().join(" . "))),
            "delw" => {
                let (ps, pp, po) = (act["ps"].as_i64().unwrap(), act["pp"].as_i64().unwrap(), act["po"].as_i64().unwrap());
                let st = if ps == 0 { "?s".to_string() } else { subj(ps) };
                let pt = if pp == 0 { "?p".to_string() } else { pred(pp) };
                let ot = if po == 0 { "?o".to_string() } else { subj(po) };
                self.run(s, &format!("DELETE WHERE {{ {st} {pt} {ot} }}"))
            }
            "mod" => {
                let (p1, p2) = (act["p1"].as_i64().unwrap(), act["p2"].as_i64().unwrap());
                self.run(s, &format!("DELETE {{ ?x {} ?y }} INSERT {{ ?y {} ?x }} WHERE {{ ?x {} ?y }}", pred(p1), pred(p2), pred(p1)))
            }
            "clear" => self.run(s, "CLEAR DEFAULT"),
            _ => panic!("unknown action {a}"),
        };
        ev["r"] = json!(r);
        // the pattern asked of every session after this action
        let (qs, qp, qo) = (act.get("qs").and_then(|x| x.as_i64()).unwrap_or(0), act.get("qp").and_then(|x| x.as_i64()).unwrap_or(1), act.get("qo").and_then(|x| x.as_i64()).unwrap_or(0));
        ev["qs"] = json!(qs); ev["qp"] = json!(qp); ev["qo"] = json!(qo);
        ev["obs"] = self.obs(qs, qp, qo);
        ev
    }
}

fn rnd_triple(rng: &mut StdRng, ns: i64, np: i64) -> i64 {
    rng.random_range(1..=ns) * 100 + rng.random_range(1..=np) * 10 + rng.random_range(1..=ns)
}

pub fn random_script(rng: &mut StdRng, len: usize, nsess: usize, ns: i64, np: i64) -> Vec<J> {
    let mut out = vec![];
    let mut intx = vec![false; nsess];
    while out.len() < len {
        let s = rng.random_range(0..nsess);
        let sn = SESS[s];
        let roll = rng.random_range(0..100);
        let mut e = if roll < 13 {
            if intx[s] { continue; }
            intx[s] = true;
            json!({"a": "begin", "s": sn})
        } else if roll < 23 {
            if !intx[s] { continue; }
            intx[s] = false;
            json!({"a": "commit", "s": sn})
        } else if roll < 31 {
            if !intx[s] { continue; }
            intx[s] = false;
            json!({"a": "rollback", "s": sn})
        } else if roll < 33 {
            intx[s] = false;
            json!({"a": "drop", "s": sn})
        } else if roll < 63 {
            let mut t = vec![rnd_triple(rng, ns, np)];
            if rng.random_bool(0.3) { let x = rnd_triple(rng, ns, np); if x != t[0] { t.push(x); } }
            json!({"a": "ins", "s": sn, "T": t})
        } else if roll < 78 {
            let mut t = vec![rnd_triple(rng, ns, np)];
            if rng.random_bool(0.3) { let x = rnd_triple(rng, ns, np); if x != t[0] { t.push(x); } }
            json!({"a": "del", "s": sn, "T": t})
        } else if roll < 88 {
            // at least one variable
            let (mut ps, mut pp, mut po) = (0, 0, 0);
            if rng.random_bool(0.5) { ps = rng.random_range(1..=ns); }
            if rng.random_bool(0.5) { pp = rng.random_range(1..=np); }
            if rng.random_bool(0.3) && (ps == 0 || pp == 0) { po = rng.random_range(1..=ns); }
            json!({"a": "delw", "s": sn, "ps": ps, "pp": pp, "po": po})
        } else if roll < 97 {
            json!({"a": "mod", "s": sn, "p1": rng.random_range(1..=np), "p2": rng.random_range(1..=np)})
        } else {
            json!({"a": "clear", "s": sn})
        };
        let (mut qs, mut qp, mut qo) = (0, 0, 0);
        if rng.random_bool(0.5) { qs = rng.random_range(1..=ns); }
        if rng.random_bool(0.5) { qp = rng.random_range(1..=np); }
        if rng.random_bool(0.4) && (qs == 0 || qp == 0) { qo = rng.random_range(1..=ns); }
        e["qs"] = json!(qs); e["qp"] = json!(qp); e["qo"] = json!(qo);
        out.push(e);
    }
    out
}

pub fn main(o: &Opts) -> i32 {
    crate::util::silence_panics();
    let mut out = Out::create(&o.str("out", "trace.ndjson"));
    let mut scripts: Vec<Vec<J>> = vec![];
    if let Some(p) = o.get("script") {
        for v in crate::util::read_ndjson(p) {
            scripts.push(v.as_array().cloned().unwrap_or_default());
        }
    } else {
        let mut rng = StdRng::seed_from_u64(o.u64("seed", 1));
        for _ in 0..o.usize("traces", 50) {
            let nsess = if rng.random_bool(0.3) { 3 } else { 2 };
            scripts.push(random_script(&mut rng, o.usize("len", 25), nsess, o.u64("ns", 3) as i64, o.u64("np", 2) as i64));
        }
    }
    let mut ntr = 0;
    for s in &scripts {
        out.emit(&json!({"a": "reset"}));
        let mut run = Run::new();
        for act in s {
            let ev = run.step(act);
            out.emit(&ev);
        }
        ntr += 1;
    }
    let n = out.n;
    out.finish();
    println!("{{\"traces\": {ntr}, \"events\": {n}}}");
    0
}
