//! C15 (stateful part): PropertyStorage with its hot buffer and compressed part driven through set / remove /
//! remove_all / compress_all / force_compress_all; every read after every call (spec/store/PropColumn.tla).
use crate::util::{Opts, Out};
use grafeo_common::types::{NodeId, PropertyKey, Value};
use grafeo_core::graph::lpg::{CompareOp, PropertyStorage};
use rand::rngs::StdRng;
use rand::{Rng, SeedableRng};
use serde_json::{json, Value as J};

const KEYS: [&str; 2] = ["k1", "k2"];
fn val(code: i64) -> Value {
    match code { 1..=5 => Value::Int64(code * 1000), 6 | 7 => Value::String(format!("s{code}").into()), 8 => Value::Bool(true), _ => Value::Bool(false) }
}
fn code(v: Option<Value>) -> i64 {
    match v { None => 0, Some(Value::Int64(i)) => i / 1000, Some(Value::String(s)) => s[1..].parse().unwrap_or(-1), Some(Value::Bool(true)) => 8, Some(Value::Bool(false)) => 9, _ => -1 }
}

fn obs(st: &PropertyStorage<NodeId>, nids: u64) -> J {
    let get: Vec<J> = (1..=nids).map(|i| { let mut m = serde_json::Map::new(); for k in KEYS { m.insert(k.into(), json!(code(st.get(NodeId::new(i), &PropertyKey::new(k))))); } J::Object(m) }).collect();
    let all: Vec<J> = (1..=nids).map(|i| { let a = st.get_all(NodeId::new(i)); let mut m = serde_json::Map::new(); for k in KEYS { m.insert(k.into(), json!(code(a.get(&PropertyKey::new(k)).cloned()))); } J::Object(m) }).collect();
    let mut mm = serde_json::Map::new();
    for k in KEYS { mm.insert(k.into(), json!((1..=9).map(|v| st.might_match(&PropertyKey::new(k), CompareOp::Eq, &val(v))).collect::<Vec<_>>())); }
    json!({"get": get, "all": all, "mm": mm})
}

pub fn main(o: &Opts) -> i32 {
    let mut out = Out::create(&o.str("out", "trace.ndjson"));
    let mut rng = StdRng::seed_from_u64(o.u64("seed", 1));
    let nids = o.u64("nids", 12);
    for t in 0..o.usize("traces", 30) {
        let st: PropertyStorage<NodeId> = PropertyStorage::new();
        out.emit(&json!({"a": "reset"}));
        // a per-trace dominant value class makes compression actually happen (>= 8 values of one type, few distinct values)
        let dominant: Vec<i64> = match t % 3 { 0 => vec![1, 2], 1 => vec![6, 7], _ => vec![8, 9] };
        for _ in 0..o.usize("len", 60) {
            let roll = rng.random_range(0..100);
            let i = rng.random_range(1..=nids);
            let k = KEYS[rng.random_range(0..2)];
            let mut ev = if roll < 62 {
                let v = if rng.random_range(0..10) < 8 { dominant[rng.random_range(0..dominant.len())] } else { rng.random_range(1..=9) };
                st.set(NodeId::new(i), PropertyKey::new(k), val(v));
                json!({"a": "set", "i": i, "k": k, "v": v})
            } else if roll < 74 {
                let r = st.remove(NodeId::new(i), &PropertyKey::new(k)).is_some();
                json!({"a": "remove", "i": i, "k": k, "r": r})
            } else if roll < 79 {
                st.remove_all(NodeId::new(i));
                json!({"a": "remove_all", "i": i})
            } else if roll < 92 {
                st.force_compress_all();
                json!({"a": "force_compress"})
            } else {
                st.compress_all();
                json!({"a": "compress", "mode": "None"})
            };
            ev["obs"] = obs(&st, nids);
            out.emit(&ev);
        }
    }
    let n = out.n;
    out.finish();
    println!("{{\"events\": {n}}}");
    0
}
