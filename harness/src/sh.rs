//! `gv sh`: a tiny command shell over one in-memory (or persistent) database and named sessions.
//! Used for probing and by replay files. One command per line:
//!   <sess> begin|commit|rollback|drop
//!   <sess> gql|cypher|gremlin|graphql|sparql <text>
//!   db <method> args...
use crate::util::Opts;
use crate::val;
use grafeo_engine::{GrafeoDB, Session};
use serde_json::{json, Value as J};
use std::collections::BTreeMap;

pub fn rows_json(r: &grafeo_engine::database::QueryResult) -> J {
    let rows: Vec<J> = r.rows.iter().map(|row| J::Array(row.iter().map(val::to_json).collect())).collect();
    json!({"cols": r.columns, "rows": rows})
}

pub fn exec(sess: &Session, lang: &str, q: &str) -> J {
    let r = crate::util::catch(std::panic::AssertUnwindSafe(|| match lang {
        "gql" => sess.execute(q),
        "cypher" => sess.execute_cypher(q),
        "gremlin" => sess.execute_gremlin(q),
        "graphql" => sess.execute_graphql(q),
        "sparql" => sess.execute_sparql(q),
        _ => panic!("lang"),
    }));
    match r {
        Ok(Ok(res)) => rows_json(&res),
        Ok(Err(e)) => json!({"err": format!("{e}")}),
        Err(p) => json!({"panic": p}),
    }
}

pub fn main(o: &Opts) -> i32 {
    crate::util::silence_panics();
    let text = std::fs::read_to_string(o.str("file", "/dev/stdin")).unwrap();
    let db = GrafeoDB::new_in_memory();
    let mut sessions: BTreeMap<String, Session> = BTreeMap::new();
    for line in text.lines() {
        let line = line.trim();
        if line.is_empty() || line.starts_with('#') {
            continue;
        }
        let mut it = line.splitn(3, ' ');
        let who = it.next().unwrap().to_string();
        let cmd = it.next().unwrap_or("");
        let rest = it.next().unwrap_or("");
        let out: J = if who == "db" {
            match cmd {
                "node_count" => json!(db.node_count()),
                "edge_count" => json!(db.edge_count()),
                "index" => { db.create_property_index(rest); json!("ok") }
                "dropindex" => json!(db.drop_property_index(rest)),
                "setp" => {
                    // db setp <node id> <key> <int>
                    let a: Vec<&str> = rest.split_whitespace().collect();
                    db.set_node_property(grafeo_common::types::NodeId::new(a[0].parse().unwrap()), a[1], grafeo_common::types::Value::Int64(a[2].parse().unwrap()));
                    json!("ok")
                }
                _ => json!("?"),
            }
        } else {
            if cmd == "drop" {
                sessions.remove(&who);
                println!("{line}\n  -> dropped");
                continue;
            }
            let s = sessions.entry(who.clone()).or_insert_with(|| db.session());
            match cmd {
                "begin" => json!(s.begin_tx().map_err(|e| e.to_string())),
                "begin_ser" => json!(s
                    .begin_tx_with_isolation(grafeo_engine::transaction::IsolationLevel::Serializable)
                    .map_err(|e| e.to_string())),
                "commit" => json!(s.commit().map_err(|e| e.to_string())),
                "rollback" => json!(s.rollback().map_err(|e| e.to_string())),
                l => exec(s, l, rest),
            }
        };
        println!("{line}\n  -> {out}");
    }
    0
}
