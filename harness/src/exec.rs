//! C17: one logical pipeline (filter / project / limit / skip / distinct / sort / aggregate over an integer table) is run
//! pull-based, push-based with several chunk sizes, with spilling operators under several thresholds, and — for stateless
//! chains — on the parallel pipeline with several worker counts and morsel sizes; the parallel merge helpers (sorted runs,
//! distinct sets, accumulators, folds) are run on partitions of the same table.  Every result is recorded;
//! spec/exec/ExecSem.tla holds the sequential meaning and TLC judges every run against it.
use crate::util::{catch, Opts, Out};
use grafeo_common::types::{LogicalType, Value};
use grafeo_core::execution::chunk::DataChunk;
use grafeo_core::execution::operators as pull;
use grafeo_core::execution::operators::push;
use grafeo_core::execution::operators::{Operator, OperatorResult};
use grafeo_core::execution::parallel as par;
use grafeo_core::execution::pipeline::{Pipeline, PushOperator, Source};
use grafeo_core::execution::spill::SpillManager;
use grafeo_core::execution::vector::ValueVector;
use rand::rngs::StdRng;
use rand::{Rng, SeedableRng};
use serde_json::{json, Value as J};
use std::panic::AssertUnwindSafe;
use std::sync::Arc;

pub const NULL: i64 = -999_999;
type Row = Vec<i64>;

fn v(x: i64) -> Value { if x == NULL { Value::Null } else { Value::Int64(x) } }
thread_local! { static TMODE: std::cell::Cell<u8> = const { std::cell::Cell::new(0) }; }
/// column 1 of the input table may carry another value type: 0 int, 1 string, 2 timestamp, 3 float, 4 bool
fn v1(x: i64) -> Value {
    if x == NULL { return Value::Null; }
    match TMODE.with(|t| t.get()) {
        1 => Value::String(format!("s{x:03}").into()),
        2 => Value::Timestamp(grafeo_common::types::Timestamp::from_micros(x)),
        3 => Value::Float64(x as f64),
        4 => Value::Bool(x == 1),
        5 => if x % 2 == 0 { Value::Int64(x) } else { Value::Float64(x as f64) },
        _ => Value::Int64(x),
    }
}
/// numeric canonical form: integral floats are integers; other floats in thousandths tagged by adding 10^9 (only avg produces them)
fn unv(x: &Value) -> i64 {
    match x {
        Value::Null => NULL,
        Value::Int64(i) => *i,
        Value::Float64(f) if f.fract() == 0.0 && f.abs() < 1e9 => *f as i64,
        Value::Float64(f) if f.is_finite() => 1_000_000_000 + (f * 1000.0).round() as i64,
        Value::String(t) => t.as_str().strip_prefix('s').and_then(|n| n.parse::<i64>().ok()).unwrap_or(-777_777),
        Value::Timestamp(t) => t.as_micros(),
        Value::Bool(b) => *b as i64,
        _ => -888_888,
    }
}
fn chunk_of(rows: &[Row], ncols: usize) -> DataChunk {
    let cols: Vec<ValueVector> = (0..ncols).map(|c| {
        let typed = c == 0 && TMODE.with(|t| t.get()) != 0;
        let mut vv = if typed { ValueVector::new() } else { ValueVector::with_type(LogicalType::Int64) };
        for r in rows { vv.push_value(if typed { v1(r[c]) } else { v(r[c]) }); }
        vv }).collect();
    DataChunk::new(cols)
}
fn rows_of(chunks: &[DataChunk]) -> Vec<Row> {
    let mut out = vec![];
    for ch in chunks {
        let n = ch.column_count();
        for i in ch.selected_indices() {
            out.push((0..n).map(|c| ch.column(c).and_then(|col| col.get_value(i)).map(|x| unv(&x)).unwrap_or(NULL)).collect());
        }
    }
    out
}

// ---------------------------------------------------------------- sources
struct SeqSource { rows: Vec<Row>, ncols: usize, size: usize, pos: usize, honour: bool }
impl Source for SeqSource {
    fn next_chunk(&mut self, chunk_size: usize) -> Result<Option<DataChunk>, pull::OperatorError> {
        if self.pos >= self.rows.len() { return Ok(None); }
        let n = if self.honour { self.size.min(chunk_size.max(1)) } else { self.size };
        let end = (self.pos + n).min(self.rows.len());
        let ch = chunk_of(&self.rows[self.pos..end], self.ncols);
        self.pos = end;
        Ok(Some(ch))
    }
    fn reset(&mut self) { self.pos = 0; }
    fn name(&self) -> &'static str { "SeqSource" }
}
struct ChunkOp { rows: Vec<Row>, ncols: usize, size: usize, pos: usize }
impl Operator for ChunkOp {
    fn next(&mut self) -> OperatorResult {
        if self.pos >= self.rows.len() { return Ok(None); }
        let end = (self.pos + self.size).min(self.rows.len());
        let ch = chunk_of(&self.rows[self.pos..end], self.ncols);
        self.pos = end;
        Ok(Some(ch))
    }
    fn reset(&mut self) { self.pos = 0; }
    fn name(&self) -> &'static str { "ChunkOp" }
}
/// a parallel source whose morsels may be smaller than the scheduler's configured minimum
struct SmallMorsels { inner: par::ParallelVectorSource, total: usize, morsel: usize, ncols: usize }
impl Source for SmallMorsels {
    fn next_chunk(&mut self, n: usize) -> Result<Option<DataChunk>, pull::OperatorError> { self.inner.next_chunk(n) }
    fn reset(&mut self) { self.inner.reset() }
    fn name(&self) -> &'static str { "SmallMorsels" }
}
impl par::ParallelSource for SmallMorsels {
    fn total_rows(&self) -> Option<usize> { Some(self.total) }
    fn create_partition(&self, m: &par::Morsel) -> Box<dyn Source> { self.inner.create_partition(m) }
    fn generate_morsels(&self, size: usize, sid: usize) -> Vec<par::Morsel> { par::generate_morsels(self.total, if self.morsel == 0 { size } else { self.morsel }, sid) }
    fn num_columns(&self) -> usize { self.ncols }
}

// ---------------------------------------------------------------- operator chains from the abstract description
fn cmp_push(f: &str) -> push::CompareOp { match f { "eq" => push::CompareOp::Eq, "ne" => push::CompareOp::Ne, "lt" => push::CompareOp::Lt, "le" => push::CompareOp::Le, "gt" => push::CompareOp::Gt, _ => push::CompareOp::Ge } }
fn cmp_pull(f: &str) -> pull::BinaryFilterOp { match f { "eq" => pull::BinaryFilterOp::Eq, "ne" => pull::BinaryFilterOp::Ne, "lt" => pull::BinaryFilterOp::Lt, "le" => pull::BinaryFilterOp::Le, "gt" => pull::BinaryFilterOp::Gt, _ => pull::BinaryFilterOp::Ge } }
fn pull_pred(expr: pull::FilterExpression, col: usize) -> Box<dyn pull::Predicate> {
    let mut m = std::collections::HashMap::new();
    m.insert("x".to_string(), col);
    Box::new(pull::ExpressionPredicate::new(expr, m, Arc::new(grafeo_core::graph::lpg::LpgStore::new())))
}
fn us(x: &J) -> usize { x.as_u64().unwrap() as usize }
fn push_keys(op: &J) -> Vec<push::SortKey> {
    op["keys"].as_array().unwrap().iter().map(|k| push::SortKey { column: us(&k["col"]) - 1,
        direction: if k["desc"].as_bool().unwrap() { push::SortDirection::Descending } else { push::SortDirection::Ascending },
        null_order: if k["nf"].as_bool().unwrap() { push::NullOrder::First } else { push::NullOrder::Last } }).collect()
}
fn push_aggs(op: &J) -> Vec<push::AggregateExpr> {
    op["aggs"].as_array().unwrap().iter().map(|a| { let c = us(&a["col"]); match a["f"].as_str().unwrap() {
        "count_star" => push::AggregateExpr::count_star(), "count" => push::AggregateExpr::count(c - 1), "sum" => push::AggregateExpr::sum(c - 1),
        "min" => push::AggregateExpr::min(c - 1), "max" => push::AggregateExpr::max(c - 1), _ => push::AggregateExpr::avg(c - 1) } }).collect()
}
fn push_chain(ops: &[J], spill: Option<(Arc<SpillManager>, usize)>) -> Vec<Box<dyn PushOperator>> {
    ops.iter().map(|op| -> Box<dyn PushOperator> {
        match op["op"].as_str().unwrap() {
            "filter" => Box::new(push::FilterPushOperator::column_compare(us(&op["col"]) - 1, cmp_push(op["f"].as_str().unwrap()), Value::Int64(op["v"].as_i64().unwrap()))),
            "notnull" => Box::new(push::FilterPushOperator::new(Box::new(push::NotNullPredicate::new(us(&op["col"]) - 1)))),
            "project" => Box::new(push::ProjectPushOperator::new(op["exprs"].as_array().unwrap().iter().map(|e| -> Box<dyn push::ProjectExpression> {
                match e["k"].as_str().unwrap() {
                    "col" => Box::new(push::ColumnExpr::new(us(&e["c"]) - 1)),
                    "const" => Box::new(push::ConstantExpr::new(Value::Int64(e["v"].as_i64().unwrap()))),
                    _ => Box::new(push::BinaryExpr::new(Box::new(push::ColumnExpr::new(us(&e["a"]) - 1)), Box::new(push::ColumnExpr::new(us(&e["b"]) - 1)), push::ArithOp::Add)),
                } }).collect())),
            "limit" => Box::new(push::LimitPushOperator::new(us(&op["n"]))),
            "skip" => Box::new(push::SkipPushOperator::new(us(&op["n"]))),
            "skiplimit" => Box::new(push::SkipLimitPushOperator::new(us(&op["s"]), us(&op["n"]))),
            "distinct" => if op["mat"].as_bool().unwrap_or(false) { Box::new(push::DistinctMaterializingOperator::new()) } else { Box::new(push::DistinctPushOperator::new()) },
            "sort" => match &spill { Some((m, t)) => Box::new(push::SpillableSortPushOperator::with_spilling(push_keys(op), Arc::clone(m), *t)), None => Box::new(push::SortPushOperator::new(push_keys(op))) },
            _ => { let g: Vec<usize> = op["group"].as_array().unwrap().iter().map(|c| us(c) - 1).collect();
                   match &spill { Some((m, t)) => Box::new(push::SpillableAggregatePushOperator::with_spilling(g, push_aggs(op), Arc::clone(m), *t)), None => Box::new(push::AggregatePushOperator::new(g, push_aggs(op))) } }
        }
    }).collect()
}
fn out_cols(op: &J, ncols: usize) -> usize {
    match op["op"].as_str().unwrap() { "project" => op["exprs"].as_array().unwrap().len(), "agg" => op["group"].as_array().unwrap().len() + op["aggs"].as_array().unwrap().len(), _ => ncols }
}
/// the pull-based chain; None when an operator has no pull counterpart in the description (arithmetic projection)
fn pull_chain(ops: &[J], src: Box<dyn Operator>, ncols: usize) -> Option<Box<dyn Operator>> {
    let mut cur = src;
    let mut n = ncols;
    for op in ops {
        let schema = vec![LogicalType::Any; out_cols(op, n)];
        cur = match op["op"].as_str().unwrap() {
            "filter" => Box::new(pull::FilterOperator::new(cur, pull_pred(pull::FilterExpression::Binary { left: Box::new(pull::FilterExpression::Variable("x".into())), op: cmp_pull(op["f"].as_str().unwrap()), right: Box::new(pull::FilterExpression::Literal(Value::Int64(op["v"].as_i64().unwrap()))) }, us(&op["col"]) - 1))),
            "notnull" => Box::new(pull::FilterOperator::new(cur, pull_pred(pull::FilterExpression::Unary { op: pull::UnaryFilterOp::IsNotNull, operand: Box::new(pull::FilterExpression::Variable("x".into())) }, us(&op["col"]) - 1))),
            "project" => { let mut ex = vec![]; for e in op["exprs"].as_array().unwrap() { match e["k"].as_str().unwrap() { "col" => ex.push(pull::ProjectExpr::Column(us(&e["c"]) - 1)), "const" => ex.push(pull::ProjectExpr::Constant(Value::Int64(e["v"].as_i64().unwrap()))), _ => return None } }
                           Box::new(pull::ProjectOperator::new(cur, ex, schema)) }
            "limit" => Box::new(pull::LimitOperator::new(cur, us(&op["n"]), schema)),
            "skip" => Box::new(pull::SkipOperator::new(cur, us(&op["n"]), schema)),
            "skiplimit" => Box::new(pull::LimitSkipOperator::new(cur, us(&op["s"]), us(&op["n"]), schema)),
            "distinct" => Box::new(pull::DistinctOperator::new(cur, schema)),
            "sort" => Box::new(pull::SortOperator::new(cur, op["keys"].as_array().unwrap().iter().map(|k| {
                let key = if k["desc"].as_bool().unwrap() { pull::SortKey::descending(us(&k["col"]) - 1) } else { pull::SortKey::ascending(us(&k["col"]) - 1) };
                key.with_null_order(if k["nf"].as_bool().unwrap() { pull::NullOrder::NullsFirst } else { pull::NullOrder::NullsLast }) }).collect(), schema)),
            _ => { let g: Vec<usize> = op["group"].as_array().unwrap().iter().map(|c| us(c) - 1).collect();
                   let aggs: Vec<pull::AggregateExpr> = op["aggs"].as_array().unwrap().iter().map(|a| { let c = us(&a["col"]); match a["f"].as_str().unwrap() {
                       "count_star" => pull::AggregateExpr::count_star(), "count" => pull::AggregateExpr::count(c - 1), "sum" => pull::AggregateExpr::sum(c - 1),
                       "min" => pull::AggregateExpr::min(c - 1), "max" => pull::AggregateExpr::max(c - 1), _ => pull::AggregateExpr::avg(c - 1) } }).collect();
                   if g.is_empty() { Box::new(pull::SimpleAggregateOperator::new(cur, aggs, schema)) } else { Box::new(pull::HashAggregateOperator::new(cur, g, aggs, schema)) } }
        };
        n = out_cols(op, n);
    }
    Some(cur)
}

fn files_in(dir: &std::path::Path) -> usize { std::fs::read_dir(dir).map(|d| d.count()).unwrap_or(0) }

fn run_json(name: &str, kind: &str, r: Result<Result<Vec<Row>, String>, String>, left: usize) -> J {
    match r {
        Ok(Ok(rows)) => json!({"name": name, "kind": kind, "rows": rows, "panic": false, "err": false, "left": left}),
        Ok(Err(e)) => json!({"name": name, "kind": kind, "rows": [], "panic": false, "err": true, "info": e.chars().take(200).collect::<String>(), "left": left}),
        Err(p) => json!({"name": name, "kind": kind, "rows": [], "panic": true, "err": false, "info": p.chars().take(200).collect::<String>(), "left": left}),
    }
}

fn run_case(cid: usize, rows: &[Row], ncols: usize, ops: &[J], mode: &str, big: bool, tmp: &std::path::Path) -> J {
    let mut runs = vec![];
    let n = rows.len();
    let sizes: Vec<usize> = if big { vec![2048, 1000, 4096] } else { vec![1, 2, 3, 7, n.max(1), 2048] };
    // push-based
    for (i, &sz) in sizes.iter().enumerate() {
        let honour = i % 2 == 1;
        let r = catch(AssertUnwindSafe(|| {
            let mut p = Pipeline::new(Box::new(SeqSource { rows: rows.to_vec(), ncols, size: sz, pos: 0, honour }), push_chain(ops, None), Box::new(SharedSink));
            run_push(&mut p)
        }));
        runs.push(run_json(&format!("push/chunk={sz}{}", if honour { "/hint" } else { "" }), "seq", r, 0));
    }
    // pull-based
    for &sz in &sizes {
        if let Some(_) = pull_chain(ops, Box::new(ChunkOp { rows: vec![], ncols, size: 1, pos: 0 }), ncols) {
            let r = catch(AssertUnwindSafe(|| {
                let mut op = pull_chain(ops, Box::new(ChunkOp { rows: rows.to_vec(), ncols, size: sz, pos: 0 }), ncols).unwrap();
                let mut chunks = vec![];
                loop { match op.next() { Ok(Some(c)) => chunks.push(c), Ok(None) => break, Err(e) => return Err(format!("{e}")) } }
                Ok(rows_of(&chunks))
            }));
            runs.push(run_json(&format!("pull/chunk={sz}"), "seq", r, 0));
        }
    }
    // spilling operators
    if ops.iter().any(|o| o["op"] == "sort" || o["op"] == "agg") {
        for &th in &(if big { vec![1usize, 64, 1_000_000] } else { vec![1usize, 2, 5, 1_000_000] }) {
            let dir = tmp.join(format!("c{cid}-t{th}"));
            let _ = std::fs::remove_dir_all(&dir);
            let mut left = 0;
            let r = catch(AssertUnwindSafe(|| {
                let mgr = Arc::new(SpillManager::new(&dir).map_err(|e| e.to_string())?);
                let out = {
                    let mut p = Pipeline::new(Box::new(SeqSource { rows: rows.to_vec(), ncols, size: if big { 2048 } else { 3 }, pos: 0, honour: false }), push_chain(ops, Some((Arc::clone(&mgr), th))), Box::new(SharedSink));
                    run_push(&mut p)
                };
                drop(mgr);
                out
            }));
            left = left.max(files_in(&dir));
            let _ = std::fs::remove_dir_all(&dir);
            runs.push(run_json(&format!("spill/threshold={th}"), "seq", r, left));
        }
    }
    // parallel pipeline (stateless chains only: per-worker operator state is not merged by ParallelPipeline itself)
    if ops.iter().all(|o| matches!(o["op"].as_str().unwrap(), "filter" | "notnull" | "project")) {
        let combos: Vec<(usize, usize)> = if big { vec![(1, 0), (2, 0), (16, 0), (3, 1024), (8, 1500)] } else { vec![(1, 1), (2, 1), (3, 2), (16, 3), (4, 1000), (2, 0)] };
        for (w, morsel) in combos {
            let r = catch(AssertUnwindSafe(|| {
                let cols: Vec<Vec<Value>> = (0..ncols).map(|c| rows.iter().map(|r| if c == 0 { v1(r[c]) } else { v(r[c]) }).collect()).collect();
                let src: Arc<dyn par::ParallelSource> = Arc::new(SmallMorsels { inner: par::ParallelVectorSource::new(cols), total: n, morsel, ncols });
                let ops_owned: Vec<J> = ops.to_vec();
                let mut fac = par::CloneableOperatorFactory::new();
                for i in 0..ops_owned.len() { let o = ops_owned.clone(); fac = fac.with_operator(move || push_chain(&o[i..i + 1], None).pop().unwrap()); }
                let cfg = par::ParallelPipelineConfig { num_workers: w, chunk_size: if big { 2048 } else { 2 }, pressure_level: if morsel == 0 && big { grafeo_common::memory::buffer::PressureLevel::Critical } else { grafeo_common::memory::buffer::PressureLevel::Normal }, ..Default::default() };
                let res = par::ParallelPipeline::new(src, Arc::new(fac), cfg).execute().map_err(|e| format!("{e}"))?;
                if res.rows_processed != n { return Err(format!("rows_processed {} != {}", res.rows_processed, n)); }
                Ok(rows_of(&res.chunks))
            }));
            runs.push(run_json(&format!("parallel/workers={w}/morsel={morsel}"), "par", r, 0));
        }
    }
    json!({"cid": cid, "k": "pipeline", "ncols": ncols, "rows": if big { json!([]) } else { json!(rows) }, "nrows": n, "ops": ops, "mode": mode, "big": big, "runs": runs})
}

/// runs a push pipeline whose sink is a CollectorSink and returns the collected rows
fn run_push(p: &mut Pipeline) -> Result<Vec<Row>, String> {
    // Pipeline owns its sink; swap it out afterwards through a collecting wrapper
    COLLECTED.with(|c| c.borrow_mut().clear());
    p.execute().map_err(|e| format!("{e}"))?;
    Ok(rows_of(&take_sink(p)))
}

// The Pipeline API gives no access to its sink, so the sink shares its buffer with the harness.
thread_local! { static COLLECTED: std::cell::RefCell<Vec<DataChunk>> = const { std::cell::RefCell::new(Vec::new()) }; }
fn take_sink(_p: &mut Pipeline) -> Vec<DataChunk> { COLLECTED.with(|c| std::mem::take(&mut *c.borrow_mut())) }

pub struct SharedSink;
impl grafeo_core::execution::pipeline::Sink for SharedSink {
    fn consume(&mut self, chunk: DataChunk) -> Result<bool, pull::OperatorError> { COLLECTED.with(|c| c.borrow_mut().push(chunk)); Ok(true) }
    fn finalize(&mut self) -> Result<(), pull::OperatorError> { Ok(()) }
    fn name(&self) -> &'static str { "SharedSink" }
}

// ---------------------------------------------------------------- merge helpers on partitions
fn merge_case(cid: usize, rows: &[Row], ncols: usize, rng: &mut StdRng) -> J {
    let n = rows.len();
    let parts = rng.random_range(1..=4usize);
    let mut cuts: Vec<usize> = (0..parts - 1).map(|_| rng.random_range(0..=n)).collect();
    cuts.sort();
    let mut bounds = vec![0];
    bounds.extend(cuts);
    bounds.push(n);
    let partitions: Vec<Vec<Row>> = bounds.windows(2).map(|w| rows[w[0]..w[1]].to_vec()).collect();
    let desc = rng.random_bool(0.5);
    let mut c = json!({"cid": cid, "k": "merge", "ncols": ncols, "rows": rows, "parts": partitions, "desc": desc});
    let r = catch(AssertUnwindSafe(|| {
        let mut out = serde_json::Map::new();
        // sorted runs: each partition sorted by the engine's own push sort on (col1, unique col), then merged
        let keys = vec![if desc { par::SortKey::descending(0) } else { par::SortKey::ascending(0) }, par::SortKey::ascending(ncols - 1)];
        let sort_op = json!([{"op": "sort", "keys": [{"col": 1, "desc": desc, "nf": desc}, {"col": ncols, "desc": false, "nf": false}]}]);
        let sorted = |rows: &[Row]| -> Result<Vec<Row>, String> {
            let mut p = Pipeline::new(Box::new(SeqSource { rows: rows.to_vec(), ncols, size: 2, pos: 0, honour: false }), push_chain(sort_op.as_array().unwrap(), None), Box::new(SharedSink));
            run_push(&mut p)
        };
        let run_rows: Vec<Vec<Row>> = partitions.iter().map(|p| sorted(p).expect("sort")).collect();
        let runs: Vec<Vec<Vec<Value>>> = run_rows.iter().map(|pr| pr.iter().map(|r| r.iter().map(|x| v(*x)).collect()).collect()).collect();
        out.insert("runs".into(), json!(run_rows));
        out.insert("whole".into(), json!(sorted(rows).expect("sort")));
        match par::merge_sorted_runs(runs.clone(), &keys) {
            Ok(merged) => { out.insert("merged".into(), json!(merged.iter().map(|row| row.iter().map(unv).collect::<Vec<_>>()).collect::<Vec<_>>())); }
            Err(e) => { out.insert("merged".into(), json!([[-1]])); out.insert("merged_err".into(), json!(format!("{e}"))); }
        }
        let run_chunks: Vec<Vec<DataChunk>> = runs.iter().map(|r| { let rr: Vec<Row> = r.iter().map(|row| row.iter().map(unv).collect()).collect(); rr.chunks(2).map(|c| chunk_of(c, ncols)).collect() }).collect();
        match par::merge_sorted_chunks(run_chunks, &keys, 3) { Ok(ch) => { out.insert("merged_chunks".into(), json!(rows_of(&ch))); } Err(e) => { out.insert("merged_chunks_err".into(), json!(format!("{e}"))); out.insert("merged_chunks".into(), json!([[-1]])); } }
        // distinct sets
        let dparts: Vec<Vec<DataChunk>> = partitions.iter().map(|p| {
            let proj: Vec<Row> = p.iter().map(|r| vec![r[0], r[1]]).collect();
            let mut seen = std::collections::HashSet::new();
            let d: Vec<Row> = proj.into_iter().filter(|r| seen.insert(r.clone())).collect();
            d.chunks(2).map(|c| chunk_of(c, 2)).collect()
        }).collect();
        match par::merge_distinct_results(dparts) { Ok(ch) => { out.insert("distinct".into(), json!(rows_of(&ch))); } Err(e) => { out.insert("distinct".into(), json!([[-1]])); out.insert("distinct_err".into(), json!(format!("{e}"))); } }
        // accumulators over column 2
        let mut total = par::MergeableAccumulator::new();
        for p in &partitions { let mut a = par::MergeableAccumulator::new(); for r in p { a.add(&v(r[1])); } total.merge(&a); }
        out.insert("acc".into(), json!({"count": unv(&total.finalize_count()), "sum": unv(&total.finalize_sum()), "min": unv(&total.finalize_min()), "max": unv(&total.finalize_max()), "avg": unv(&total.finalize_avg())}));
        // folds
        let vals: Vec<i64> = rows.iter().map(|r| r[1]).filter(|x| *x != NULL).collect();
        use rayon::prelude::*;
        let st = par::parallel_stats(vals.clone().into_par_iter(), |x| *x as f64);
        out.insert("fold".into(), json!({"count": par::parallel_count(vals.clone().into_par_iter(), |x| *x > 0), "sum": par::parallel_sum_i64(vals.clone().into_par_iter(), |x| *x),
            "min": par::parallel_min(vals.clone().into_par_iter(), |x| *x).unwrap_or(NULL), "max": par::parallel_max(vals.clone().into_par_iter(), |x| *x).unwrap_or(NULL),
            "stats": [st.0 as i64, st.1 as i64, st.2.map(|x| x as i64).unwrap_or(NULL), st.3.map(|x| x as i64).unwrap_or(NULL)]}));
        // morsel generation
        let ms = rng.random_range(1..=n.max(1) + 2);
        let morsels = par::generate_morsels(n, ms, 0);
        out.insert("morsels".into(), json!({"size": ms, "ranges": morsels.iter().map(|m| vec![m.start_row, m.end_row]).collect::<Vec<_>>()}));
        out
    }));
    match r { Ok(m) => { for (k, x) in m { c[k] = x; } c["panic"] = json!(false); } Err(p) => { c["panic"] = json!(true); c["info"] = json!(p.chars().take(200).collect::<String>()); } }
    c
}

// ---------------------------------------------------------------- joins
fn join_type(t: &str) -> pull::JoinType {
    match t { "inner" => pull::JoinType::Inner, "left" => pull::JoinType::Left, "right" => pull::JoinType::Right, "full" => pull::JoinType::Full,
              "cross" => pull::JoinType::Cross, "semi" => pull::JoinType::Semi, _ => pull::JoinType::Anti }
}
/// One join of L and R (rows [key, value, unique id >= 1]) by one operator under several chunkings of both inputs.
/// Every result row is recorded as lid * 10000 + rid (0 for a NULL-extended side), sorted.
fn join_case(cid: usize, l: &[Row], r: &[Row], jt: &str, big: bool, rng: &mut StdRng) -> J {
    let nullkeys = l.iter().chain(r.iter()).any(|x| x[0] == NULL);
    let mut c = json!({"cid": cid, "k": "join", "type": jt, "L": l, "R": r, "nullkeys": nullkeys, "big": big});
    let (n, m) = (l.len().max(1), r.len().max(1));
    let mut chunkings: Vec<(usize, usize)> = vec![(n, m), (1, 1), (2, 3), (7, 2), (3, m), (n, 1)];
    if big { chunkings = vec![(n, m), (2048, m), (1000, 2), (500, m), (64, 1), (2047, m), (n, 1)]; }
    chunkings.push((rng.random_range(1..=n), rng.random_range(1..=m)));
    chunkings.dedup();
    let ops: Vec<&str> = match jt { "cross" => vec!["nl"], "left" | "inner" => vec!["hash", "nl"], _ => vec!["hash"] };
    let wide = !matches!(jt, "semi" | "anti");
    let schema: Vec<LogicalType> = (0..if wide { 6 } else { 3 }).map(|_| LogicalType::Int64).collect();
    let res = catch(AssertUnwindSafe(|| {
        let mut runs = vec![];
        for op in &ops {
            for (ls, rs) in &chunkings {
                let left: Box<dyn Operator> = Box::new(ChunkOp { rows: l.to_vec(), ncols: 3, size: *ls, pos: 0 });
                let right: Box<dyn Operator> = Box::new(ChunkOp { rows: r.to_vec(), ncols: 3, size: *rs, pos: 0 });
                let mut j: Box<dyn Operator> = if *op == "hash" {
                    Box::new(pull::HashJoinOperator::new(left, right, vec![0], vec![0], join_type(jt), schema.clone()))
                } else {
                    let cond: Option<Box<dyn pull::JoinCondition>> = if jt == "cross" { None } else { Some(Box::new(pull::EqualityCondition::new(0, 0))) };
                    Box::new(pull::NestedLoopJoinOperator::new(left, right, cond, join_type(jt), schema.clone()))
                };
                let name = format!("{op}/{ls}x{rs}");
                let mut chunks = vec![];
                let mut err = false;
                loop { match j.next() { Ok(Some(ch)) => chunks.push(ch), Ok(None) => break, Err(_) => { err = true; break; } } }
                let rows = rows_of(&chunks);
                let mut cols_ok = true;
                let mut codes: Vec<i64> = rows.iter().map(|row| {
                    let lid = if row[2] == NULL { 0 } else { row[2] };
                    let rid = if wide && row.len() >= 6 && row[5] != NULL { row[5] } else { 0 };
                    // every cell is the cell of the source row named by the id (or NULL on the extended side)
                    let lsrc = if lid > 0 { l.get(lid as usize - 1).cloned() } else { None };
                    let rsrc = if rid > 0 { r.get(rid as usize - 1).cloned() } else { None };
                    let want_l = lsrc.unwrap_or(vec![NULL, NULL, NULL]);
                    if row[..3] != want_l[..] { cols_ok = false; }
                    if wide { let want_r = rsrc.unwrap_or(vec![NULL, NULL, NULL]); if row.len() != 6 || row[3..6] != want_r[..] { cols_ok = false; } } else if row.len() != 3 { cols_ok = false; }
                    lid * 10000 + rid
                }).collect();
                codes.sort();
                runs.push(json!({"name": name, "op": op, "err": err, "cols_ok": cols_ok, "codes": codes}));
            }
        }
        runs
    }));
    match res { Ok(runs) => { c["runs"] = json!(runs); c["panic"] = json!(false); } Err(p) => { c["runs"] = json!([]); c["panic"] = json!(true); c["info"] = json!(p.chars().take(200).collect::<String>()); } }
    c
}
fn gen_join_table(rng: &mut StdRng, n: usize, dom: i64, nulls: bool) -> Vec<Row> {
    (0..n).map(|i| vec![if nulls && rng.random_bool(0.15) { NULL } else { rng.random_range(0..dom) }, rng.random_range(-20..=20), i as i64 + 1]).collect()
}

// ---------------------------------------------------------------- generators
fn gen_table(rng: &mut StdRng, n: usize) -> Vec<Row> {
    let dom = rng.random_range(1..=5i64);
    (0..n).map(|i| vec![
        if rng.random_bool(0.15) { NULL } else { rng.random_range(0..dom) },
        if rng.random_bool(0.15) { NULL } else { rng.random_range(-20..=20) },
        i as i64 + 1,
    ]).collect()
}
fn gen_ops(rng: &mut StdRng, n: usize, typed: bool, tmode: u8) -> (Vec<J>, &'static str) {
    let mut ops = vec![];
    let mut mode = "seq";
    for _ in 0..rng.random_range(0..=2) {
        if rng.random_bool(0.8) {
            let col = rng.random_range(if typed { 2 } else { 1 }..=3usize);
            let vv = if col == 3 { rng.random_range(0..=n as i64 + 1) } else if col == 1 { rng.random_range(0..5) } else { rng.random_range(-20..=20) };
            let f = ["eq", "ne", "lt", "le", "gt", "ge"][rng.random_range(0..6)];
            ops.push(json!({"op": "filter", "col": col, "f": f, "v": vv}));
        } else { ops.push(json!({"op": "notnull", "col": rng.random_range(1..=2)})); }
    }
    let mut ncols = 3;
    let limit_n = |rng: &mut StdRng| -> usize { [0, 1, 2, 3, 5, n / 2, n, n + 3][rng.random_range(0..8)] };
    match rng.random_range(0..7) {
        0 => {}
        1 => { ops.push(json!({"op": "project", "exprs": [{"k": "col", "c": 1}, {"k": "col", "c": 2}]})); ncols = 2; ops.push(json!({"op": "distinct", "mat": rng.random_bool(0.3)})); }
        2 | 3 => {
            let mut keys = vec![];
            for c in (if tmode == 2 { 2 } else { 1 })..=2 { if rng.random_bool(0.6) { keys.push(json!({"col": c, "desc": rng.random_bool(0.5), "nf": rng.random_bool(0.5)})); } }
            keys.push(json!({"col": 3, "desc": rng.random_bool(0.3), "nf": false}));
            ops.push(json!({"op": "sort", "keys": keys}));
        }
        4 | 5 => {
            let group: Vec<usize> = if rng.random_bool(0.25) { vec![] } else if rng.random_bool(0.2) { vec![1, 2] } else { vec![1] };
            let mut aggs = vec![json!({"f": "count_star", "col": 1})];
            for f in ["count", "sum", "min", "max", "avg"] { if rng.random_bool(0.5) { aggs.push(json!({"f": f, "col": 2})); } }
            ncols = group.len() + aggs.len();
            ops.push(json!({"op": "agg", "group": group, "aggs": aggs}));
            mode = "bag";
        }
        _ => {}
    }
    if mode == "seq" {
        match rng.random_range(0..6) {
            0 => ops.push(json!({"op": "limit", "n": limit_n(rng)})),
            1 => ops.push(json!({"op": "skip", "n": limit_n(rng)})),
            2 => ops.push(json!({"op": "skiplimit", "s": limit_n(rng), "n": limit_n(rng)})),
            _ => {}
        }
        if rng.random_bool(0.3) {
            let mut ex = vec![json!({"k": "col", "c": ncols}), json!({"k": "const", "v": 7})];
            if rng.random_bool(0.5) && ncols >= 2 && !typed { ex.push(json!({"k": "add", "a": 1, "b": 2})); }
            ops.push(json!({"op": "project", "exprs": ex}));
        }
    }
    (ops, mode)
}

pub fn main(o: &Opts) -> i32 {
    crate::util::silence_panics();
    let mut out = Out::create(&o.str("out", "exec.ndjson"));
    let mut rng = StdRng::seed_from_u64(o.u64("seed", 1));
    let tmp = std::path::PathBuf::from(o.str("dir", "/tmp/gv-exec"));
    let _ = std::fs::create_dir_all(&tmp);
    let mut cid = 0;
    for _ in 0..o.usize("cases", 200) {
        cid += 1;
        let n = [0usize, 1, 2, 3, 4, 5, 6, 7, 8, 9, 12, 16, 25][rng.random_range(0..13)];
        let rows = gen_table(&mut rng, n);
        let tmode = if rng.random_bool(o.usize("typedpct", 30) as f64 / 100.0) { rng.random_range(1..=5u8) } else { 0 };
        let rows: Vec<Row> = if tmode == 4 { rows.into_iter().map(|mut r| { if r[0] != NULL { r[0] %= 2; } r }).collect() } else { rows };
        TMODE.with(|t| t.set(tmode));
        let (ops, mode) = gen_ops(&mut rng, n, tmode != 0, tmode);
        let mut c = run_case(cid, &rows, 3, &ops, mode, false, &tmp);
        c["tmode"] = json!(tmode);
        TMODE.with(|t| t.set(0));
        out.emit(&c);
    }
    for _ in 0..o.usize("big", 6) {
        cid += 1;
        let n = [1023usize, 1024, 1025, 2047, 2048, 2049, 3000, 4097][rng.random_range(0..8)];
        let rows = gen_table(&mut rng, n);
        let (ops, mode) = gen_ops(&mut rng, n, false, 0);
        out.emit(&run_case(cid, &rows, 3, &ops, mode, true, &tmp));
    }
    for _ in 0..o.usize("merges", 100) {
        cid += 1;
        let n = rng.random_range(0..=14usize);
        let mut rows = gen_table(&mut rng, n);
        if rng.random_bool(0.3) {
            // rows whose cells differ only in where the NULL sits (and zero values)
            let k = rows.len() as i64;
            rows.push(vec![NULL, 0, k + 1]);
            rows.push(vec![0, NULL, k + 2]);
            rows.push(vec![0, 0, k + 3]);
        }
        out.emit(&merge_case(cid, &rows, 3, &mut rng));
    }
    let jtypes = ["inner", "left", "right", "full", "cross", "semi", "anti", "left", "inner"];
    for _ in 0..o.usize("joins", 60) {
        cid += 1;
        let dom = rng.random_range(1..=5i64);
        let nulls = rng.random_bool(0.3);
        let l = { let n = rng.random_range(0..=9usize); gen_join_table(&mut rng, n, dom, nulls) };
        let r = { let n = rng.random_range(0..=7usize); gen_join_table(&mut rng, n, dom, nulls) };
        let jt = jtypes[rng.random_range(0..jtypes.len())];
        out.emit(&join_case(cid, &l, &r, jt, false, &mut rng));
    }
    // output larger than one 2048-row chunk: many left rows, some unmatched, some with several matches
    for _ in 0..o.usize("bigjoins", 4) {
        cid += 1;
        let n = [2040usize, 2048, 2100, 3000, 4100][rng.random_range(0..5)];
        let dom = rng.random_range(2..=6i64);
        let l = gen_join_table(&mut rng, n, dom, false);
        // the right side misses about half of the keys (unmatched left rows next to matched ones at every chunk
        // boundary of the output) and repeats others (fan-out)
        let m = rng.random_range(1..=4usize);
        let r: Vec<Row> = (0..m).map(|i| vec![rng.random_range(0..(dom + 1) / 2), rng.random_range(-20..=20), i as i64 + 1]).collect();
        let jt = ["left", "inner", "left", "full", "semi", "left"][rng.random_range(0..6)];
        out.emit(&join_case(cid, &l, &r, jt, true, &mut rng));
    }
    // left joins whose output alternates matched / NULL-extended rows, so that every 2048-row boundary of the output is
    // met in each phase (row kind at the boundary x row kind after it), for fan-outs 1..3
    if o.usize("bigjoins", 4) > 0 {
        for parity in 0..2i64 {
            for fan in 1..=3usize {
                cid += 1;
                let l: Vec<Row> = (0..4100).map(|i| vec![(i as i64 + parity) % 2, rng.random_range(-20..=20), i as i64 + 1]).collect();
                let r: Vec<Row> = (0..fan).map(|i| vec![0, rng.random_range(-20..=20), i as i64 + 1]).collect();
                out.emit(&join_case(cid, &l, &r, "left", true, &mut rng));
            }
        }
    }
    let _ = std::fs::remove_dir_all(&tmp);
    let n = out.n;
    out.finish();
    println!("{{\"cases\": {n}}}");
    0
}
