//! Driver/recorder for `TransactionManager` (spec/txn/TxManager.tla, Trace_TxManager.tla).
//! Executes action scripts (random or TLC-generated) through the public API and logs, per call,
//! the result class and the observable state (epoch, min active epoch, active count, state of every tx).
use crate::util::{Opts, Out};
use grafeo_common::types::{EdgeId, NodeId, TxId};
use grafeo_common::utils::error::{Error, TransactionError};
use grafeo_engine::transaction::{EntityId, IsolationLevel, TransactionManager, TxState};
use rand::rngs::StdRng;
use rand::{Rng, SeedableRng};
use serde_json::{json, Value};

fn ent(name: &str) -> EntityId {
    let n: u64 = name[1..].parse().unwrap();
    if name.starts_with('n') { EntityId::Node(NodeId::new(n)) } else { EntityId::Edge(EdgeId::new(n)) }
}

fn iso(s: &str) -> IsolationLevel {
    match s {
        "RC" => IsolationLevel::ReadCommitted,
        "SI" => IsolationLevel::SnapshotIsolation,
        _ => IsolationLevel::Serializable,
    }
}

fn errclass(e: &Error) -> &'static str {
    match e {
        Error::Transaction(TransactionError::WriteConflict(_)) => "ww",
        Error::Transaction(TransactionError::SerializationFailure(_)) => "rw",
        Error::Transaction(TransactionError::InvalidState(_)) => "invalid",
        _ => "other",
    }
}

struct Run {
    mgr: TransactionManager,
    ids: Vec<TxId>,
}

impl Run {
    fn new() -> Self {
        Self { mgr: TransactionManager::new(), ids: vec![] }
    }
    fn obs(&self) -> Value {
        let st: Vec<&str> = self
            .ids
            .iter()
            .map(|id| match self.mgr.state(*id) {
                Some(TxState::Active) => "active",
                Some(TxState::Committed) => "committed",
                Some(TxState::Aborted) => "aborted",
                None => "none",
            })
            .collect();
        json!({"epoch": self.mgr.current_epoch().as_u64(), "minact": self.mgr.min_active_epoch().as_u64(),
               "nact": self.mgr.active_count(), "st": st})
    }
    /// Executes one action (fields a,t,e,iso) and returns the trace event.
    fn step(&mut self, act: &Value) -> Value {
        let a = act["a"].as_str().unwrap();
        let t = act["t"].as_u64().unwrap_or(0) as usize;
        let mut ev = json!({"a": a});
        match a {
            "begin" => {
                let lvl = act["iso"].as_str().unwrap();
                let id = self.mgr.begin_with_isolation(iso(lvl));
                self.ids.push(id);
                ev["t"] = json!(self.ids.len());
                ev["iso"] = json!(lvl);
                ev["start"] = json!(self.mgr.start_epoch(id).map(|e| e.as_u64()).unwrap_or(9999));
            }
            "recw" | "recr" => {
                let e = act["e"].as_str().unwrap();
                let id = self.ids[t - 1];
                let r = if a == "recw" { self.mgr.record_write(id, ent(e)) } else { self.mgr.record_read(id, ent(e)) };
                ev["t"] = json!(t);
                ev["e"] = json!(e);
                ev["r"] = json!(match &r { Ok(()) => "ok", Err(x) => errclass(x) });
            }
            "commit" => {
                let id = self.ids[t - 1];
                let r = self.mgr.commit(id);
                ev["t"] = json!(t);
                match &r {
                    Ok(ep) => { ev["r"] = json!("ok"); ev["epoch"] = json!(ep.as_u64()); }
                    Err(x) => { ev["r"] = json!(errclass(x)); ev["epoch"] = json!(0); }
                }
            }
            "abort" => {
                let id = self.ids[t - 1];
                let r = self.mgr.abort(id);
                ev["t"] = json!(t);
                ev["r"] = json!(match &r { Ok(()) => "ok", Err(x) => errclass(x) });
            }
            "abortall" => self.mgr.abort_all_active(),
            "gc" => {
                let n = self.mgr.gc();
                ev["n"] = json!(n);
            }
            _ => panic!("unknown action {a}"),
        }
        ev["obs"] = self.obs();
        ev
    }
}

const ENTS: [&str; 4] = ["n1", "n2", "n3", "e1"];

fn random_script(rng: &mut StdRng, len: usize, max_tx: usize, levels: &[&str]) -> Vec<Value> {
    let mut out = vec![];
    let mut begun = 0usize;
    // liveness guess (driver side only, to bias choices; the oracle is the spec)
    let mut live: Vec<usize> = vec![];
    // entity pool size varies per trace: fewer entities = more conflicts
    let nent = rng.random_range(1..=ENTS.len());
    while out.len() < len {
        let roll = rng.random_range(0..100);
        if (live.is_empty() || roll < 18) && begun < max_tx {
            begun += 1;
            live.push(begun);
            out.push(json!({"a": "begin", "iso": levels[rng.random_range(0..levels.len())]}));
        } else if begun == 0 {
            continue;
        } else if roll < 50 {
            let t = pick(rng, &live, begun);
            out.push(json!({"a": "recw", "t": t, "e": ENTS[rng.random_range(0..nent)]}));
        } else if roll < 68 {
            let t = pick(rng, &live, begun);
            out.push(json!({"a": "recr", "t": t, "e": ENTS[rng.random_range(0..nent)]}));
        } else if roll < 86 {
            let t = pick(rng, &live, begun);
            live.retain(|x| *x != t);
            out.push(json!({"a": "commit", "t": t}));
        } else if roll < 92 {
            let t = pick(rng, &live, begun);
            live.retain(|x| *x != t);
            out.push(json!({"a": "abort", "t": t}));
        } else if roll < 99 {
            out.push(json!({"a": "gc"}));
        } else {
            live.clear();
            out.push(json!({"a": "abortall"}));
        }
    }
    out
}

fn pick(rng: &mut StdRng, live: &[usize], begun: usize) -> usize {
    // mostly live transactions, sometimes a finished one (exercises the InvalidState paths)
    if !live.is_empty() && rng.random_range(0..10) < 9 {
        live[rng.random_range(0..live.len())]
    } else {
        rng.random_range(1..=begun)
    }
}

pub fn main(o: &Opts) -> i32 {
    let out_path = o.str("out", "trace.ndjson");
    let mut out = Out::create(&out_path);
    let mut scripts: Vec<Vec<Value>> = vec![];
    if let Some(p) = o.get("script") {
        // each line: JSON array of actions (from TLC -simulate, Gen_TxManager) or one replay object
        for v in crate::util::read_ndjson(p) {
            scripts.push(v.as_array().cloned().unwrap_or_default());
        }
    } else {
        let mut rng = StdRng::seed_from_u64(o.u64("seed", 1));
        let n = o.usize("traces", 100);
        let len = o.usize("len", 30);
        let max_tx = o.usize("maxtx", 10);
        let levels: Vec<&str> = if o.flag("ser-only") { vec!["SER"] } else { vec!["SI", "SER", "RC"] };
        for _ in 0..n {
            scripts.push(random_script(&mut rng, len, max_tx, &levels));
        }
    }
    let mut ntr = 0;
    for s in &scripts {
        out.emit(&json!({"a": "reset"}));
        let mut run = Run::new();
        for act in s {
            if act["a"] == "init" { continue; }
            let ev = run.step(act);
            out.emit(&ev);
        }
        ntr += 1;
    }
    let n = out.n;
    out.finish();
    println!("{{\"traces\": {ntr}, \"events\": {n}}}");
    0
}
