//! Driver/recorder for LpgStore (spec/store/LpgStore.tla): every access path after every mutator call.
use crate::util::{Opts, Out};
use grafeo_common::types::{EdgeId, NodeId, PropertyKey, Value};
use grafeo_core::graph::lpg::{CompareOp, LpgStore};
use grafeo_core::graph::Direction;
use rand::rngs::StdRng;
use rand::{Rng, SeedableRng};
use serde_json::{json, Value as J};
use std::collections::HashMap;

const KEYS: [&str; 2] = ["k1", "k2"];
fn val(code: i64) -> Value {
    if code == 9 { Value::String("a".into()) } else { Value::Int64(code) }
}
fn code(v: Option<&Value>) -> i64 {
    match v { None => 0, Some(Value::Int64(i)) => *i, Some(Value::String(s)) if s.as_str() == "a" => 9, Some(Value::Null) => 0, _ => -7 }
}
fn labcode<'a>(it: impl Iterator<Item = &'a str>) -> i64 {
    let mut c = 0;
    for l in it { c |= match l { "A" => 1, "B" => 2, _ => 4 }; }
    c
}
fn tcode(t: &str) -> i64 { if t == "T" { 1 } else { 2 } }

pub struct Run {
    st: LpgStore,
    nodes: Vec<NodeId>,
    edges: Vec<EdgeId>,
    ni: HashMap<u64, i64>,
    ei: HashMap<u64, i64>,
    full: bool,
}

impl Run {
    fn new(bw: bool, full: bool) -> Self {
        let _ = bw; // LpgStoreConfig is not exported: the store can only be built with backward adjacency
        Self { st: LpgStore::new(), nodes: vec![], edges: vec![], ni: HashMap::new(), ei: HashMap::new(), full }
    }
    fn n(&self, id: NodeId) -> i64 { *self.ni.get(&id.as_u64()).unwrap_or(&99) }
    fn e(&self, id: EdgeId) -> i64 { *self.ei.get(&id.as_u64()).unwrap_or(&99) }
    fn ids(&self, v: Vec<NodeId>) -> J { json!(v.into_iter().map(|x| self.n(x)).collect::<Vec<_>>()) }
    fn pairs(&self, v: Vec<(NodeId, EdgeId)>) -> J { json!(v.into_iter().map(|(a, b)| json!([self.n(a), self.e(b)])).collect::<Vec<_>>()) }
    fn obs(&self) -> J {
        let st = &self.st;
        let gn: Vec<J> = self.nodes.iter().map(|id| match st.get_node(*id) {
            Some(n) => json!([1, labcode(n.labels.iter().map(|l| l.as_str())), code(n.get_property("k1")), code(n.get_property("k2"))]),
            None => json!([0, 0, 0, 0]),
        }).collect();
        let ge: Vec<J> = self.edges.iter().map(|id| match st.get_edge(*id) {
            Some(e) => json!([1, self.n(e.src), self.n(e.dst), tcode(e.edge_type.as_str()), code(e.get_property("w"))]),
            None => json!([0, 0, 0, 0, 0]),
        }).collect();
        let mut o = json!({
            "la": self.ids(st.nodes_by_label("A")), "lb": self.ids(st.nodes_by_label("B")), "ids": self.ids(st.node_ids()),
            "nc": st.node_count(), "ec": st.edge_count(),
            "alln": self.ids(st.all_nodes().map(|n| n.id).collect()), "alle": json!(st.all_edges().map(|e| self.e(e.id)).collect::<Vec<_>>()),
            "gn": gn, "ge": ge,
            "out": self.nodes.iter().map(|n| self.pairs(st.edges_from(*n, Direction::Outgoing).collect())).collect::<Vec<_>>(),
            "inn": self.nodes.iter().map(|n| self.pairs(st.edges_from(*n, Direction::Incoming).collect())).collect::<Vec<_>>(),
            "eto": self.nodes.iter().map(|n| self.pairs(st.edges_to(*n))).collect::<Vec<_>>(),
            "od": self.nodes.iter().map(|n| st.out_degree(*n)).collect::<Vec<_>>(),
            "idg": self.nodes.iter().map(|n| st.in_degree(*n)).collect::<Vec<_>>(),
            "ewt": json!(st.edges_with_type("T").map(|e| self.e(e.id)).collect::<Vec<_>>()),
            "ix": KEYS.iter().map(|k| st.has_property_index(k)).collect::<Vec<_>>(),
        });
        let mut fp = vec![];
        let mut mm = vec![];
        let mut fr = vec![];
        for k in KEYS {
            let mut row = vec![];
            let mut mrow = vec![];
            for v in [1i64, 2, 3, 9] {
                if self.full { row.push(self.ids(st.find_nodes_by_property(k, &val(v)))); } else { row.push(json!([])); }
                mrow.push(json!(st.node_property_might_match(&PropertyKey::new(k), CompareOp::Eq, &val(v))));
            }
            fp.push(json!(row));
            mm.push(json!(mrow));
            fr.push(if self.full { self.ids(st.find_nodes_in_range(k, Some(&Value::Int64(1)), Some(&Value::Int64(2)), true, true)) } else { json!([]) });
        }
        o["fp"] = json!(fp);
        o["mm"] = json!(mm);
        o["fr"] = json!(fr);
        o
    }
    fn node(&self, i: &J) -> NodeId { self.nodes[i.as_u64().unwrap() as usize - 1] }
    fn edge(&self, i: &J) -> EdgeId { self.edges[i.as_u64().unwrap() as usize - 1] }
    fn step(&mut self, act: &J) -> J {
        let a = act["a"].as_str().unwrap();
        let mut ev = act.clone();
        match a {
            "cnode" => {
                let labels: Vec<&str> = act["L"].as_array().unwrap().iter().map(|x| x.as_str().unwrap()).collect();
                let (p1, p2) = (act["p1"].as_i64().unwrap(), act["p2"].as_i64().unwrap());
                let mut props = vec![];
                if p1 != 0 { props.push(("k1", val(p1))); }
                if p2 != 0 { props.push(("k2", val(p2))); }
                let id = if props.is_empty() { self.st.create_node(&labels) } else { self.st.create_node_with_props(&labels, props) };
                self.nodes.push(id);
                self.ni.insert(id.as_u64(), self.nodes.len() as i64);
                ev["id"] = json!(self.nodes.len());
            }
            "dnode" => ev["r"] = json!(self.st.delete_node(self.node(&act["n"]))),
            "setp" => self.st.set_node_property(self.node(&act["n"]), KEYS[act["k"].as_u64().unwrap() as usize - 1], val(act["v"].as_i64().unwrap())),
            "remp" => ev["r"] = json!(self.st.remove_node_property(self.node(&act["n"]), KEYS[act["k"].as_u64().unwrap() as usize - 1]).is_some()),
            "addl" => ev["r"] = json!(self.st.add_label(self.node(&act["n"]), act["lb"].as_str().unwrap())),
            "reml" => ev["r"] = json!(self.st.remove_label(self.node(&act["n"]), act["lb"].as_str().unwrap())),
            "cedge" => {
                let t = if act["t"] == 1 { "T" } else { "U" };
                let w = act["w"].as_i64().unwrap();
                let (s, d) = (self.node(&act["s"]), self.node(&act["d"]));
                let id = if w != 0 { self.st.create_edge_with_props(s, d, t, [("w", val(w))]) } else { self.st.create_edge(s, d, t) };
                self.edges.push(id);
                self.ei.insert(id.as_u64(), self.edges.len() as i64);
                ev["id"] = json!(self.edges.len());
            }
            "dedge" => ev["r"] = json!(self.st.delete_edge(self.edge(&act["e"]))),
            "setep" => self.st.set_edge_property(self.edge(&act["e"]), "w", val(act["w"].as_i64().unwrap())),
            "cidx" => self.st.create_property_index(KEYS[act["k"].as_u64().unwrap() as usize - 1]),
            "didx" => ev["r"] = json!(self.st.drop_property_index(KEYS[act["k"].as_u64().unwrap() as usize - 1])),
            "stats" => {
                self.st.compute_statistics();
                self.st.rebuild_zone_maps();
                let s = self.st.statistics();
                ev["tn"] = json!(s.total_nodes);
                ev["te"] = json!(s.total_edges);
            }
            _ => panic!("unknown action {a}"),
        }
        ev["obs"] = self.obs();
        ev
    }
}

fn random_script(rng: &mut StdRng, len: usize, maxn: usize, maxe: usize, hub: bool) -> Vec<J> {
    let mut out = vec![];
    let (mut nn, mut ne) = (0usize, 0usize);
    let mut alive: Vec<usize> = vec![];
    let vals = [0i64, 1, 2, 3, 9];
    while out.len() < len {
        let roll = rng.random_range(0..100);
        if nn == 0 || (roll < 14 && nn < maxn) {
            nn += 1;
            alive.push(nn);
            let labs: Vec<&str> = match rng.random_range(0..4) { 0 => vec!["A"], 1 => vec!["A", "B"], 2 => vec!["B"], _ => vec![] };
            out.push(json!({"a": "cnode", "L": labs, "p1": vals[rng.random_range(0..5)], "p2": vals[rng.random_range(0..5)]}));
        } else if roll < 22 && !hub {
            let n = rng.random_range(1..=nn);
            alive.retain(|x| *x != n);
            out.push(json!({"a": "dnode", "n": n}));
        } else if roll < 40 && !alive.is_empty() && !hub {
            out.push(json!({"a": "setp", "n": alive[rng.random_range(0..alive.len())], "k": rng.random_range(1..=2), "v": vals[rng.random_range(1..5)]}));
        } else if roll < 46 && !alive.is_empty() && !hub {
            out.push(json!({"a": "remp", "n": alive[rng.random_range(0..alive.len())], "k": rng.random_range(1..=2)}));
        } else if roll < 52 && !hub {
            out.push(json!({"a": "addl", "n": rng.random_range(1..=nn), "lb": if rng.random_bool(0.5) { "A" } else { "B" }}));
        } else if roll < 57 && !hub {
            out.push(json!({"a": "reml", "n": rng.random_range(1..=nn), "lb": if rng.random_bool(0.5) { "A" } else { "B" }}));
        } else if roll < 76 || (hub && roll < 88) {
            if ne >= maxe { continue; }
            ne += 1;
            let s = if hub && rng.random_bool(0.8) { 1 } else { rng.random_range(1..=nn) };
            out.push(json!({"a": "cedge", "s": s, "d": rng.random_range(1..=nn), "t": rng.random_range(1..=2), "w": vals[rng.random_range(0..4)]}));
        } else if roll < 92 && ne > 0 {
            out.push(json!({"a": "dedge", "e": rng.random_range(1..=ne)}));
        } else if roll < 93 && ne > 0 && !hub {
            out.push(json!({"a": "setep", "e": rng.random_range(1..=ne), "w": vals[rng.random_range(1..4)]}));
        } else if roll < 96 && !hub {
            out.push(json!({"a": "cidx", "k": rng.random_range(1..=2)}));
        } else if roll < 98 && !hub {
            out.push(json!({"a": "didx", "k": rng.random_range(1..=2)}));
        } else {
            out.push(json!({"a": "stats"}));
        }
    }
    out
}

pub fn main(o: &Opts) -> i32 {
    let mut out = Out::create(&o.str("out", "trace.ndjson"));
    let hub = o.flag("hub");
    let mut scripts: Vec<(bool, Vec<J>)> = vec![];
    if let Some(p) = o.get("script") {
        for v in crate::util::read_ndjson(p) { scripts.push((v["bw"].as_bool().unwrap_or(true), v["script"].as_array().cloned().unwrap_or_default())); }
    } else {
        let mut rng = StdRng::seed_from_u64(o.u64("seed", 1));
        for t in 0..o.usize("traces", 30) {
            scripts.push((t % 3 != 7, random_script(&mut rng, o.usize("len", 40), o.usize("maxn", 6), o.usize("maxe", 10), hub)));
        }
    }
    for (bw, s) in &scripts {
        out.emit(&json!({"a": "reset", "bw": bw}));
        let mut run = Run::new(*bw, true);
        for act in s { let ev = run.step(act); out.emit(&ev); }
    }
    let n = out.n;
    out.finish();
    println!("{{\"traces\": {}, \"events\": {n}}}", scripts.len());
    0
}
