//! Driver/recorder for RdfStore (spec/store/RdfStore.tla).
use crate::util::{Opts, Out};
use grafeo_common::types::TxId;
use grafeo_core::graph::rdf::{RdfStore, RdfStoreConfig, Term, Triple, TriplePattern};
use rand::rngs::StdRng;
use rand::{Rng, SeedableRng};
use serde_json::{json, Value as J};

pub const NS: usize = 3;
pub const NP: usize = 2;
pub const NO: usize = 3;

pub fn subj(i: usize) -> Term {
    match i { 1 => Term::iri("http://ex.org/a"), 2 => Term::blank("b1"), _ => Term::iri("http://ex.org/c#frag") }
}
pub fn pred(i: usize) -> Term {
    match i { 1 => Term::iri("http://ex.org/p"), _ => Term::iri("http://www.w3.org/1999/02/22-rdf-syntax-ns#type") }
}
pub fn obj(i: usize) -> Term {
    // object 1 is the same IRI as subject 1; a plain and a language-tagged literal with the same lexical form
    match i { 1 => Term::iri("http://ex.org/a"), 2 => Term::literal("v"), _ => Term::lang_literal("v", "en") }
}
pub fn obj_ext(i: usize) -> Term {
    match i { 4 => Term::typed_literal("1", "http://www.w3.org/2001/XMLSchema#integer"), 5 => Term::blank("b1"), _ => obj(i) }
}
pub fn triple(t: &[usize; 3]) -> Triple {
    Triple::new(subj(t[0]), pred(t[1]), obj_ext(t[2]))
}
fn code_of(t: &Triple, no: usize) -> i64 {
    let s = (1..=NS).find(|i| &subj(*i) == t.subject()).unwrap_or(9);
    let p = (1..=NP).find(|i| &pred(*i) == t.predicate()).unwrap_or(9);
    let o = (1..=no).find(|i| &obj_ext(*i) == t.object()).unwrap_or(9);
    (s * 100 + p * 10 + o) as i64
}
fn codes(v: &[std::sync::Arc<Triple>], no: usize) -> J {
    json!(v.iter().map(|t| code_of(t, no)).collect::<Vec<_>>())
}

pub struct Run {
    pub store: std::sync::Arc<RdfStore>,
    no: usize,
    ntx: usize,
}

impl Run {
    pub fn new(index_objects: bool, no: usize, ntx: usize) -> Self {
        Self { store: std::sync::Arc::new(RdfStore::with_config(RdfStoreConfig { initial_capacity: 16, index_objects })), no, ntx }
    }
    fn pattern(&self, s: usize, p: usize, o: usize) -> TriplePattern {
        TriplePattern { subject: if s == 0 { None } else { Some(subj(s)) }, predicate: if p == 0 { None } else { Some(pred(p)) }, object: if o == 0 { None } else { Some(obj_ext(o)) } }
    }
    pub fn obs(&self) -> J {
        let st = &self.store;
        let no = self.no;
        let mut f = vec![];
        for s in 0..=NS { for p in 0..=NP { for o in 0..=no { f.push(codes(&st.find(&self.pattern(s, p, o)), no)); } } }
        let ws: Vec<J> = (1..=NS).map(|i| codes(&st.triples_with_subject(&subj(i)), no)).collect();
        let wp: Vec<J> = (1..=NP).map(|i| codes(&st.triples_with_predicate(&pred(i)), no)).collect();
        let wo: Vec<J> = (1..=no).map(|i| codes(&st.triples_with_object(&obj_ext(i)), no)).collect();
        let idx = |terms: Vec<Term>, f: &dyn Fn(usize) -> Term, n: usize| -> J { json!(terms.iter().map(|t| (1..=n).find(|i| &f(*i) == t).unwrap_or(9)).collect::<Vec<_>>()) };
        let mut has = vec![];
        for s in 1..=NS { for p in 1..=NP { for o in 1..=no { if st.contains(&triple(&[s, p, o])) { has.push((s * 100 + p * 10 + o) as i64); } } } }
        let stats = st.stats();
        let mut fp = vec![];
        for x in 1..=self.ntx {
            let mut row = vec![];
            for s in 0..=NS { for p in 0..=NP { for o in 0..=no {
                if p == 0 && o == 0 { row.push(codes(&st.find_with_pending(&self.pattern(s, p, o), Some(TxId::new(100 + x as u64))), no)); } else { row.push(json!([])); }
            } } }
            fp.push(json!(row));
        }
        json!({"len": st.len(), "tr": codes(&st.triples(), no), "f": f, "ws": ws, "wp": wp, "wo": wo,
               "subj": idx(st.subjects(), &subj, NS), "pred": idx(st.predicates(), &pred, NP), "obj": idx(st.objects(), &obj_ext, no),
               "stats": [stats.triple_count, stats.subject_count, stats.predicate_count, stats.object_count], "has": has, "fp": fp})
    }
    pub fn step(&mut self, act: &J) -> J {
        let a = act["a"].as_str().unwrap();
        let mut ev = act.clone();
        let t: [usize; 3] = act.get("t").and_then(|t| t.as_array()).map(|v| [v[0].as_u64().unwrap() as usize, v[1].as_u64().unwrap() as usize, v[2].as_u64().unwrap() as usize]).unwrap_or([1, 1, 1]);
        let x = TxId::new(100 + act.get("x").and_then(|x| x.as_u64()).unwrap_or(1));
        match a {
            "ins" => ev["r"] = json!(self.store.insert(triple(&t))),
            "rem" => ev["r"] = json!(self.store.remove(&triple(&t))),
            "clear" => self.store.clear(),
            "instx" => self.store.insert_in_tx(x, triple(&t)),
            "remtx" => self.store.remove_in_tx(x, triple(&t)),
            "committx" => ev["r"] = json!(self.store.commit_tx(x)),
            "rollbacktx" => ev["r"] = json!(self.store.rollback_tx(x)),
            _ => panic!("unknown action {a}"),
        }
        ev["obs"] = self.obs();
        ev
    }
}

pub fn main(o: &Opts) -> i32 {
    let mut out = Out::create(&o.str("out", "trace.ndjson"));
    let no = o.usize("no", NO);
    let ntx = o.usize("ntx", 2);
    let io = !o.flag("no-object-index");
    let mut scripts: Vec<Vec<J>> = vec![];
    if let Some(p) = o.get("script") {
        for v in crate::util::read_ndjson(p) { scripts.push(v.as_array().cloned().unwrap_or_default()); }
    } else {
        let mut rng = StdRng::seed_from_u64(o.u64("seed", 1));
        for _ in 0..o.usize("traces", 50) {
            let mut s = vec![];
            // small sub-universe per trace so that duplicates / removals of present triples are frequent
            let (ms, mp, mo) = (rng.random_range(1..=NS), rng.random_range(1..=NP), rng.random_range(1..=no));
            for _ in 0..o.usize("len", 30) {
                let t = json!([rng.random_range(1..=ms), rng.random_range(1..=mp), rng.random_range(1..=mo)]);
                let roll = rng.random_range(0..100);
                s.push(if roll < 40 { json!({"a": "ins", "t": t}) } else if roll < 62 { json!({"a": "rem", "t": t}) } else if roll < 65 { json!({"a": "clear"}) }
                       else if roll < 78 { json!({"a": "instx", "x": rng.random_range(1..=ntx), "t": t}) } else if roll < 88 { json!({"a": "remtx", "x": rng.random_range(1..=ntx), "t": t}) }
                       else if roll < 95 { json!({"a": "committx", "x": rng.random_range(1..=ntx)}) } else { json!({"a": "rollbacktx", "x": rng.random_range(1..=ntx)}) });
            }
            scripts.push(s);
        }
    }
    for s in &scripts {
        out.emit(&json!({"a": "reset", "io": io}));
        let mut run = Run::new(io, no, ntx);
        for act in s { let ev = run.step(act); out.emit(&ev); }
    }
    let n = out.n;
    out.finish();
    println!("{{\"traces\": {}, \"events\": {n}}}", scripts.len());
    0
}
