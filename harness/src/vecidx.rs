//! C18: drives HnswIndex / QuantizedHnswIndex / brute_force_knn / the distance kernels / the quantisers with
//! small-integer vectors (exact in f32) and records every call with its result and, for the plain index, the
//! proximity graph from the cfg(grafeo_verif) hook.  spec/vector/Trace_Hnsw.tla judges the trace.
use crate::util::{catch, Opts, Out};
use grafeo_common::types::NodeId;
use grafeo_core::index::vector::quantization::{BinaryQuantizer, ProductQuantizer, QuantizationType, ScalarQuantizer};
use grafeo_core::index::vector::QuantizedHnswIndex;
use grafeo_core::index::vector::{self as vx, brute_force_knn, compute_distance, DistanceMetric, HnswConfig, HnswIndex};
use rand::rngs::StdRng;
use rand::{Rng, SeedableRng};
use serde_json::{json, Value as J};
use std::panic::AssertUnwindSafe;

fn fv(v: &[i64]) -> Vec<f32> { v.iter().map(|x| *x as f32).collect() }
fn metric_of(i: usize) -> DistanceMetric { [DistanceMetric::Euclidean, DistanceMetric::Manhattan, DistanceMetric::DotProduct, DistanceMetric::Cosine][i % 4] }
/// the integer recorded for a distance: euclidean squared, cosine in thousandths, others as they are
fn rec(metric: DistanceMetric, d: f32) -> i64 {
    if !d.is_finite() { return -999_999; }
    let x = match metric {
        DistanceMetric::Euclidean => (d as f64) * (d as f64),
        DistanceMetric::Cosine => (d as f64) * 1000.0,
        _ => d as f64,
    };
    // exact-integer metrics must be integers up to f32 rounding of the square root
    if metric != DistanceMetric::Cosine && (x - x.round()).abs() > 1e-3 * (1.0 + x.abs()) { return -888_888; }
    (x.round() as i64).clamp(-2_000_000_000, 2_000_000_000)
}
fn res_json(metric: DistanceMetric, r: &[(NodeId, f32)]) -> J { json!(r.iter().map(|(id, d)| json!([id.as_u64(), rec(metric, *d)])).collect::<Vec<_>>()) }

enum Idx { Plain(HnswIndex), Quant(QuantizedHnswIndex) }
impl Idx {
    fn insert(&self, id: NodeId, v: &[f32]) { match self { Idx::Plain(i) => i.insert(id, v), Idx::Quant(i) => i.insert(id, v) } }
    fn remove(&self, id: NodeId) -> bool { match self { Idx::Plain(i) => i.remove(id), Idx::Quant(i) => i.remove(id) } }
    fn len(&self) -> usize { match self { Idx::Plain(i) => i.len(), Idx::Quant(i) => i.len() } }
    fn contains(&self, id: NodeId) -> bool { match self { Idx::Plain(i) => i.contains(id), Idx::Quant(i) => i.contains(id) } }
    fn get(&self, id: NodeId) -> Option<Vec<f32>> { match self { Idx::Plain(i) => i.get(id).map(|a| a.to_vec()), Idx::Quant(i) => i.get(id).map(|a| a.to_vec()) } }
    fn search(&self, q: &[f32], k: usize, ef: Option<usize>) -> Vec<(NodeId, f32)> {
        match (self, ef) {
            (Idx::Plain(i), Some(ef)) => i.search_with_ef(q, k, ef), (Idx::Plain(i), None) => i.search(q, k),
            (Idx::Quant(i), Some(ef)) => i.search_with_ef(q, k, ef), (Idx::Quant(i), None) => i.search(q, k),
        }
    }
    fn dump(&self) -> Option<J> {
        match self {
            Idx::Plain(i) => {
                let (ep, maxl, nodes) = i.verif_dump();
                Some(json!({"ep": ep.map(|x| x.as_u64()).unwrap_or(0), "maxl": maxl,
                    "nodes": nodes.iter().map(|(id, ls)| json!([id.as_u64(), ls.iter().map(|l| l.iter().map(|x| x.as_u64()).collect::<Vec<_>>()).collect::<Vec<_>>()])).collect::<Vec<_>>()}))
            }
            Idx::Quant(i) => {
                let (ep, maxl, nodes) = i.verif_dump();
                Some(json!({"ep": ep.map(|x| x.as_u64()).unwrap_or(0), "maxl": maxl, "quant": true,
                    "nodes": nodes.iter().map(|(id, ls)| json!([id.as_u64(), ls.iter().map(|l| l.iter().map(|x| x.as_u64()).collect::<Vec<_>>()).collect::<Vec<_>>()])).collect::<Vec<_>>()}))
            }
        }
    }
}

fn post(ev: &mut J, idx: &Idx, ids: usize, intvec: bool) {
    ev["len"] = json!(idx.len());
    ev["has"] = json!((1..=ids as u64).map(|i| json!([i, idx.contains(NodeId::new(i))])).collect::<Vec<_>>());
    ev["got"] = json!((1..=ids as u64).filter_map(|i| idx.get(NodeId::new(i)).map(|v| json!([i, if intvec { v.iter().map(|x| *x as i64).collect::<Vec<_>>() } else { vec![] }]))).collect::<Vec<_>>());
    match idx.dump() { Some(g) => { ev["hasg"] = json!(true); ev["g"] = g; } None => { ev["hasg"] = json!(false); } }
}

fn history(out: &mut Out, rng: &mut StdRng, steps: usize, tno: usize) {
    let mi = rng.random_range(0..4usize);
    let metric = metric_of(mi);
    let dim = rng.random_range(1..=3usize);
    let m = rng.random_range(2..=4usize);
    let ids = rng.random_range(3..=9usize);
    let cmax: i64 = if metric == DistanceMetric::Cosine { 2 } else { 3 };
    let mut cfg = HnswConfig::new(dim, metric).with_m(m).with_ef_construction(rng.random_range(1..=6)).with_ef(rng.random_range(1..=8));
    if rng.random_bool(0.5) { cfg = cfg.with_m_max(m); }
    let kind = rng.random_range(0..6usize); // 0..=2 plain, 3 scalar, 4 binary, 5 product
    let idx = match kind {
        3 => Idx::Quant(QuantizedHnswIndex::with_seed(cfg.clone(), QuantizationType::Scalar, tno as u64).with_training_threshold(rng.random_range(1..=6))),
        4 => Idx::Quant(QuantizedHnswIndex::with_seed(cfg.clone(), QuantizationType::Binary, tno as u64)),
        5 => Idx::Quant(QuantizedHnswIndex::with_seed(cfg.clone(), QuantizationType::Product { num_subvectors: 1 }, tno as u64).with_training_threshold(rng.random_range(1..=6))),
        _ => Idx::Plain(HnswIndex::with_seed(cfg.clone(), tno as u64)),
    };
    out.emit(&json!({"a": "reset", "panic": false, "metric": metric.name(), "dim": dim, "m": m, "kind": kind, "t": tno}));
    let vecr = |rng: &mut StdRng| -> Vec<i64> { (0..dim).map(|_| rng.random_range(-cmax..=cmax)).collect() };
    let intvec = metric != DistanceMetric::Cosine;
    for _ in 0..steps {
        let c = rng.random_range(0..100);
        let mut ev;
        let r = if c < 45 {
            let id = rng.random_range(1..=ids as u64);
            let v = if rng.random_bool(0.15) { vec![0; dim] } else { vecr(rng) };
            ev = json!({"a": "ins", "id": id, "v": v});
            catch(AssertUnwindSafe(|| { idx.insert(NodeId::new(id), &fv(&v)); }))
        } else if c < 60 {
            let id = rng.random_range(1..=ids as u64);
            ev = json!({"a": "rem", "id": id});
            catch(AssertUnwindSafe(|| idx.remove(NodeId::new(id)))).map(|r| { ev["r"] = json!(r); })
        } else if c < 92 {
            let q = vecr(rng);
            let k = rng.random_range(0..=ids + 2);
            let ef = [0usize, 1, 2, 3, 5, 50][rng.random_range(0..6)];
            let with_ef = rng.random_bool(0.7);
            let efv = if with_ef { ef } else { cfg.ef };
            ev = json!({"a": "search", "q": q, "k": k, "ef": efv});
            match idx.dump() { Some(g) => { ev["hasg"] = json!(true); ev["g"] = g; } None => { ev["hasg"] = json!(false); } }
            catch(AssertUnwindSafe(|| idx.search(&fv(&q), k, if with_ef { Some(ef) } else { None }))).map(|r| { ev["res"] = res_json(metric, &r); })
        } else {
            let qs: Vec<Vec<i64>> = (0..rng.random_range(1..=4)).map(|_| vecr(rng)).collect();
            let k = rng.random_range(0..=ids);
            ev = json!({"a": "batch", "qs": qs, "k": k, "ef": cfg.ef});
            match idx.dump() { Some(g) => { ev["hasg"] = json!(true); ev["g"] = g; } None => { ev["hasg"] = json!(false); } }
            let fq: Vec<Vec<f32>> = qs.iter().map(|q| fv(q)).collect();
            catch(AssertUnwindSafe(|| {
                let b = match &idx { Idx::Plain(i) => i.batch_search(&fq, k), Idx::Quant(i) => i.batch_search(&fq, k) };
                let s: Vec<_> = fq.iter().map(|q| idx.search(q, k, None)).collect();
                (b, s)
            })).map(|(b, s)| { ev["res"] = json!(b.iter().map(|r| res_json(metric, r)).collect::<Vec<_>>()); ev["singles"] = json!(s.iter().map(|r| res_json(metric, r)).collect::<Vec<_>>()); })
        };
        match r {
            Ok(()) => { ev["panic"] = json!(false); if ev["a"] == "ins" || ev["a"] == "rem" { post(&mut ev, &idx, ids, intvec); } }
            Err(p) => { ev["panic"] = json!(true); ev["info"] = json!(p.chars().take(160).collect::<String>()); }
        }
        out.emit(&ev);
        if ev["panic"] == json!(true) { break; }
    }
}

/// engine level: GrafeoDB::create_vector_index builds the index from the nodes that exist (and carry the vector
/// property) at that moment; GrafeoDB::vector_search / batch_vector_search are then judged like HnswIndex::search.
fn db_history(out: &mut Out, rng: &mut StdRng, tno: usize) {
    use grafeo_common::types::Value;
    let metric = metric_of(rng.random_range(0..4));
    let dim = rng.random_range(1..=3usize);
    let cmax: i64 = if metric == DistanceMetric::Cosine { 2 } else { 3 };
    let db = grafeo_engine::GrafeoDB::new_in_memory();
    let n = rng.random_range(1..=9usize);
    let mut nodes = vec![];
    for i in 0..n {
        let v: Vec<i64> = (0..dim).map(|_| rng.random_range(-cmax..=cmax)).collect();
        let label = if i % 4 == 3 { "Other" } else { "V" };
        let id = if i % 5 == 4 { db.create_node_with_props(&[label], [("name", Value::Int64(i as i64))]) } else { db.create_node_with_props(&[label], [("emb", Value::Vector(fv(&v).into()))]) };
        nodes.push((id, v, label == "V" && i % 5 != 4));
    }
    let del = rng.random_range(0..n + 2);
    if del < n { db.delete_node(nodes[del].0); nodes[del].2 = false; }
    out.emit(&json!({"a": "reset", "panic": false, "metric": metric.name(), "dim": dim, "kind": "db", "t": tno}));
    let m = rng.random_range(2..=4usize);
    let r = db.create_vector_index("V", "emb", if rng.random_bool(0.5) { Some(dim) } else { None }, Some(metric.name()), Some(m), Some(rng.random_range(1..=6)));
    let expect: Vec<&(NodeId, Vec<i64>, bool)> = nodes.iter().filter(|x| x.2).collect();
    if r.is_err() {
        // only legitimate when there is nothing to index
        if !expect.is_empty() { out.emit(&json!({"a": "search", "panic": true, "info": format!("create_vector_index failed with {} vectors present: {:?}", expect.len(), r.err())})); }
        return;
    }
    for (i, (id, v, _)) in expect.iter().enumerate() {
        out.emit(&json!({"a": "ins", "id": id.as_u64() + 1, "v": v, "panic": false, "hasg": false, "len": i + 1, "has": [], "got": []}));
    }
    let idx = db.store().get_vector_index("V", "emb").expect("index registered");
    let dump = |idx: &HnswIndex| -> J {
        let (ep, maxl, ns) = idx.verif_dump();
        json!({"ep": ep.map(|x| x.as_u64() + 1).unwrap_or(0), "maxl": maxl,
            "nodes": ns.iter().map(|(id, ls)| json!([id.as_u64() + 1, ls.iter().map(|l| l.iter().map(|x| x.as_u64() + 1).collect::<Vec<_>>()).collect::<Vec<_>>()])).collect::<Vec<_>>()})
    };
    let resj = |r: &[(NodeId, f32)]| -> J { json!(r.iter().map(|(id, d)| json!([id.as_u64() + 1, rec(metric, *d)])).collect::<Vec<_>>()) };
    for step in 0..8 {
        let q: Vec<i64> = (0..dim).map(|_| rng.random_range(-cmax..=cmax)).collect();
        let k = rng.random_range(0..=n + 1);
        let ef = if rng.random_bool(0.5) { Some([0usize, 1, 3, 50][rng.random_range(0..4)]) } else { None };
        let mut ev = json!({"a": "search", "q": q, "k": k, "ef": ef.unwrap_or(idx.config().ef), "hasg": true, "g": dump(&idx)});
        match catch(AssertUnwindSafe(|| db.vector_search("V", "emb", &fv(&q), k, ef))) {
            Ok(Ok(r)) => { ev["res"] = resj(&r); ev["panic"] = json!(false); }
            Ok(Err(e)) => { ev["panic"] = json!(true); ev["info"] = json!(format!("error: {e}")); }
            Err(p) => { ev["panic"] = json!(true); ev["info"] = json!(p); }
        }
        out.emit(&ev);
        if step == 3 {
            // later changes to the graph do not reach the index (it is a snapshot): the model's vecs stay as they are
            if let Some(x) = expect.first() { db.delete_node(x.0); }
            db.create_node_with_props(&["V"], [("emb", Value::Vector(fv(&vec![1; dim]).into()))]);
        }
    }
    let qs: Vec<Vec<i64>> = (0..3).map(|_| (0..dim).map(|_| rng.random_range(-cmax..=cmax)).collect()).collect();
    let fq: Vec<Vec<f32>> = qs.iter().map(|q| fv(q)).collect();
    let k = rng.random_range(0..=n);
    let mut ev = json!({"a": "batch", "qs": qs, "k": k, "ef": idx.config().ef, "hasg": true, "g": dump(&idx)});
    match catch(AssertUnwindSafe(|| (db.batch_vector_search("V", "emb", &fq, k, None), fq.iter().map(|q| db.vector_search("V", "emb", q, k, None)).collect::<Vec<_>>()))) {
        Ok((Ok(b), s)) if s.iter().all(|x| x.is_ok()) => {
            ev["res"] = json!(b.iter().map(|r| resj(r)).collect::<Vec<_>>());
            ev["singles"] = json!(s.iter().map(|r| resj(r.as_ref().unwrap())).collect::<Vec<_>>());
            ev["panic"] = json!(false);
        }
        Ok(_) => { ev["panic"] = json!(true); ev["info"] = json!("error result"); }
        Err(p) => { ev["panic"] = json!(true); ev["info"] = json!(p); }
    }
    out.emit(&ev);
}

fn exact_case(out: &mut Out, rng: &mut StdRng) {
    let metric = metric_of(rng.random_range(0..4));
    let dim = rng.random_range(1..=4usize);
    let n = rng.random_range(0..=7usize);
    let cmax: i64 = if metric == DistanceMetric::Cosine { 2 } else { 4 };
    let vs: Vec<Vec<i64>> = (0..n).map(|_| (0..dim).map(|_| rng.random_range(-cmax..=cmax)).collect()).collect();
    let q: Vec<i64> = (0..dim).map(|_| rng.random_range(-cmax..=cmax)).collect();
    let k = rng.random_range(0..=n + 2);
    out.emit(&json!({"a": "reset", "panic": false, "metric": metric.name()}));
    for (i, v) in vs.iter().enumerate() {
        out.emit(&json!({"a": "ins", "id": i + 1, "v": v, "panic": false, "hasg": false, "len": i + 1, "has": [], "got": []}));
    }
    let fvs: Vec<Vec<f32>> = vs.iter().map(|v| fv(v)).collect();
    let mut ev = json!({"a": "exact", "metric": metric.name(), "q": q, "k": k});
    match catch(AssertUnwindSafe(|| brute_force_knn(fvs.iter().enumerate().map(|(i, v)| (NodeId::new(i as u64 + 1), v.as_slice())), &fv(&q), k, metric))) {
        Ok(r) => { ev["res"] = res_json(metric, &r); ev["panic"] = json!(false); }
        Err(p) => { ev["panic"] = json!(true); ev["info"] = json!(p); }
    }
    out.emit(&ev);
}

fn kernel_case(out: &mut Out, rng: &mut StdRng, dim: usize) {
    let x: Vec<i64> = (0..dim).map(|_| rng.random_range(-3..=3)).collect();
    let y: Vec<i64> = (0..dim).map(|_| if rng.random_bool(0.1) { 0 } else { rng.random_range(-3..=3) }).collect();
    let (fx, fy) = (fv(&x), fv(&y));
    let mut ev = json!({"a": "kernel", "x": x, "y": y, "dim": dim});
    let r = catch(AssertUnwindSafe(|| {
        let i = |f: f32| -> i64 { if f.is_finite() && (f - f.round()).abs() < 1e-3 { f.round() as i64 } else { -999_999 } };
        json!({"l2sq": i(vx::euclidean_distance_squared(&fx, &fy)), "l2": rec(DistanceMetric::Euclidean, compute_distance(&fx, &fy, DistanceMetric::Euclidean)),
               "l1": i(compute_distance(&fx, &fy, DistanceMetric::Manhattan)), "dot": i(vx::dot_product(&fx, &fy)), "ndot": i(compute_distance(&fx, &fy, DistanceMetric::DotProduct)),
               "n2": rec(DistanceMetric::Euclidean, vx::l2_norm(&fx)), "cos": rec(DistanceMetric::Cosine, compute_distance(&fx, &fy, DistanceMetric::Cosine))})
    }));
    match r { Ok(m) => { for (k, v) in m.as_object().unwrap() { ev[k] = v.clone(); } ev["panic"] = json!(false); } Err(p) => { ev["panic"] = json!(true); ev["info"] = json!(p); } }
    out.emit(&ev);
}

fn quant_cases(out: &mut Out, rng: &mut StdRng) {
    // scalar
    let dim = rng.random_range(1..=5usize);
    let lo: Vec<i64> = (0..dim).map(|_| rng.random_range(-20..=20)).collect();
    let s: Vec<i64> = (0..dim).map(|_| [1i64, 2, 4][rng.random_range(0..3)]).collect();
    let v: Vec<i64> = (0..dim).map(|i| lo[i] + rng.random_range(-10..=255 * s[i] + 10)).collect();
    let w: Vec<i64> = (0..dim).map(|i| lo[i] + rng.random_range(0..=255 * s[i])).collect();
    let q: Vec<i64> = (0..dim).map(|i| lo[i] + rng.random_range(0..=40)).collect();
    let mut ev = json!({"a": "sq", "lo": lo, "s": s, "v": v, "w": w, "q": q});
    let r = catch(AssertUnwindSafe(|| {
        let sqz = ScalarQuantizer::with_ranges(fv(&lo), lo.iter().zip(&s).map(|(l, s)| (*l + 255 * *s) as f32).collect());
        let code = sqz.quantize(&fv(&v));
        let code2 = sqz.quantize(&fv(&w));
        let i = |f: f32| -> i64 { if f.is_finite() && (f - f.round()).abs() < 1e-2 { f.round() as i64 } else { -999_999 } };
        json!({"code": code, "code2": code2, "deq": sqz.dequantize(&code).iter().map(|x| i(*x)).collect::<Vec<_>>(),
               "asym": i(sqz.asymmetric_distance_squared(&fv(&q), &code)), "sym": i(sqz.distance_squared_u8(&code, &code2))})
    }));
    match r { Ok(m) => { for (k, v) in m.as_object().unwrap() { ev[k] = v.clone(); } ev["panic"] = json!(false); } Err(p) => { ev["panic"] = json!(true); ev["info"] = json!(p); } }
    out.emit(&ev);
    // binary
    let dim = [1usize, 7, 63, 64, 65, 130][rng.random_range(0..6)];
    let v: Vec<i64> = (0..dim).map(|_| rng.random_range(-2..=2)).collect();
    let w: Vec<i64> = (0..dim).map(|_| rng.random_range(-2..=2)).collect();
    let mut ev = json!({"a": "bq", "v": v, "w": w});
    let r = catch(AssertUnwindSafe(|| {
        let a = BinaryQuantizer::quantize(&fv(&v));
        let b = BinaryQuantizer::quantize(&fv(&w));
        json!({"bits": (0..dim).map(|i| (a[i / 64] >> (i % 64)) & 1).collect::<Vec<_>>(), "ham": BinaryQuantizer::hamming_distance(&a, &b)})
    }));
    match r { Ok(m) => { for (k, v) in m.as_object().unwrap() { ev[k] = v.clone(); } ev["panic"] = json!(false); } Err(p) => { ev["panic"] = json!(true); ev["info"] = json!(p); } }
    out.emit(&ev);
    // product
    let (mm, kk, d) = (rng.random_range(1..=3usize), rng.random_range(1..=4usize), rng.random_range(1..=2usize));
    let cent: Vec<Vec<Vec<i64>>> = (0..mm).map(|_| (0..kk).map(|_| (0..d).map(|_| rng.random_range(-3..=3)).collect()).collect()).collect();
    let v: Vec<i64> = (0..mm * d).map(|_| rng.random_range(-4..=4)).collect();
    let q: Vec<i64> = (0..mm * d).map(|_| rng.random_range(-4..=4)).collect();
    let mut ev = json!({"a": "pq", "d": d, "cent": cent, "v": v, "q": q});
    let r = catch(AssertUnwindSafe(|| {
        let flat: Vec<f32> = cent.iter().flatten().flatten().map(|x| *x as f32).collect();
        let pq = ProductQuantizer::with_centroids(mm, kk, mm * d, flat);
        let codes = pq.quantize(&fv(&v));
        let i = |f: f32| -> i64 { if f.is_finite() && (f - f.round()).abs() < 1e-3 { f.round() as i64 } else { -999_999 } };
        json!({"codes": codes, "rec": pq.reconstruct(&codes).iter().map(|x| i(*x)).collect::<Vec<_>>(), "asym": i(pq.asymmetric_distance_squared(&fv(&q), &codes))})
    }));
    match r { Ok(m) => { for (k, v) in m.as_object().unwrap() { ev[k] = v.clone(); } ev["panic"] = json!(false); } Err(p) => { ev["panic"] = json!(true); ev["info"] = json!(p); } }
    out.emit(&ev);
}

pub fn main(o: &Opts) -> i32 {
    crate::util::silence_panics();
    let mut out = Out::create(&o.str("out", "vec.ndjson"));
    let seed = o.u64("seed", 1);
    let mut rng = StdRng::seed_from_u64(seed);
    let steps = o.usize("steps", 40);
    for t in 0..o.usize("traces", 20) { history(&mut out, &mut rng, steps, (seed as usize) * 10_000 + t); }
    for t in 0..o.usize("dbtraces", 10) { db_history(&mut out, &mut rng, t); }
    for _ in 0..o.usize("exact", 100) { exact_case(&mut out, &mut rng); }
    for dim in 1..=o.usize("kdim", 40) { for _ in 0..o.usize("kernel", 3) { kernel_case(&mut out, &mut rng, dim); } }
    for _ in 0..o.usize("quant", 60) { quant_cases(&mut out, &mut rng); }
    let n = out.n;
    out.finish();
    println!("{{\"events\": {n}}}");
    0
}
