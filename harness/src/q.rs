//! Case generator / executor for the query-semantics oracle (spec/query/QuerySem.tla):
//! random graphs x abstract queries from the shared core grammar, rendered to GQL and Cypher, executed on a
//! real in-memory GrafeoDB; each logged case carries the graph, the abstract query and the returned rows.
use crate::util::{Opts, Out};
use grafeo_common::types::Value;
use grafeo_engine::GrafeoDB;
use rand::rngs::StdRng;
use rand::{Rng, SeedableRng};
use serde_json::{json, Value as J};

pub fn tagged(v: &Value) -> J {
    match v {
        Value::Null => json!({"t": "null"}),
        Value::Bool(b) => json!({"t": "bool", "v": b}),
        Value::Int64(i) if i.abs() < 1_000_000 => json!({"t": "int", "v": i}),
        Value::String(s) => json!({"t": "str", "v": s.as_str()}),
        // floats that are multiples of 0.5 are recorded in halves (QuerySem's FloatV)
        Value::Float64(f) if (f * 2.0).fract() == 0.0 && f.abs() < 100_000.0 => json!({"t": "float", "v": (f * 2.0) as i64}),
        other => json!({"t": "other", "v": format!("{other:?}")}),
    }
}

pub struct Graph {
    pub db: GrafeoDB,
    pub json: J,
    pub nnodes: usize,
}

pub fn gen_graph(rng: &mut StdRng, maxn: usize, maxe: usize) -> Graph {
    let db = GrafeoDB::new_in_memory();
    let n = rng.random_range(0..=maxn);
    let mut nodes = vec![];
    let mut ids = vec![];
    for i in 0..n {
        let labels: Vec<&str> = match rng.random_range(0..5) { 0 => vec!["A"], 1 => vec!["B"], 2 => vec!["A", "B"], 3 => vec!["A"], _ => vec![] };
        let mut props: Vec<(&str, Value)> = vec![("u", Value::Int64(10 + i as i64))];
        if rng.random_range(0..4) != 0 { props.push(("k", Value::Int64(rng.random_range(0..4)))); }
        if rng.random_range(0..3) != 0 { props.push(("s", Value::String((if rng.random_bool(0.5) { "a" } else { "b" }).into()))); }
        // a float property (multiples of 0.5), only ever aggregated or projected
        if rng.random_range(0..3) != 0 { props.push(("f", Value::Float64(rng.random_range(-3..=5) as f64 * 0.5))); }
        let id = db.create_node_with_props(&labels, props.clone());
        ids.push(id);
        nodes.push(json!({"id": id.as_u64(), "labels": labels, "props": props.iter().map(|(k, v)| json!([k, tagged(v)])).collect::<Vec<_>>()}));
    }
    let mut edges = vec![];
    if n > 0 {
        for _ in 0..rng.random_range(0..=maxe) {
            let (a, b) = (ids[rng.random_range(0..n)], ids[rng.random_range(0..n)]);
            let t = if rng.random_bool(0.6) { "T" } else { "U" };
            let mut props: Vec<(&str, Value)> = vec![];
            if rng.random_bool(0.5) { props.push(("w", Value::Int64(rng.random_range(1..3)))); }
            let id = db.create_edge_with_props(a, b, t, props.clone());
            edges.push(json!({"id": id.as_u64(), "src": a.as_u64(), "dst": b.as_u64(), "type": t, "props": props.iter().map(|(k, v)| json!([k, tagged(v)])).collect::<Vec<_>>()}));
        }
    }
    Graph { db, json: json!({"nodes": nodes, "edges": edges}), nnodes: n }
}

// ------------------------------------------------------------------ abstract queries
fn gen_pred(rng: &mut StdRng, vars: &[String], evars: &[String], depth: u32, allow_isnull: bool) -> J {
    let roll = rng.random_range(0..100);
    if depth > 0 && roll < 30 {
        let op = if rng.random_bool(0.5) { "and" } else { "or" };
        return json!({"op": op, "a": gen_pred(rng, vars, evars, depth - 1, allow_isnull), "b": gen_pred(rng, vars, evars, depth - 1, allow_isnull)});
    }
    if depth > 0 && roll < 40 {
        return json!({"op": "not", "a": gen_pred(rng, vars, evars, depth - 1, allow_isnull)});
    }
    let var = &vars[rng.random_range(0..vars.len())];
    if allow_isnull && roll < 48 {
        return json!({"op": if rng.random_bool(0.5) { "isnull" } else { "notnull" }, "a": {"op": "prop", "var": var, "key": if rng.random_bool(0.5) { "k" } else { "s" }}});
    }
    if !evars.is_empty() && roll < 56 {
        let ev = &evars[rng.random_range(0..evars.len())];
        let f = ["=", ">", "<>"][rng.random_range(0..3)];
        return json!({"op": "cmp", "f": f, "a": {"op": "prop", "var": ev, "key": "w"}, "b": {"op": "const", "v": {"t": "int", "v": rng.random_range(1..3)}}});
    }
    if roll < 80 {
        let f = ["=", "<>", "<", "<=", ">", ">="][rng.random_range(0..6)];
        json!({"op": "cmp", "f": f, "a": {"op": "prop", "var": var, "key": "k"}, "b": {"op": "const", "v": {"t": "int", "v": rng.random_range(0..4)}}})
    } else {
        let f = ["=", "<>"][rng.random_range(0..2)];
        json!({"op": "cmp", "f": f, "a": {"op": "prop", "var": var, "key": "s"}, "b": {"op": "const", "v": {"t": "str", "v": if rng.random_bool(0.5) { "a" } else { "b" }}}})
    }
}

pub fn gen_query(rng: &mut StdRng, profile: &str) -> J {
    let hops = match profile { "order" => 0, "varlen" => [1, 1, 2][rng.random_range(0..3)], "idx" => [0, 0, 0, 1][rng.random_range(0..4)], _ => [0, 0, 1, 1, 1, 2][rng.random_range(0..6)] };
    let mut path = vec![];
    let mut nvars = vec![];
    let mut evars = vec![];
    for i in 0..=hops {
        if i > 0 {
            let ev = format!("e{i}");
            let dir = ["out", "out", "in", "both"][rng.random_range(0..4)];
            let types = match rng.random_range(0..4) { 0 => vec!["T"], 1 => vec!["U"], _ => vec![] };
            if profile == "varlen" {
                // variable-length hop: the edge variable is a walk and is never used in WHERE / RETURN
                let (mn, mx) = [(1, 2), (2, 2), (1, 3), (2, 3), (1, 1)][rng.random_range(0..5)];
                path.push(json!({"var": ev, "types": types, "dir": dir, "min": mn, "max": mx}));
            } else {
                path.push(json!({"var": ev, "types": types, "dir": dir}));
                evars.push(ev);
            }
        }
        let nv = format!("n{i}");
        path.push(json!({"var": nv, "labels": match rng.random_range(0..6) { 0 | 1 => vec!["A"], 2 => vec!["B"], _ => vec![] }}));
        nvars.push(nv);
    }
    let allow_isnull = rng.random_bool(0.3);
    let wher = if profile == "idx" {
        // predicates shaped to hit the index path / range path / min-max pruning with extra conjuncts, ORs and mixed types
        let key = if rng.random_bool(0.7) { "k" } else { "s" };
        let c = if key == "k" { json!({"t": "int", "v": rng.random_range(0..5)}) } else { json!({"t": "str", "v": if rng.random_bool(0.5) { "a" } else { "c" }}) };
        let f = if key == "k" { ["=", "=", "<", ">=", ">"][rng.random_range(0..5)] } else { "=" };
        let base = json!({"op": "cmp", "f": f, "a": {"op": "prop", "var": "n0", "key": key}, "b": {"op": "const", "v": c}});
        match rng.random_range(0..4) {
            0 => base,
            1 => json!({"op": "and", "a": base, "b": gen_pred(rng, &nvars, &evars, 1, allow_isnull)}),
            2 => json!({"op": "and", "a": gen_pred(rng, &nvars, &evars, 1, allow_isnull), "b": base}),
            _ => json!({"op": "or", "a": base, "b": gen_pred(rng, &nvars, &evars, 1, allow_isnull)}),
        }
    } else if rng.random_range(0..4) == 0 { json!({"op": "true"}) } else { gen_pred(rng, &nvars, &evars, 2, allow_isnull) };
    let mut q = json!({"path": path, "where": wher, "distinct": false, "order": [], "skip": 0, "limit": -1});
    // OPTIONAL MATCH continuing from a node of the main pattern (profile "opt" always, "mixed" sometimes)
    let with_opt = profile == "opt" || (profile == "mixed" && rng.random_range(0..6) == 0);
    if with_opt {
        let from = nvars[rng.random_range(0..nvars.len())].clone();
        let dir = ["out", "out", "in", "both"][rng.random_range(0..4)];
        q["optfrom"] = json!(from);
        q["opt"] = json!([{"var": "oe", "types": match rng.random_range(0..4) { 0 => vec!["T"], 1 => vec!["U"], _ => vec![] }, "dir": dir},
                          {"var": "ob", "labels": match rng.random_range(0..5) { 0 => vec!["A"], 1 => vec!["B"], _ => vec![] }}]);
        // the WHERE of the optional match may mention main and optional variables
        if rng.random_bool(0.6) {
            let mut vs = nvars.clone();
            vs.push("ob".to_string());
            let mut es = evars.clone();
            es.push("oe".to_string());
            q["owhere"] = gen_pred(rng, &vs, &es, 1, false);
        }
        // a WHERE on the main match cannot be written in this GQL dialect (one WHERE, after all MATCH clauses)
        if rng.random_bool(0.5) { q["where"] = json!({"op": "true"}); }
    }
    let prop = |rng: &mut StdRng, vars: &[String]| -> J { json!({"op": "prop", "var": vars[rng.random_range(0..vars.len())], "key": if rng.random_bool(0.6) { "k" } else { "s" }}) };
    let mode = match profile { "order" => 4, "agg" => 3, "distinct" => 2, "opt" => [0, 2, 3][rng.random_range(0..3)], _ => rng.random_range(0..10) };
    let mut nvars = nvars;
    if with_opt && mode != 4 { nvars.push("ob".to_string()); }
    let nvars = nvars;
    let ret: Vec<J> = match mode {
        0..=1 | 5..=7 => {
            let mut r: Vec<J> = nvars.iter().map(|v| json!({"e": {"op": "id", "var": v}})).collect();
            for ev in &evars { if rng.random_bool(0.5) { r.push(json!({"e": {"op": "id", "var": ev}})); } }
            if rng.random_bool(0.6) { r.push(json!({"e": prop(rng, &nvars)})); }
            r
        }
        2 | 8 => {
            q["distinct"] = json!(true);
            let mut r = vec![json!({"e": prop(rng, &nvars)})];
            if rng.random_bool(0.4) { r.push(json!({"e": prop(rng, &nvars)})); }
            r
        }
        3 | 9 => {
            let mut r = vec![];
            if rng.random_bool(0.6) { r.push(json!({"e": prop(rng, &nvars)})); }
            for _ in 0..rng.random_range(1..3) {
                let agg = ["count", "count", "sum", "min", "max"][rng.random_range(0..5)];
                // sum over the integer or the float property; min / max also over the string property
                let key = match (agg, rng.random_range(0..10)) { ("sum", 0..=3) | ("min", 0..=2) | ("max", 0..=2) => "f", ("min", 3..=4) | ("max", 3..=4) => "s", _ => "k" };
                let e = if agg == "count" && rng.random_bool(0.5) { json!({"op": "id", "var": nvars[rng.random_range(0..nvars.len())]}) } else { json!({"op": "prop", "var": nvars[rng.random_range(0..nvars.len())], "key": key}) };
                r.push(json!({"agg": agg, "e": e}));
            }
            r
        }
        _ => {
            if rng.random_bool(0.4) {
                // several keys: k (often missing, with ties) then the unique u; both are returned columns
                q["order"] = json!([{"e": {"op": "prop", "var": "n0", "key": "k"}, "desc": rng.random_bool(0.5)}, {"e": {"op": "prop", "var": "n0", "key": "u"}, "desc": rng.random_bool(0.6)}]);
                q["okcols"] = json!([2, 3]);
                q["ret"] = json!([{"e": {"op": "id", "var": "n0"}}, {"e": {"op": "prop", "var": "n0", "key": "k"}}, {"e": {"op": "prop", "var": "n0", "key": "u"}}]);
                return q;
            }
            // ordered window over a single-node pattern; u is unique and never missing
            q["order"] = json!([{"e": {"op": "prop", "var": "n0", "key": "u"}, "desc": rng.random_bool(0.5)}]);
            q["skip"] = json!([0, 0, 1, 2, 7][rng.random_range(0..5)]);
            q["limit"] = json!([-1, 0, 1, 2, 3, 9][rng.random_range(0..6)]);
            vec![json!({"e": {"op": "id", "var": "n0"}}), json!({"e": {"op": "prop", "var": "n0", "key": "u"}})]
        }
    };
    if mode != 4 && !matches!(mode, 3 | 9) && rng.random_range(0..6) == 0 {
        q["skip"] = json!(rng.random_range(0..3));
        q["limit"] = json!([-1, 0, 1, 2][rng.random_range(0..4)]);
    }
    q["ret"] = json!(ret);
    q
}

// ------------------------------------------------------------------ rendering (GQL and Cypher share this core syntax)
fn r_expr(e: &J) -> Option<String> {
    Some(match e["op"].as_str()? {
        "const" => match e["v"]["t"].as_str()? { "int" => e["v"]["v"].to_string(), "str" => format!("'{}'", e["v"]["v"].as_str()?), _ => return None },
        "prop" => format!("{}.{}", e["var"].as_str()?, e["key"].as_str()?),
        "id" => format!("id({})", e["var"].as_str()?),
        "cmp" => format!("{} {} {}", r_expr(&e["a"])?, e["f"].as_str()?, r_expr(&e["b"])?),
        "and" => format!("({} AND {})", r_expr(&e["a"])?, r_expr(&e["b"])?),
        "or" => format!("({} OR {})", r_expr(&e["a"])?, r_expr(&e["b"])?),
        "not" => format!("NOT ({})", r_expr(&e["a"])?),
        "isnull" => format!("{} IS NULL", r_expr(&e["a"])?),
        "notnull" => format!("{} IS NOT NULL", r_expr(&e["a"])?),
        "true" => "true".to_string(),
        _ => return None,
    })
}
fn uses(e: &J, op: &str) -> bool {
    if e["op"] == op { return true; }
    ["a", "b"].iter().any(|k| e.get(*k).is_some_and(|x| uses(x, op)))
}
pub fn render(q: &J, lang: &str) -> Option<String> {
    if lang == "gql" && (uses(&q["where"], "isnull") || uses(&q["where"], "notnull")) { return None; }
    if lang == "gql" && q.get("owhere").is_some_and(|w| uses(w, "isnull") || uses(w, "notnull")) { return None; }
    let mut s = String::from("MATCH ");
    for (i, p) in q["path"].as_array()?.iter().enumerate() {
        if i % 2 == 0 {
            let labs: String = p["labels"].as_array()?.iter().map(|l| format!(":{}", l.as_str().unwrap())).collect();
            s += &format!("({}{})", p["var"].as_str()?, labs);
        } else {
            let t = p["types"].as_array()?.first().map(|t| format!(":{}", t.as_str().unwrap())).unwrap_or_default();
            let body = match p.get("min") { Some(mn) => format!("[{t}*{}..{}]", mn, p["max"]), None => format!("[{}{}]", p["var"].as_str()?, t) };
            s += &match p["dir"].as_str()? { "out" => format!("-{body}->"), "in" => format!("<-{body}-"), _ => format!("-{body}-") };
        }
    }
    let has_opt = q.get("opt").is_some();
    if has_opt && q["where"]["op"] != "true" {
        if lang == "gql" { return None; }
        s += &format!(" WHERE {}", r_expr(&q["where"])?);
    }
    if let Some(opt) = q.get("opt").and_then(|o| o.as_array()) {
        let (ep, np) = (&opt[0], &opt[1]);
        let t = ep["types"].as_array()?.first().map(|t| format!(":{}", t.as_str().unwrap())).unwrap_or_default();
        let body = format!("[{}{}]", ep["var"].as_str()?, t);
        let labs: String = np["labels"].as_array()?.iter().map(|l| format!(":{}", l.as_str().unwrap())).collect();
        let arrow = match ep["dir"].as_str()? { "out" => format!("-{body}->"), "in" => format!("<-{body}-"), _ => format!("-{body}-") };
        s += &format!(" OPTIONAL MATCH ({}){}({}{})", q["optfrom"].as_str()?, arrow, np["var"].as_str()?, labs);
        if let Some(ow) = q.get("owhere") { s += &format!(" WHERE {}", r_expr(ow)?); }
    }
    if !has_opt && q["where"]["op"] != "true" { s += &format!(" WHERE {}", r_expr(&q["where"])?); }
    s += if q["distinct"] == true { " RETURN DISTINCT " } else { " RETURN " };
    let items: Option<Vec<String>> = q["ret"].as_array()?.iter().map(|it| {
        let e = r_expr(&it["e"])?;
        Some(match it.get("agg").and_then(|a| a.as_str()) { Some(a) => format!("{a}({e})"), None => e })
    }).collect();
    s += &items?.join(", ");
    let ord = q["order"].as_array()?;
    if !ord.is_empty() {
        let ks: Option<Vec<String>> = ord.iter().map(|o| Some(format!("{}{}", r_expr(&o["e"])?, if o["desc"] == true { " DESC" } else { "" }))).collect();
        s += &format!(" ORDER BY {}", ks?.join(", "));
    }
    if q["skip"].as_i64()? > 0 { s += &format!(" SKIP {}", q["skip"]); }
    if q["limit"].as_i64()? >= 0 { s += &format!(" LIMIT {}", q["limit"]); }
    Some(s)
}

/// Gremlin rendering of the part of the core both languages share: a path of typed / directed hops with labels and a
/// conjunction of property comparisons, returning the number of bindings, the (bag of) last node ids, or the distinct
/// last node ids. Returns the abstract query that the text means (for the oracle) and the text.
pub fn render_gremlin(q: &J, variant: usize) -> Option<(J, String)> {
    fn conj<'a>(e: &'a J, out: &mut Vec<&'a J>) -> bool {
        match e["op"].as_str().unwrap_or("") {
            "true" => true,
            "and" => conj(&e["a"], out) && conj(&e["b"], out),
            "cmp" => { if e["a"]["op"] == "prop" && e["b"]["op"] == "const" { out.push(e); true } else { false } }
            _ => false,
        }
    }
    let mut cmps = vec![];
    if q.get("opt").is_some() || !conj(&q["where"], &mut cmps) { return None; }
    if q["path"].as_array()?.iter().any(|p| p.get("min").is_some()) { return None; }
    let has = |var: &str| -> Option<String> {
        let mut s = String::new();
        for c in cmps.iter().filter(|c| c["a"]["var"] == var) {
            let v = match c["b"]["v"]["t"].as_str()? { "int" => c["b"]["v"]["v"].to_string(), "str" => format!("'{}'", c["b"]["v"]["v"].as_str()?), _ => return None };
            let key = c["a"]["key"].as_str()?;
            s += &match c["f"].as_str()? { "=" => format!(".has('{key}', {v})"), "<>" => format!(".has('{key}', neq({v}))"), "<" => format!(".has('{key}', lt({v}))"), "<=" => format!(".has('{key}', lte({v}))"), ">" => format!(".has('{key}', gt({v}))"), _ => format!(".has('{key}', gte({v}))") };
        }
        Some(s)
    };
    let path = q["path"].as_array()?;
    let mut s = String::from("g.V()");
    for (i, p) in path.iter().enumerate() {
        let var = p["var"].as_str()?;
        if i % 2 == 0 {
            for l in p["labels"].as_array()? { s += &format!(".hasLabel('{}')", l.as_str()?); }
            s += &has(var)?;
        } else {
            let t = p["types"].as_array()?.first().map(|t| format!("'{}'", t.as_str().unwrap())).unwrap_or_default();
            let h = has(var)?;
            let dir = p["dir"].as_str()?;
            if h.is_empty() { s += &format!(".{}({t})", match dir { "out" => "out", "in" => "in", _ => "both" }); }
            else { s += &format!(".{}({t}){h}.{}()", match dir { "out" => "outE", "in" => "inE", _ => "bothE" }, match dir { "out" => "inV", "in" => "outV", _ => "otherV" }); }
        }
    }
    let last = path.last()?["var"].as_str()?;
    let mut q2 = json!({"path": q["path"], "where": q["where"], "distinct": false, "order": [], "skip": 0, "limit": -1});
    match variant % 3 {
        0 => { s += ".count()"; q2["ret"] = json!([{"agg": "count", "e": {"op": "id", "var": last}}]); }
        1 => { s += ".id()"; q2["ret"] = json!([{"e": {"op": "id", "var": last}}]); }
        _ => { s += ".dedup().id()"; q2["distinct"] = json!(true); q2["ret"] = json!([{"e": {"op": "id", "var": last}}]); }
    }
    Some((q2, s))
}

/// GraphQL rendering: `{ a(k: 1, filter: {s_ne: "b"}) { k s T(filter: {k_gt: 0}) { k } } }` - a root field per label, scalar fields
/// for properties, a nested field per outgoing edge type; arguments are a conjunction of comparisons on that node.
pub fn render_graphql(q: &J, variant: usize) -> Option<(J, String)> {
    fn conj<'a>(e: &'a J, out: &mut Vec<&'a J>) -> bool {
        match e["op"].as_str().unwrap_or("") {
            "true" => true,
            "and" => conj(&e["a"], out) && conj(&e["b"], out),
            "cmp" => { if e["a"]["op"] == "prop" && e["b"]["op"] == "const" { out.push(e); true } else { false } }
            _ => false,
        }
    }
    if q.get("opt").is_some() { return None; }
    let path = q["path"].as_array()?;
    if path.len() != 1 && path.len() != 3 { return None; }
    if path.iter().any(|p| p.get("min").is_some()) { return None; }
    let l0 = path[0]["labels"].as_array()?;
    if l0.len() != 1 { return None; }
    if path.len() == 3 && (path[1]["dir"] != "out" || path[1]["types"].as_array()?.len() != 1 || !path[2]["labels"].as_array()?.is_empty()) { return None; }
    let mut cmps = vec![];
    if !conj(&q["where"], &mut cmps) { return None; }
    let args = |var: &str| -> Option<String> {
        let mut direct = vec![];
        let mut filt = vec![];
        let mut seen = std::collections::HashSet::new();
        for c in cmps.iter().filter(|c| c["a"]["var"] == var) {
            let v = match c["b"]["v"]["t"].as_str()? { "int" => c["b"]["v"]["v"].to_string(), "str" => format!("\"{}\"", c["b"]["v"]["v"].as_str()?), _ => return None };
            let key = c["a"]["key"].as_str()?;
            let f = c["f"].as_str()?;
            if !seen.insert(format!("{key}{f}")) { return None; }
            match f { "=" => direct.push(format!("{key}: {v}")), "<>" => filt.push(format!("{key}_ne: {v}")), "<" => filt.push(format!("{key}_lt: {v}")), "<=" => filt.push(format!("{key}_lte: {v}")), ">" => filt.push(format!("{key}_gt: {v}")), _ => filt.push(format!("{key}_gte: {v}")) }
        }
        if !filt.is_empty() { direct.push(format!("filter: {{{}}}", filt.join(", "))); }
        Some(if direct.is_empty() { String::new() } else { format!("({})", direct.join(", ")) })
    };
    // every comparison must be on a node of the path
    if cmps.iter().any(|c| !path.iter().step_by(2).any(|p| p["var"] == c["a"]["var"])) { return None; }
    let (v0, keys0): (&str, Vec<&str>) = (path[0]["var"].as_str()?, match variant % 3 { 0 => vec!["k"], 1 => vec!["k", "s"], _ => vec!["u"] });
    let mut ret: Vec<J> = keys0.iter().map(|k| json!({"e": {"op": "prop", "var": v0, "key": k}})).collect();
    let mut body = keys0.join(" ");
    if path.len() == 3 {
        let v1 = path[2]["var"].as_str()?;
        let keys1: Vec<&str> = if variant % 2 == 0 { vec!["k"] } else { vec!["u", "s"] };
        body += &format!(" {}{} {{ {} }}", path[1]["types"][0].as_str()?, args(v1)?, keys1.join(" "));
        ret.extend(keys1.iter().map(|k| json!({"e": {"op": "prop", "var": v1, "key": k}})));
    }
    let root = l0[0].as_str()?.to_lowercase();
    let text = format!("{{ {}{} {{ {} }} }}", root, args(v0)?, body);
    let q2 = json!({"path": q["path"], "where": q["where"], "distinct": false, "order": [], "skip": 0, "limit": -1, "ret": ret});
    Some((q2, text))
}

pub fn exec_graphql_case(g: &Graph, q: &J, variant: usize, cid: usize, out: &mut Out) {
    let Some((q2, text)) = render_graphql(q, variant) else { return };
    let sess = g.db.session();
    let r = crate::util::catch(std::panic::AssertUnwindSafe(|| sess.execute_graphql(&text)));
    let res = match r { Ok(Ok(res)) => Ok(res.rows), Ok(Err(e)) => Err(e.to_string()), Err(p) => Err(format!("panic {p}")) };
    emit_case(out, cid, "graphql", &text, &g.json, &q2, json!({}), res);
}

pub fn exec_gremlin_case(g: &Graph, q: &J, variant: usize, cid: usize, out: &mut Out) {
    let Some((q2, text)) = render_gremlin(q, variant) else { return };
    let sess = g.db.session();
    let r = crate::util::catch(std::panic::AssertUnwindSafe(|| sess.execute_gremlin(&text)));
    let res = match r { Ok(Ok(res)) => Ok(res.rows), Ok(Err(e)) => Err(e.to_string()), Err(p) => Err(format!("panic {p}")) };
    emit_case(out, cid, "gremlin", &text, &g.json, &q2, json!({}), res);
}

pub fn exec_case(g: &Graph, q: &J, lang: &str, cid: usize, out: &mut Out, extra: J) {
    let Some(text) = render(q, lang) else { return };
    let sess = g.db.session();
    let res = crate::sh::exec(&sess, lang, &text);
    let mut case = json!({"cid": cid, "lang": lang, "text": text, "g": g.json, "q": q, "x": extra});
    if let Some(rows) = res.get("rows") {
        // re-tag rows in the oracle's value encoding
        let rr = match lang_rows(&sess, lang, &text) { Some(r) => r, None => rows.clone() };
        case["err"] = json!(false);
        case["rows"] = rr;
    } else {
        case["err"] = json!(true);
        case["rows"] = json!([]);
        case["info"] = res;
    }
    out.emit(&case);
}

fn lang_rows(sess: &grafeo_engine::Session, lang: &str, text: &str) -> Option<J> {
    let r = match lang { "gql" => sess.execute(text), _ => sess.execute_cypher(text) }.ok()?;
    Some(json!(r.rows.iter().map(|row| row.iter().map(tagged).collect::<Vec<_>>()).collect::<Vec<_>>()))
}

fn rows_json(rows: &[Vec<Value>]) -> J {
    json!(rows.iter().map(|row| row.iter().map(tagged).collect::<Vec<_>>()).collect::<Vec<_>>())
}

fn emit_case(out: &mut Out, cid: usize, lang: &str, text: &str, g: &J, q: &J, x: J, res: Result<Vec<Vec<Value>>, String>) {
    let mut case = json!({"cid": cid, "lang": lang, "text": text, "g": g, "q": q, "x": x});
    match res {
        Ok(rows) => { case["err"] = json!(false); case["rows"] = rows_json(&rows); }
        Err(e) => { case["err"] = json!(true); case["rows"] = json!([]); case["info"] = json!(e); }
    }
    out.emit(&case);
}

fn session_rows(sess: &grafeo_engine::Session, lang: &str, text: &str) -> Result<Vec<Vec<Value>>, String> {
    let r = crate::util::catch(std::panic::AssertUnwindSafe(|| match lang { "gql" => sess.execute(text), _ => sess.execute_cypher(text) }));
    match r { Ok(Ok(res)) => Ok(res.rows), Ok(Err(e)) => Err(e.to_string()), Err(p) => Err(format!("panic {p}")) }
}

/// Applies one random mutation through the API and returns the updated graph JSON.
fn mutate(rng: &mut StdRng, g: &mut Graph) {
    let nodes = g.json["nodes"].as_array().cloned().unwrap_or_default();
    let roll = [0, 1, 1, 1, 2, 3, 4, 4, 5][rng.random_range(0..9)];
    if nodes.is_empty() || roll == 0 {
        let i = nodes.len() as i64;
        let k = rng.random_range(0..4);
        let id = g.db.create_node_with_props(&["A"], [("u", Value::Int64(10 + i)), ("k", Value::Int64(k))]);
        g.json["nodes"].as_array_mut().unwrap().push(json!({"id": id.as_u64(), "labels": ["A"], "props": [["u", {"t": "int", "v": 10 + i}], ["k", {"t": "int", "v": k}]]}));
    } else if roll == 1 {
        let idx = rng.random_range(0..nodes.len());
        let id = nodes[idx]["id"].as_u64().unwrap();
        // often the value the node already has (a write that changes nothing must not disturb the index)
        let cur = nodes[idx]["props"].as_array().and_then(|ps| ps.iter().find(|p| p[0] == "k")).and_then(|p| p[1]["v"].as_i64());
        let k = match cur { Some(c) if rng.random_bool(0.45) => c, _ => rng.random_range(0..4) };
        g.db.set_node_property(grafeo_common::types::NodeId::new(id), "k", Value::Int64(k));
        let props = g.json["nodes"][idx]["props"].as_array_mut().unwrap();
        props.retain(|p| p[0] != "k");
        props.push(json!(["k", {"t": "int", "v": k}]));
    } else if roll == 4 || roll == 5 {
        // an explicit NULL is written to k and then overwritten with a value: on one node, or on every node (the column
        // statistics must follow both steps).  No node keeps the explicit NULL, so that what a query reads is an
        // integer or a missing property, as in the rest of the core.
        let targets: Vec<usize> = if roll == 4 { vec![rng.random_range(0..nodes.len())] } else { (0..nodes.len()).collect() };
        for idx in &targets {
            let id = grafeo_common::types::NodeId::new(nodes[*idx]["id"].as_u64().unwrap());
            g.db.set_node_property(id, "k", Value::Null);
        }
        for idx in &targets {
            let id = grafeo_common::types::NodeId::new(nodes[*idx]["id"].as_u64().unwrap());
            let k = rng.random_range(0..4);
            g.db.set_node_property(id, "k", Value::Int64(k));
            let props = g.json["nodes"][*idx]["props"].as_array_mut().unwrap();
            props.retain(|p| p[0] != "k");
            props.push(json!(["k", {"t": "int", "v": k}]));
        }
    } else if roll == 2 {
        let edges = g.json["edges"].as_array().cloned().unwrap_or_default();
        if !edges.is_empty() {
            let idx = rng.random_range(0..edges.len());
            g.db.delete_edge(grafeo_common::types::EdgeId::new(edges[idx]["id"].as_u64().unwrap()));
            g.json["edges"].as_array_mut().unwrap().remove(idx);
        }
    } else {
        let (a, b) = (nodes[rng.random_range(0..nodes.len())]["id"].as_u64().unwrap(), nodes[rng.random_range(0..nodes.len())]["id"].as_u64().unwrap());
        let id = g.db.create_edge(grafeo_common::types::NodeId::new(a), grafeo_common::types::NodeId::new(b), "T");
        g.json["edges"].as_array_mut().unwrap().push(json!({"id": id.as_u64(), "src": a, "dst": b, "type": "T", "props": []}));
    }
}

pub fn main(o: &Opts) -> i32 {
    crate::util::silence_panics();
    let mut out = Out::create(&o.str("out", "cases.ndjson"));
    let mut rng = StdRng::seed_from_u64(o.u64("seed", 1));
    let ngraphs = o.usize("graphs", 50);
    let nq = o.usize("queries", 10);
    let profile = o.str("profile", "mixed");
    let mode = o.str("mode", "sem");
    let mut cid = 0;
    for gi in 0..ngraphs {
        // walks multiply quickly: variable-length cases use smaller graphs
        let (maxn, maxe) = if profile == "varlen" { (o.usize("maxn", 5).min(4), o.usize("maxe", 7).min(5)) } else { (o.usize("maxn", 5), o.usize("maxe", 7)) };
        let mut g = gen_graph(&mut rng, maxn, maxe);
        match mode.as_str() {
            // C09: every optimizer configuration x statistics state must give the oracle's answer
            "opt" => {
                match gi % 3 { 1 => g.db.store().compute_statistics(), 2 => { g.db.store().compute_statistics(); for _ in 0..3 { mutate(&mut rng, &mut g); } } _ => {} }
                for _ in 0..nq {
                    let q = gen_query(&mut rng, &profile);
                    for lang in ["gql", "cypher"] {
                        let Some(text) = render(&q, lang) else { continue };
                        for cfg in [None, Some((false, false, false)), Some((true, false, false)), Some((false, true, false)), Some((false, false, true)), Some((true, true, false)), Some((true, false, true)), Some((false, true, true)), Some((true, true, true))] {
                            cid += 1;
                            let r = exec_pipeline(&g.db, lang, &text, cfg, true);
                            let st = ["never", "fresh", "stale"][gi % 3];
                            emit_case(&mut out, cid, lang, &text, &g.json, &q, json!({"opt": format!("{cfg:?}"), "stats": st}), r);
                        }
                    }
                }
            }
            // C10: indexes, factorized on/off, plan cache cold/warm, re-execution after data changes
            "phys" => {
                let idx: Vec<&str> = match gi % 4 { 0 => vec![], 1 => vec!["k"], 2 => vec!["s"], _ => vec!["k", "s"] };
                if gi % 2 == 0 { for k in &idx { g.db.create_property_index(k); } }
                let sess = g.db.session();
                for qi in 0..nq {
                    let q = gen_query(&mut rng, &profile);
                    for lang in ["gql", "cypher"] {
                        let Some(text) = render(&q, lang) else { continue };
                        cid += 1;
                        emit_case(&mut out, cid, lang, &text, &g.json, &q, json!({"idx": idx, "via": "session-cold"}), session_rows(&sess, lang, &text));
                        cid += 1;
                        emit_case(&mut out, cid, lang, &text, &g.json, &q, json!({"idx": idx, "via": "session-warm"}), session_rows(&sess, lang, &text));
                        for fact in [true, false] {
                            cid += 1;
                            emit_case(&mut out, cid, lang, &text, &g.json, &q, json!({"idx": idx, "via": format!("pipeline factorized={fact}")}), exec_pipeline(&g.db, lang, &text, Some((true, true, true)), fact));
                        }
                        // the data changes, the same query text is executed again (cached plan)
                        for _ in 0..rng.random_range(1..=5) { mutate(&mut rng, &mut g); }
                        cid += 1;
                        emit_case(&mut out, cid, lang, &text, &g.json, &q, json!({"idx": idx, "via": "session-after-change"}), session_rows(&sess, lang, &text));
                    }
                    if gi % 2 == 1 && qi == nq / 2 { for k in &idx { g.db.create_property_index(k); } }
                    if qi == nq - 2 { for k in &idx { g.db.drop_property_index(k); } }
                }
            }
            _ => {
                for _ in 0..nq {
                    let q = gen_query(&mut rng, &profile);
                    for lang in ["gql", "cypher"] {
                        cid += 1;
                        if o.usize("probe-cid", 0) == cid {
                            let text = o.get("probe-text").map(|s| s.to_string()).unwrap_or_else(|| render(&q, lang).unwrap_or_default());
                            println!("PROBE {text}");
                            for cfg in [None, Some((true, true, true))] {
                                for fact in [true, false] {
                                    let r = exec_pipeline(&g.db, lang, &text, cfg, fact);
                                    println!("  opt={cfg:?} factorized={fact} -> {:?}", r.map(|rows| rows.iter().map(|r| r.iter().map(|v| format!("{v:?}")).collect::<Vec<_>>().join(",")).collect::<Vec<_>>()));
                                }
                            }
                        }
                        exec_case(&g, &q, lang, cid, &mut out, json!({}));
                    }
                    if o.flag("gremlin") {
                        cid += 1;
                        exec_gremlin_case(&g, &q, cid, cid, &mut out);
                        cid += 1;
                        exec_graphql_case(&g, &q, cid, cid, &mut out);
                    }
                }
            }
        }
    }
    let n = out.n;
    out.finish();
    println!("{{\"cases\": {n}}}");
    0
}

/// Builds the pipeline by hand from the public parts with an explicit optimizer configuration.
pub fn exec_pipeline(db: &GrafeoDB, lang: &str, text: &str, opt: Option<(bool, bool, bool)>, factorized: bool) -> Result<Vec<Vec<Value>>, String> {
    use grafeo_engine::query::{binder::Binder, optimizer::Optimizer, Executor, Planner};
    let r = crate::util::catch(std::panic::AssertUnwindSafe(|| -> Result<Vec<Vec<Value>>, String> {
        let plan = match lang {
            "gql" => grafeo_engine::query::translate_gql(text),
            _ => grafeo_engine::query::translate_cypher(text),
        }
        .map_err(|e| e.to_string())?;
        let mut binder = Binder::new();
        binder.bind(&plan).map_err(|e| e.to_string())?;
        let plan = match opt {
            None => plan,
            Some((fp, jr, pp)) => Optimizer::from_store(db.store()).with_filter_pushdown(fp).with_join_reorder(jr).with_projection_pushdown(pp).optimize(plan).map_err(|e| e.to_string())?,
        };
        let planner = Planner::new(std::sync::Arc::clone(db.store())).with_factorized_execution(factorized);
        let mut phys = planner.plan(&plan).map_err(|e| e.to_string())?;
        let ex = Executor::with_columns(phys.columns.clone());
        let res = ex.execute(phys.operator.as_mut()).map_err(|e| e.to_string())?;
        Ok(res.rows)
    }));
    match r { Ok(x) => x, Err(p) => Err(format!("panic {p}")) }
}

pub fn probe(o: &Opts) -> i32 {
    let db = GrafeoDB::new_in_memory();
    for l in std::fs::read_to_string(o.str("setup", "/dev/null")).unwrap_or_default().lines() {
        let _ = db.session().execute(l);
    }
    let text = o.str("q", "MATCH (n) RETURN id(n)");
    if let Ok(pl) = grafeo_engine::query::translate_gql(&text) { println!("{:#?}", pl.root); }
    for cfg in [None, Some((false, false, false)), Some((true, false, false)), Some((false, true, false)), Some((false, false, true)), Some((true, true, true))] {
        let r = exec_pipeline(&db, &o.str("lang", "gql"), &text, cfg, true);
        println!("{cfg:?} -> {:?}", r.map(|rows| rows.iter().map(|r| r.iter().map(|v| format!("{v:?}")).collect::<Vec<_>>().join(",")).collect::<Vec<_>>()));
    }
    0
}
