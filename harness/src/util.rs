use std::collections::HashMap;
use std::io::Write;

pub struct Opts {
    pub kv: HashMap<String, String>,
}

impl Opts {
    pub fn parse(args: &[String]) -> Self {
        let mut kv = HashMap::new();
        let mut i = 0;
        while i < args.len() {
            let a = &args[i];
            if let Some(k) = a.strip_prefix("--") {
                if i + 1 < args.len() && !args[i + 1].starts_with("--") {
                    kv.insert(k.to_string(), args[i + 1].clone());
                    i += 2;
                } else {
                    kv.insert(k.to_string(), "true".to_string());
                    i += 1;
                }
            } else {
                i += 1;
            }
        }
        Self { kv }
    }
    pub fn get(&self, k: &str) -> Option<&str> {
        self.kv.get(k).map(|s| s.as_str())
    }
    pub fn str(&self, k: &str, d: &str) -> String {
        self.get(k).unwrap_or(d).to_string()
    }
    pub fn u64(&self, k: &str, d: u64) -> u64 {
        self.get(k).and_then(|s| s.parse().ok()).unwrap_or(d)
    }
    pub fn usize(&self, k: &str, d: usize) -> usize {
        self.get(k).and_then(|s| s.parse().ok()).unwrap_or(d)
    }
    pub fn flag(&self, k: &str) -> bool {
        self.get(k).is_some()
    }
}

/// ndjson writer
pub struct Out {
    w: std::io::BufWriter<std::fs::File>,
    pub n: usize,
}

impl Out {
    pub fn create(path: &str) -> Self {
        Self { w: std::io::BufWriter::new(std::fs::File::create(path).expect("create out")), n: 0 }
    }
    pub fn emit(&mut self, v: &serde_json::Value) {
        serde_json::to_writer(&mut self.w, v).unwrap();
        self.w.write_all(b"\n").unwrap();
        self.n += 1;
    }
    pub fn finish(mut self) {
        self.w.flush().unwrap();
    }
}

pub fn read_ndjson(path: &str) -> Vec<serde_json::Value> {
    let s = std::fs::read_to_string(path).expect("read ndjson");
    s.lines().filter(|l| !l.trim().is_empty()).map(|l| serde_json::from_str(l).expect("json line")).collect()
}

/// Runs `f` catching panics; returns Err(message) on panic. The default panic hook is silenced.
pub fn catch<T>(f: impl FnOnce() -> T + std::panic::UnwindSafe) -> Result<T, String> {
    match std::panic::catch_unwind(f) {
        Ok(v) => Ok(v),
        Err(e) => {
            let msg = if let Some(s) = e.downcast_ref::<&str>() {
                (*s).to_string()
            } else if let Some(s) = e.downcast_ref::<String>() {
                s.clone()
            } else {
                "panic".to_string()
            };
            Err(msg)
        }
    }
}

pub fn silence_panics() {
    std::panic::set_hook(Box::new(|_| {}));
}
