//! Value <-> tagged JSON (DESIGN §6: only ASCII strings and small integers cross the TLC boundary).
use grafeo_common::types::Value;
use serde_json::{json, Value as J};

pub fn to_json(v: &Value) -> J {
    match v {
        Value::Null => json!({"t": "null"}),
        Value::Bool(b) => json!({"t": "bool", "v": b}),
        Value::Int64(i) => {
            if *i >= -1_000_000 && *i <= 1_000_000 {
                json!({"t": "int", "v": i})
            } else {
                json!({"t": "bigint", "v": i.to_string()})
            }
        }
        Value::Float64(f) => json!({"t": "float", "v": format!("{f:?}")}),
        Value::String(s) => json!({"t": "str", "v": s.as_str()}),
        Value::List(l) => json!({"t": "list", "v": l.iter().map(to_json).collect::<Vec<_>>()}),
        other => json!({"t": "other", "v": format!("{other:?}")}),
    }
}
