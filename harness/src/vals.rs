//! C16: evaluates the equality / hash / order relations and serialisation round trips of property values
//! on a universe of values and logs them as matrices; spec/misc/ValueLaws.tla states the laws.
use crate::snap::{canon, values};
use crate::util::{Opts, Out};
use grafeo_common::types::{HashableValue, OrderableValue, Value};
use grafeo_engine::GrafeoDB;
use rand::rngs::StdRng;
use rand::{Rng, SeedableRng};
use serde_json::json;
use std::hash::{BuildHasher, Hash, Hasher};

fn h<T: Hash>(x: &T) -> u64 {
    let mut s = std::collections::hash_map::RandomState::new().build_hasher();
    let _ = &mut s;
    let mut d = std::collections::hash_map::DefaultHasher::new();
    x.hash(&mut d);
    d.finish()
}

pub fn universe(rng: &mut StdRng, extra: usize) -> Vec<(String, Value)> {
    let mut u: Vec<(String, Value)> = values().into_iter().filter(|(n, _)| *n != "slong").map(|(n, v)| (n.to_string(), v)).collect();
    let p53 = 1i64 << 53;
    for (n, v) in [
        ("i1", Value::Int64(1)), ("f1", Value::Float64(1.0)), ("s1", Value::String("1".into())), ("im1", Value::Int64(-1)), ("fm1", Value::Float64(-1.0)),
        ("ip53", Value::Int64(p53)), ("ip53p1", Value::Int64(p53 + 1)), ("ip53m1", Value::Int64(p53 - 1)), ("fp53", Value::Float64(p53 as f64)), ("fp53p2", Value::Float64((p53 + 2) as f64)),
        ("fimax", Value::Float64(i64::MAX as f64)), ("fimin", Value::Float64(i64::MIN as f64)), ("f15", Value::Float64(1.5)), ("i2", Value::Int64(2)),
        ("lnan", Value::List(vec![Value::Float64(f64::NAN)].into())), ("lnan_b", Value::List(vec![Value::Float64(f64::NAN)].into())),
        ("l0", Value::List(vec![Value::Float64(0.0)].into())), ("lneg0", Value::List(vec![Value::Float64(-0.0)].into())),
        ("strue", Value::String("true".into())), ("sa", Value::String("a".into())), ("sA", Value::String("A".into())), ("sab", Value::String("ab".into())),
    ] {
        u.push((n.to_string(), v));
    }
    for i in 0..extra {
        let v = match rng.random_range(0..5) {
            0 => Value::Int64(rng.random()),
            1 => Value::Float64(f64::from_bits(rng.random())),
            2 => Value::Int64(rng.random_range(-3..3)),
            3 => Value::Float64(rng.random_range(-3..3) as f64),
            _ => Value::String(format!("r{}", rng.random_range(0..5)).into()),
        };
        u.push((format!("rnd{i}"), v));
    }
    u
}

pub fn main(o: &Opts) -> i32 {
    let mut rng = StdRng::seed_from_u64(o.u64("seed", 1));
    let u = universe(&mut rng, o.usize("extra", 10));
    let n = u.len();
    let hv: Vec<HashableValue> = u.iter().map(|(_, v)| HashableValue::new(v.clone())).collect();
    let eq_h: Vec<Vec<u8>> = (0..n).map(|i| (0..n).map(|j| (hv[i] == hv[j]) as u8).collect()).collect();
    let h_h: Vec<Vec<u8>> = (0..n).map(|i| (0..n).map(|j| (h(&hv[i]) == h(&hv[j])) as u8).collect()).collect();
    let ord: Vec<(usize, OrderableValue)> = u.iter().enumerate().filter_map(|(i, (_, v))| OrderableValue::try_from(v).map(|o| (i, o))).collect();
    let no = ord.len();
    let eq_o: Vec<Vec<u8>> = (0..no).map(|i| (0..no).map(|j| (ord[i].1 == ord[j].1) as u8).collect()).collect();
    let h_o: Vec<Vec<u8>> = (0..no).map(|i| (0..no).map(|j| (h(&ord[i].1) == h(&ord[j].1)) as u8).collect()).collect();
    let cmp_o: Vec<Vec<i8>> = (0..no).map(|i| (0..no).map(|j| match ord[i].1.cmp(&ord[j].1) { std::cmp::Ordering::Less => -1, std::cmp::Ordering::Equal => 0, _ => 1 }).collect()).collect();
    // round trips, compared bit-exactly through the canonical rendering
    let rt_spill: Vec<u8> = u.iter().map(|(_, v)| {
        let mut buf = vec![];
        let ok = grafeo_core::execution::spill::serialize_value(v, &mut buf).is_ok();
        (ok && grafeo_core::execution::spill::deserialize_value(&mut &buf[..]).map(|x| canon(&x) == canon(v)).unwrap_or(false)) as u8
    }).collect();
    let dir = std::path::PathBuf::from(o.str("dir", "/tmp/gv-vals"));
    let _ = std::fs::remove_dir_all(&dir);
    let ids: Vec<_> = {
        let db = GrafeoDB::open(&dir).expect("open");
        let ids: Vec<_> = u.iter().map(|(_, v)| db.create_node_with_props(&["V"], [("v", v.clone())])).collect();
        db.close().unwrap();
        ids
    };
    let db = GrafeoDB::open(&dir).expect("reopen");
    let rt_wal: Vec<u8> = u.iter().zip(&ids).map(|((_, v), id)| db.get_node(*id).and_then(|n| n.get_property("v").cloned()).map(|x| canon(&x) == canon(v)).unwrap_or(false) as u8).collect();
    let copy = GrafeoDB::import_snapshot(&db.export_snapshot().unwrap()).unwrap();
    let rt_snap: Vec<u8> = u.iter().zip(&ids).map(|((_, v), id)| copy.get_node(*id).and_then(|n| n.get_property("v").cloned()).map(|x| canon(&x) == canon(v)).unwrap_or(false) as u8).collect();
    let _ = db.close();
    let _ = std::fs::remove_dir_all(&dir);
    // dense snapshots: millions of small values (each costs the decoder several times its encoded size)
    let rt_snap_big: Vec<u8> = if o.flag("big") {
        let dense: Vec<Value> = vec![
            Value::List((0..6_000_000i64).map(|i| Value::Int64(i % 100)).collect::<Vec<_>>().into()),
            Value::List((0..1_500_000i64).map(|i| Value::List(vec![Value::Int64(i % 7), Value::Bool(i % 2 == 0), Value::Null].into())).collect::<Vec<_>>().into()),
        ];
        dense.iter().map(|v| {
            let bdb = GrafeoDB::new_in_memory();
            let id = bdb.create_node_with_props(&["Big"], [("v", v.clone()), ("tmin", Value::Timestamp(grafeo_common::types::Timestamp::from_micros(i64::MIN))), ("tmax", Value::Timestamp(grafeo_common::types::Timestamp::from_micros(i64::MAX)))]);
            let r = crate::util::catch(std::panic::AssertUnwindSafe(|| bdb.export_snapshot().ok().and_then(|b| GrafeoDB::import_snapshot(&b).ok()).and_then(|c| c.get_node(id).and_then(|n| n.get_property("v").cloned())).map(|x| x == *v).unwrap_or(false)));
            r.unwrap_or(false) as u8
        }).collect()
    } else { vec![] };
    // consequences: sorting with the orderable wrapper puts eq-equal values next to each other; a hash set / BTree set keyed by the
    // wrappers holds exactly one entry per equivalence class
    // (a panic inside std's sort - "comparison function does not implement a total order" - counts as a failed check)
    crate::util::silence_panics();
    let mut grp = vec![];
    let classes_o = { let mut c = 0; for i in 0..no { if (0..i).all(|j| eq_o[i][j] == 0) { c += 1; } } c };
    let classes_h = { let mut c = 0; for i in 0..n { if (0..i).all(|j| eq_h[i][j] == 0) { c += 1; } } c };
    let ordv: Vec<OrderableValue> = ord.iter().map(|x| x.1.clone()).collect();
    let t = |f: &dyn Fn() -> bool| -> u8 { crate::util::catch(std::panic::AssertUnwindSafe(f)).unwrap_or(false) as u8 };
    grp.push(t(&|| ordv.iter().cloned().collect::<std::collections::BTreeSet<OrderableValue>>().len() == classes_o));
    grp.push(t(&|| ordv.iter().cloned().collect::<std::collections::HashSet<OrderableValue>>().len() == classes_o));
    grp.push(t(&|| hv.iter().cloned().collect::<std::collections::HashSet<HashableValue>>().len() == classes_h));
    grp.push(t(&|| {
        let mut sorted: Vec<usize> = (0..no).collect();
        sorted.sort_by(|a, b| ordv[*a].cmp(&ordv[*b]));
        (0..no).all(|i| { let pos: Vec<usize> = (0..no).filter(|p| eq_o[sorted[*p]][sorted[i]] == 1).collect(); pos.last().unwrap() - pos[0] + 1 == pos.len() })
    }));
    let mut out = Out::create(&o.str("out", "vals.ndjson"));
    out.emit(&json!({"n": n, "no": no, "names": u.iter().map(|x| x.0.clone()).collect::<Vec<_>>(), "ord": ord.iter().map(|x| x.0 + 1).collect::<Vec<_>>(),
                     "canon": u.iter().map(|x| { let c = canon(&x.1); c.chars().take(40).collect::<String>() }).collect::<Vec<_>>(),
                     "eqH": eq_h, "hH": h_h, "eqO": eq_o, "hO": h_o, "cmpO": cmp_o, "rtSpill": rt_spill, "rtWal": rt_wal, "rtSnap": rt_snap, "rtSnapBig": rt_snap_big, "grp": grp}));
    out.finish();
    println!("{{\"n\": {n}, \"no\": {no}}}");
    0
}
