//! `gv` — conformance harness binding the TLA+ specifications in /verif/spec to the real grafeo code.
//! The harness contains drivers and recorders only; every oracle lives in TLA+ and is evaluated by TLC.
mod util;
mod txm;
mod sh;
mod mvcc;
mod wal;
mod rdf;
mod conc;
mod lpg;
mod adj;
mod snap;
mod vals;
mod codec;
mod pcol;
mod galgo;
mod vecidx;
mod exec;
mod front;
mod sparql;
mod q;
mod qmeta;
mod txstress;
mod conc_txm;
mod conc_buf;
mod conc_lpg;
mod val;
mod rdftx;

fn main() {
    let args: Vec<String> = std::env::args().skip(1).collect();
    let Some(cmd) = args.first() else {
        eprintln!("usage: gv <subcommand> [--key value ...]");
        std::process::exit(2);
    };
    let opts = util::Opts::parse(&args[1..]);
    let rc = match cmd.as_str() {
        "txm" => txm::main(&opts),
        "sh" => sh::main(&opts),
        "mvcc" => mvcc::main(&opts),
        "wal" => wal::main(&opts),
        "rdf" => rdf::main(&opts),
        "conc" => conc::main(&opts),
        "lpg" => lpg::main(&opts),
        "adj" => adj::main(&opts),
        "snap" => snap::fidelity(&opts),
        "vals" => vals::main(&opts),
        "codec" => codec::main(&opts),
        "pcol" => pcol::main(&opts),
        "galgo" => galgo::main(&opts),
        "vec" => vecidx::main(&opts),
        "exec" => exec::main(&opts),
        "front" => front::main(&opts),
        "sparql" => sparql::main(&opts),
        "rdftx" => rdftx::main(&opts),
        "snapfault" => snap::faults(&opts),
        "q" => q::main(&opts),
        "qprobe" => q::probe(&opts),
        "qmeta" => qmeta::main(&opts),
        "txstress" => txstress::main(&opts),
        "lpgstress" => conc_lpg::stress(&opts),
        _ => {
            eprintln!("unknown subcommand {cmd}");
            2
        }
    };
    std::process::exit(rc);
}
