//! Controlled-schedule runs of real threads through the cfg(grafeo_verif) yield points (binding C):
//! every step between two yield points is granted by the controller, recorded with its label, and the
//! recorded schedule + results + quiescent projection are validated against spec/conc/*.tla by TLC.
use crate::util::{Opts, Out};
use grafeo_common::verif as yp;
use rand::rngs::StdRng;
use rand::{Rng, SeedableRng};
use serde_json::{json, Value as J};
use std::sync::Arc;

type Body = Box<dyn FnOnce() -> Vec<J> + Send>;

/// Runs the bodies on real threads; `choose(parked, step_no)` picks the index (into `parked`) of the thread to run next.
pub fn run_controlled(bodies: Vec<Body>, choose: &mut dyn FnMut(&[(usize, &'static str)], usize) -> usize) -> (Vec<J>, Vec<Vec<J>>, Vec<usize>) {
    yp::reset();
    let n = bodies.len();
    let mut handles = vec![];
    for (i, b) in bodies.into_iter().enumerate() {
        handles.push(std::thread::spawn(move || {
            yp::register(i + 1);
            let r = crate::util::catch(std::panic::AssertUnwindSafe(b));
            yp::finish();
            r
        }));
    }
    let mut steps = vec![];
    let mut branching = vec![];
    loop {
        let parked = yp::wait_quiescent(n);
        if parked.is_empty() {
            break;
        }
        let k = choose(&parked, steps.len()).min(parked.len() - 1);
        branching.push(parked.len());
        steps.push(json!({"a": "step", "th": parked[k].0, "lb": parked[k].1}));
        yp::grant(parked[k].0);
    }
    let rets = handles.into_iter().map(|h| match h.join().unwrap() { Ok(v) => v, Err(p) => vec![json!({"panic": p})] }).collect();
    (steps, rets, branching)
}

/// Systematic enumeration of schedules (depth-first over choice vectors), capped.
pub struct Enumerator {
    pub prefix: Vec<usize>,
    pub done: bool,
}
impl Enumerator {
    pub fn new() -> Self { Self { prefix: vec![], done: false } }
    pub fn advance(&mut self, taken: &[usize], branching: &[usize]) {
        // find the last position that can still be incremented
        let mut i = taken.len();
        while i > 0 {
            i -= 1;
            if taken[i] + 1 < branching[i] {
                self.prefix = taken[..i].to_vec();
                self.prefix.push(taken[i] + 1);
                return;
            }
        }
        self.done = true;
    }
}

// ------------------------------------------------------------------ RdfStore programs
fn rdf_bodies(prog: &J, store: &Arc<grafeo_core::graph::rdf::RdfStore>) -> Vec<Body> {
    prog.as_array().unwrap().iter().map(|ops| {
        let ops = ops.clone();
        let st = Arc::clone(store);
        Box::new(move || {
            let mut out = vec![];
            for op in ops.as_array().unwrap() {
                let t = op[1].as_array().unwrap();
                let tt = [t[0].as_u64().unwrap() as usize, t[1].as_u64().unwrap() as usize, t[2].as_u64().unwrap() as usize];
                let r = if op[0] == "ins" { st.insert(crate::rdf::triple(&tt)) } else { st.remove(&crate::rdf::triple(&tt)) };
                out.push(json!(r));
            }
            out
        }) as Body
    }).collect()
}

fn run_one(model: &str, prog: &J, chooser: &mut dyn FnMut(&[(usize, &'static str)], usize) -> usize) -> (Vec<J>, J, Vec<usize>) {
    match model {
        "rdf" => {
            let run = crate::rdf::Run::new(true, 3, 1);
            let (steps, rets, br) = run_controlled(rdf_bodies(prog, &run.store), chooser);
            (steps, json!({"a": "end", "rets": rets, "obs": run.obs()}), br)
        }
        "txm" => crate::conc_txm::run(prog, chooser),
        "buf" => crate::conc_buf::run(prog, chooser),
        "lpg" => crate::conc_lpg::run(prog, chooser),
        _ => panic!("unknown model"),
    }
}

pub fn main(o: &Opts) -> i32 {
    crate::util::silence_panics();
    let model = o.str("model", "rdf");
    let progs = crate::util::read_ndjson(&o.str("progs", "progs.ndjson"));
    let mut out = Out::create(&o.str("out", "trace.ndjson"));
    let mut rng = StdRng::seed_from_u64(o.u64("seed", 1));
    let nrand = o.usize("random", 50);
    let cap = o.usize("enumerate", 0);
    let mut runs = 0usize;
    for p in &progs {
        let prog = &p["prog"];
        // explicit schedules (e.g. TLC counterexamples): list of thread ids
        if let Some(scheds) = p.get("schedules").and_then(|s| s.as_array()) {
            for sch in scheds {
                let want: Vec<usize> = sch.as_array().unwrap().iter().map(|x| x.as_u64().unwrap() as usize).collect();
                let mut ch = |parked: &[(usize, &'static str)], i: usize| -> usize { want.get(i).and_then(|w| parked.iter().position(|p| p.0 == *w)).unwrap_or(0) };
                let (steps, end, _) = run_one(&model, prog, &mut ch);
                out.emit(&json!({"a": "reset", "prog": prog, "name": p["name"]}));
                for s in steps { out.emit(&s); }
                out.emit(&end);
                runs += 1;
            }
        }
        if cap > 0 {
            let mut en = Enumerator::new();
            let mut count = 0;
            while !en.done && count < cap {
                let pre = en.prefix.clone();
                let mut taken = vec![];
                let mut ch = |_parked: &[(usize, &'static str)], i: usize| -> usize { let c = pre.get(i).copied().unwrap_or(0); taken.push(c); c };
                let (steps, end, br) = run_one(&model, prog, &mut ch);
                out.emit(&json!({"a": "reset", "prog": prog, "name": p["name"]}));
                for s in steps { out.emit(&s); }
                out.emit(&end);
                en.advance(&taken, &br);
                count += 1;
                runs += 1;
            }
        }
        for _ in 0..nrand {
            let mut ch = |parked: &[(usize, &'static str)], _i: usize| -> usize { rng.random_range(0..parked.len()) };
            let (steps, end, _) = run_one(&model, prog, &mut ch);
            out.emit(&json!({"a": "reset", "prog": prog, "name": p["name"]}));
            for s in steps { out.emit(&s); }
            out.emit(&end);
            runs += 1;
        }
    }
    let n = out.n;
    out.finish();
    println!("{{\"runs\": {runs}, \"events\": {n}}}");
    0
}
