//! C13 (SPARQL half): histories of INSERT DATA / DELETE DATA and generated SELECT queries (basic graph patterns with shared
//! variables, FILTER, OPTIONAL, UNION, DISTINCT, LIMIT, COUNT(*)) run through GrafeoDB::session().execute_sparql; every
//! event is recorded with terms encoded as the small integers of spec/store/SparqlSem.tla, which evaluates the algebra.
use crate::util::{catch, Opts, Out};
use grafeo_common::types::Value;
use grafeo_engine::GrafeoDB;
use rand::rngs::StdRng;
use rand::{Rng, SeedableRng};
use serde_json::{json, Value as J};
use std::panic::AssertUnwindSafe;

fn term_text(id: i64) -> String {
    match id {
        1..=9 => format!("<http://x/s{id}>"),
        11..=19 => format!("<http://x/p{}>", id - 10),
        21..=29 => format!("\"{}\"", (b'a' + (id - 21) as u8) as char),
        _ => format!("{}", id - 30),
    }
}
fn decode(v: &Value) -> i64 {
    match v {
        Value::Null => 0,
        Value::Int64(i) => *i,
        Value::String(s) => {
            let s = s.as_str();
            if let Some(n) = s.strip_prefix("http://x/s") { n.parse().unwrap_or(-1) }
            else if let Some(n) = s.strip_prefix("http://x/p") { n.parse::<i64>().map(|x| x + 10).unwrap_or(-1) }
            else if s.len() == 1 && s.as_bytes()[0].is_ascii_lowercase() { 21 + (s.as_bytes()[0] - b'a') as i64 }
            else if let Ok(n) = s.parse::<i64>() { 30 + n }
            else { -1 }
        }
        _ => -2,
    }
}
fn t_text(t: &J) -> String { if let Some(v) = t.get("v") { format!("?{}", v.as_str().unwrap()) } else { term_text(t["c"].as_i64().unwrap()) } }
fn expr_text(e: &J) -> String {
    match e["f"].as_str().unwrap() {
        "and" => return format!("({} && {})", expr_text(&e["a"]), expr_text(&e["b"])),
        "or" => return format!("({} || {})", expr_text(&e["a"]), expr_text(&e["b"])),
        "not" => return format!("!({})", expr_text(&e["a"])),
        _ => {}
    }
    let v = e["v"].as_str().unwrap();
    match e["f"].as_str().unwrap() {
        f @ ("in" | "nin") => format!("?{v} {} ({})", if f == "in" { "IN" } else { "NOT IN" }, e["cs"].as_array().unwrap().iter().map(|c| term_text(c.as_i64().unwrap())).collect::<Vec<_>>().join(", ")),
        "bound" => format!("BOUND(?{v})"), "nbound" => format!("!BOUND(?{v})"),
        f => format!("?{v} {} {}", match f { "eq" => "=", "ne" => "!=", "lt" => "<", _ => ">" }, term_text(e["c"].as_i64().unwrap())),
    }
}
fn group_text(g: &J) -> String {
    let mut s = String::from("{ ");
    for e in g.as_array().unwrap() {
        match e["k"].as_str().unwrap() {
            "tp" => s += &format!("{} {} {} . ", t_text(&e["s"]), t_text(&e["p"]), t_text(&e["o"])),
            "filter" => s += &format!("FILTER({}) ", expr_text(&e["e"])),
            "opt" => s += &format!("OPTIONAL {} ", group_text(&e["g"])),
            "minus" => s += &format!("MINUS {} ", group_text(&e["g"])),
            "values" => s += &format!("VALUES ?{} {{ {} }} ", e["v"].as_str().unwrap(), e["cs"].as_array().unwrap().iter().map(|c| term_text(c.as_i64().unwrap())).collect::<Vec<_>>().join(" ")),
            _ => s += &format!("{} UNION {} ", group_text(&e["a"]), group_text(&e["b"])),
        }
    }
    s + "}"
}
fn query_text(q: &J) -> String {
    let sel: Vec<String> = q["sel"].as_array().unwrap().iter().map(|v| format!("?{}", v.as_str().unwrap())).collect();
    let order = q.get("order").map(|o| if o["desc"].as_bool().unwrap() { format!(" ORDER BY DESC(?{})", o["v"].as_str().unwrap()) } else { format!(" ORDER BY ?{}", o["v"].as_str().unwrap()) }).unwrap_or_default();
    if let Some(gv) = q.get("group").and_then(|x| x.as_str()) {
        let having = q.get("having").map(|h| format!(" HAVING (COUNT(*) {} {})", match h["f"].as_str().unwrap() { "gt" => ">", "eq" => "=", _ => ">=" }, h["n"])).unwrap_or_default();
        return format!("SELECT ?{gv} (COUNT(*) AS ?c) WHERE {} GROUP BY ?{gv}{having}", group_text(&q["where"]));
    }
    let head = if q["count"].as_bool().unwrap() { "SELECT (COUNT(*) AS ?c)".to_string() } else { format!("SELECT {}{}", if q["distinct"].as_bool().unwrap() { "DISTINCT " } else { "" }, sel.join(" ")) };
    let lim = q["limit"].as_i64().unwrap();
    let off = q.get("offset").and_then(|x| x.as_i64()).map(|o| format!(" OFFSET {o}")).unwrap_or_default();
    format!("{head} WHERE {}{order}{}{off}", group_text(&q["where"]), if lim >= 0 { format!(" LIMIT {lim}") } else { String::new() })
}

struct Gen<'a> { rng: &'a mut StdRng, ns: i64, vars: Vec<(String, u8)> } // var kinds: 0 iri, 1 string, 2 int, 3 any
impl Gen<'_> {
    fn var(&mut self, kind: u8, fresh_p: f64) -> J {
        let same: Vec<String> = self.vars.iter().filter(|(_, k)| *k == kind).map(|(n, _)| n.clone()).collect();
        if !same.is_empty() && !self.rng.random_bool(fresh_p) { return json!({"v": same[self.rng.random_range(0..same.len())]}); }
        let name = format!("{}{}", ["s", "t", "n", "w"][kind as usize], self.vars.len());
        self.vars.push((name.clone(), kind));
        json!({"v": name})
    }
    fn tp(&mut self) -> J {
        let s = if self.rng.random_bool(0.75) { self.var(0, 0.5) } else { json!({"c": self.rng.random_range(1..=self.ns)}) };
        if self.rng.random_bool(0.1) {
            // a variable predicate: the object may then be of any kind (no filter is generated on it)
            let name = format!("p{}", self.vars.len()); self.vars.push((name.clone(), 3));
            let on = format!("w{}", self.vars.len()); self.vars.push((on.clone(), 3));
            return json!({"k": "tp", "s": s, "p": {"v": name}, "o": {"v": on}});
        }
        let p = self.rng.random_range(11..=13i64);
        let okind = (p - 11) as u8;
        let o = if self.rng.random_bool(0.8) { self.var(okind, 0.6) } else { json!({"c": match okind { 0 => self.rng.random_range(1..=self.ns), 1 => self.rng.random_range(21..=22), _ => self.rng.random_range(31..=33) }}) };
        json!({"k": "tp", "s": s, "p": {"c": p}, "o": o})
    }
    fn filter(&mut self) -> Option<J> {
        let cands: Vec<(String, u8)> = self.vars.iter().filter(|(_, k)| *k < 3).cloned().collect();
        if cands.is_empty() { return None; }
        let (v, k) = cands[self.rng.random_range(0..cands.len())].clone();
        let e = match (k, self.rng.random_range(0..7)) {
            (_, 0) => json!({"f": "bound", "v": v}), (_, 1) => json!({"f": "nbound", "v": v}),
            (k, 6) => {
                let pool: Vec<i64> = match k { 0 => (1..=self.ns).collect(), 1 => vec![21, 22], _ => vec![31, 32, 33] };
                let n = self.rng.random_range(1..=2usize);
                let cs: Vec<i64> = (0..n).map(|_| pool[self.rng.random_range(0..pool.len())]).collect();
                json!({"f": if self.rng.random_bool(0.7) { "in" } else { "nin" }, "v": v, "cs": cs})
            }
            (0, _) => json!({"f": if self.rng.random_bool(0.5) { "eq" } else { "ne" }, "v": v, "c": self.rng.random_range(1..=self.ns)}),
            (1, _) => json!({"f": if self.rng.random_bool(0.5) { "eq" } else { "ne" }, "v": v, "c": self.rng.random_range(21..=22)}),
            (_, x) => { let f = ["eq", "ne", "lt", "gt"][x % 4]; json!({"f": f, "v": v, "c": self.rng.random_range(31..=33)}) }
        };
        Some(json!({"k": "filter", "e": e}))
    }
    /// a filter that may combine atoms with && / || / !
    fn filter2(&mut self) -> Option<J> {
        let a = self.filter()?;
        match self.rng.random_range(0..10) {
            0 | 1 => { let b = self.filter()?; Some(json!({"k": "filter", "e": {"f": "or", "a": a["e"], "b": b["e"]}})) }
            2 => { let b = self.filter()?; Some(json!({"k": "filter", "e": {"f": "and", "a": a["e"], "b": b["e"]}})) }
            3 => Some(json!({"k": "filter", "e": {"f": "not", "a": a["e"]}})),
            _ => Some(a),
        }
    }
    fn group(&mut self, depth: usize) -> J {
        let mut g = vec![];
        for _ in 0..self.rng.random_range(1..=2) { g.push(self.tp()); }
        if depth < 2 {
            match self.rng.random_range(0..6) {
                0 | 1 => { let mut og = vec![self.tp()]; if self.rng.random_bool(0.4) { if let Some(f) = self.filter() { og.push(f); } } g.push(json!({"k": "opt", "g": og})); }
                2 => {
                    if self.rng.random_bool(0.4) {
                        // both branches bind the same two variables, met in opposite order
                        let x = self.var(0, 0.3);
                        let y = self.var(0, 0.9);
                        let a = json!([{"k": "tp", "s": x, "p": {"c": 11}, "o": y}]);
                        let mut b = vec![json!({"k": "tp", "s": y, "p": {"c": 11}, "o": x})];
                        if self.rng.random_bool(0.3) { b.push(self.tp()); }
                        g.push(json!({"k": "union", "a": a, "b": b}));
                    } else {
                        let a = self.group(depth + 1); let b = self.group(depth + 1); g.push(json!({"k": "union", "a": a, "b": b}));
                    }
                }
                3 if self.rng.random_bool(0.5) => {
                    // MINUS over a pattern that (usually) shares a variable with the group
                    // variables that occur only inside the MINUS group are not offered to SELECT / FILTER / ORDER BY
                    let n0 = self.vars.len();
                    let mg = vec![self.tp()];
                    self.vars.truncate(n0);
                    g.push(json!({"k": "minus", "g": mg}));
                }
                4 if self.rng.random_bool(0.4) => {
                    let cands: Vec<(String, u8)> = self.vars.iter().filter(|(_, k)| *k < 3).cloned().collect();
                    if !cands.is_empty() {
                        let (v, k) = cands[self.rng.random_range(0..cands.len())].clone();
                        let pool: Vec<i64> = match k { 0 => (1..=self.ns).collect(), 1 => vec![21, 22], _ => vec![31, 32, 33] };
                        let mut cs: Vec<i64> = vec![];
                        for c in pool { if self.rng.random_bool(0.6) { cs.push(c); } }
                        if !cs.is_empty() { g.push(json!({"k": "values", "v": v, "cs": cs})); }
                    }
                }
                _ => {}
            }
        }
        if self.rng.random_bool(0.45) { if let Some(f) = self.filter2() { g.push(f); } }
        if self.rng.random_bool(0.15) { g.push(self.tp()); }
        json!(g)
    }
}

fn gen_query(rng: &mut StdRng, ns: i64) -> J {
    let mut g = Gen { rng, ns, vars: vec![] };
    let mut w = g.group(0);
    while g.vars.is_empty() { w = g.group(0); }
    let mut names: Vec<String> = g.vars.iter().map(|(n, _)| n.clone()).collect();
    names.dedup();
    let k = g.rng.random_range(1..=names.len().min(3));
    let mut sel = vec![];
    while sel.len() < k { let n = names[g.rng.random_range(0..names.len())].clone(); if !sel.contains(&n) { sel.push(n); } }
    let count = g.rng.random_bool(0.1);
    let distinct = !count && g.rng.random_bool(0.3);
    let limit: i64 = if !count && g.rng.random_bool(0.2) { g.rng.random_range(0..=4) } else { -1 };
    let mut q = json!({"sel": sel, "distinct": distinct, "count": count, "limit": limit, "where": w});
    // SELECT ?g (COUNT(*) AS ?c) ... GROUP BY ?g on a variable of a top-level triple pattern
    if g.rng.random_bool(0.12) {
        let top: Vec<String> = q["where"].as_array().unwrap().iter().filter(|e| e["k"] == "tp").flat_map(|e| ["s", "p", "o"].iter().filter_map(|k| e[*k].get("v").and_then(|v| v.as_str()).map(|x| x.to_string())).collect::<Vec<_>>()).collect();
        if !top.is_empty() {
            let gv = top[g.rng.random_range(0..top.len())].clone();
            q = json!({"sel": [gv, "c"], "distinct": false, "count": false, "limit": -1, "where": q["where"], "group": gv});
            if g.rng.random_bool(0.5) { let hf = ["gt", "eq", "ge"][g.rng.random_range(0..3)]; let hn = g.rng.random_range(1..=3); q["having"] = json!({"f": hf, "n": hn}); }
            return q;
        }
    }
    // ORDER BY a selected variable that every solution binds (it occurs in a top-level triple pattern) and whose kind is known
    if !count && g.rng.random_bool(0.25) {
        let top: Vec<String> = q["where"].as_array().unwrap().iter().filter(|e| e["k"] == "tp").flat_map(|e| ["s", "p", "o"].iter().filter_map(|k| e[*k].get("v").and_then(|v| v.as_str()).map(|x| x.to_string())).collect::<Vec<_>>()).collect();
        let cands: Vec<String> = q["sel"].as_array().unwrap().iter().map(|v| v.as_str().unwrap().to_string()).filter(|v| top.contains(v) && g.vars.iter().any(|(n, k)| n == v && *k < 3)).collect();
        if !cands.is_empty() {
            let v = cands[g.rng.random_range(0..cands.len())].clone();
            q["order"] = json!({"v": v, "desc": g.rng.random_bool(0.5)});
            if g.rng.random_bool(0.35) { q["offset"] = json!(g.rng.random_range(0..=3)); }
        }
    }
    q
}

/// a triple template for DELETE { } / INSERT { }: positions are constants or variables of the WHERE group whose kind fits the position
fn gen_template(g: &mut Gen) -> J {
    let pick = |g: &mut Gen, kind: u8, pool: Vec<i64>| -> J {
        let same: Vec<String> = g.vars.iter().filter(|(_, k)| *k == kind).map(|(n, _)| n.clone()).collect();
        if !same.is_empty() && g.rng.random_bool(0.75) { json!({"v": same[g.rng.random_range(0..same.len())]}) } else { json!({"c": pool[g.rng.random_range(0..pool.len())]}) }
    };
    let ns = g.ns;
    let s = pick(g, 0, (1..=ns).collect());
    let p = g.rng.random_range(11..=13i64);
    let o = match p { 11 => pick(g, 0, (1..=ns).collect()), 12 => pick(g, 1, vec![21, 22]), _ => pick(g, 2, vec![31, 32, 33]) };
    json!({"s": s, "p": {"c": p}, "o": o})
}
fn tmpl_text(ts: &[J]) -> String { ts.iter().map(|t| format!("{} {} {}", t_text(&t["s"]), t_text(&t["p"]), t_text(&t["o"]))).collect::<Vec<_>>().join(" . ") }
/// DELETE { templates } INSERT { templates } WHERE group (either template list may be empty, not both)
fn gen_update(rng: &mut StdRng, ns: i64) -> (J, String) {
    let mut g = Gen { rng, ns, vars: vec![] };
    let w = g.group(0);
    let nd = g.rng.random_range(0..=2usize);
    let ni = if nd == 0 { g.rng.random_range(1..=2usize) } else { g.rng.random_range(0..=2usize) };
    let del: Vec<J> = (0..nd).map(|_| gen_template(&mut g)).collect();
    let ins: Vec<J> = (0..ni).map(|_| gen_template(&mut g)).collect();
    let mut text = String::new();
    if !del.is_empty() { text += &format!("DELETE {{ {} }} ", tmpl_text(&del)); }
    if !ins.is_empty() { text += &format!("INSERT {{ {} }} ", tmpl_text(&ins)); }
    text += &format!("WHERE {}", group_text(&w));
    (json!({"del": del, "ins": ins, "where": w}), text)
}
/// DELETE WHERE { tp . tp }: the patterns are the templates
fn gen_delwhere(rng: &mut StdRng, ns: i64) -> (J, String) {
    let mut g = Gen { rng, ns, vars: vec![] };
    let n = g.rng.random_range(1..=2usize);
    let tps: Vec<J> = (0..n).map(|_| g.tp()).collect();
    let text = format!("DELETE WHERE {}", group_text(&json!(tps)));
    (json!(tps), text)
}

fn rand_triples(rng: &mut StdRng, ns: i64, n: usize) -> Vec<[i64; 3]> {
    (0..n).map(|_| { let p = rng.random_range(11..=13i64); [rng.random_range(1..=ns), p, match p { 11 => rng.random_range(1..=ns), 12 => rng.random_range(21..=22), _ => rng.random_range(31..=33) }] }).collect()
}
fn data_text(kw: &str, ts: &[[i64; 3]]) -> String { format!("{kw} DATA {{ {} }}", ts.iter().map(|t| format!("{} {} {}", term_text(t[0]), term_text(t[1]), term_text(t[2]))).collect::<Vec<_>>().join(" . ")) }

pub fn main(o: &Opts) -> i32 {
    crate::util::silence_panics();
    let mut out = Out::create(&o.str("out", "sparql.ndjson"));
    let mut rng = StdRng::seed_from_u64(o.u64("seed", 1));
    for t in 0..o.usize("traces", 30) {
        let db = GrafeoDB::new_in_memory();
        let s = db.session();
        let ns = rng.random_range(2..=3i64);
        out.emit(&json!({"a": "reset", "panic": false, "err": false, "t": t}));
        for _ in 0..o.usize("len", 25) {
            let c = rng.random_range(0..100);
            let mut ev;
            let text;
            if c < 20 {
                let k = rng.random_range(1..=4); let ts = rand_triples(&mut rng, ns, k);
                text = data_text("INSERT", &ts);
                ev = json!({"a": "insert", "ts": ts});
            } else if c < 27 {
                let k = rng.random_range(1..=2); let ts = rand_triples(&mut rng, ns, k);
                text = data_text("DELETE", &ts);
                ev = json!({"a": "delete", "ts": ts});
            } else if c < 35 {
                let (u, t) = gen_update(&mut rng, ns);
                text = t;
                ev = json!({"a": "update", "u": u});
            } else if c < 38 {
                let (tps, t) = gen_delwhere(&mut rng, ns);
                text = t;
                ev = json!({"a": "delwhere", "tps": tps});
            } else if c < 39 {
                text = "CLEAR DEFAULT".to_string();
                ev = json!({"a": "clear"});
            } else if c < 44 {
                text = "SELECT ?s ?p ?o WHERE { ?s ?p ?o }".to_string();
                ev = json!({"a": "dump"});
            } else {
                let q = gen_query(&mut rng, ns);
                text = query_text(&q);
                ev = json!({"a": "query", "q": q});
            }
            ev["text"] = json!(text);
            match catch(AssertUnwindSafe(|| s.execute_sparql(&text))) {
                Ok(Ok(r)) => {
                    ev["panic"] = json!(false); ev["err"] = json!(false); ev["cols"] = json!(r.columns);
                    // rows in the order of the query's SELECT list (columns are matched by name)
                    let want: Vec<String> = if ev["a"] == "query" && !ev["q"]["count"].as_bool().unwrap() { ev["q"]["sel"].as_array().unwrap().iter().map(|x| x.as_str().unwrap().to_string()).collect() } else { r.columns.clone() };
                    let idx: Vec<Option<usize>> = want.iter().map(|w| r.columns.iter().position(|c| c == w)).collect();
                    let named = idx.iter().all(|x| x.is_some()) && want.len() == r.columns.len();
                    ev["rows"] = json!(r.rows.iter().map(|row| if named { idx.iter().map(|i| decode(&row[i.unwrap()])).collect::<Vec<_>>() } else { row.iter().map(decode).collect::<Vec<_>>() }).collect::<Vec<_>>());
                }
                Ok(Err(e)) => { ev["panic"] = json!(false); ev["err"] = json!(true); ev["rows"] = json!([]); ev["info"] = json!(format!("{e}").chars().take(200).collect::<String>()); }
                Err(p) => { ev["panic"] = json!(true); ev["err"] = json!(false); ev["rows"] = json!([]); ev["info"] = json!(p.chars().take(200).collect::<String>()); }
            }
            out.emit(&ev);
            if matches!(ev["a"].as_str(), Some("update" | "delwhere" | "clear")) {
                // the whole data set is read back after every pattern update
                let text = "SELECT ?s ?p ?o WHERE { ?s ?p ?o }";
                let mut d = json!({"a": "dump", "text": text, "panic": false, "err": false});
                match catch(AssertUnwindSafe(|| s.execute_sparql(text))) {
                    Ok(Ok(r)) => { d["rows"] = json!(r.rows.iter().map(|row| row.iter().map(decode).collect::<Vec<_>>()).collect::<Vec<_>>()); }
                    Ok(Err(_)) => { d["err"] = json!(true); d["rows"] = json!([]); }
                    Err(_) => { d["panic"] = json!(true); d["rows"] = json!([]); }
                }
                out.emit(&d);
            }
        }
    }
    let n = out.n;
    out.finish();
    println!("{{\"events\": {n}}}");
    0
}
