//! Driver/recorder for durability (spec/wal/Wal.tla, Trace_Wal.tla): a persistent GrafeoDB is driven
//! through its API; the WAL hook (cfg grafeo_verif) tells which records were appended / flushed /
//! fsynced; crash images are produced by copying the directory as it is on disk (BufWriter contents
//! are not there) and cutting every log file to a byte length between its last fsync and its end.
use crate::util::{Opts, Out};
use grafeo_adapters::storage::wal::verif as hook;
use grafeo_common::types::{EdgeId, NodeId, Value};
use grafeo_engine::config::{Config, DurabilityMode};
use grafeo_engine::GrafeoDB;
use rand::rngs::StdRng;
use rand::{Rng, SeedableRng};
use serde_json::{json, Value as J};
use std::collections::BTreeMap;
use std::path::{Path, PathBuf};

#[derive(Clone, Debug, Default)]
struct FileSt {
    n: u64, // records appended (incl. those still in the BufWriter)
    w: u64, // records flushed to the OS
    s: u64, // records fsynced
    synced_bytes: u64,
    // (s, synced_bytes) before the most recent fsync of this file
    s_prev: u64,
    sb_prev: u64,
    // set on the file a rotation created, until something is appended to it or it is fsynced: what the file before it
    // had fsynced when that rotation began (a crash inside rotate() can leave the old file at any length from there on)
    inrot: Option<(u64, u64)>,
}

pub struct WalRun {
    root: PathBuf,
    gen_: usize,
    db: Option<GrafeoDB>,
    mode: String,
    batch: u64,
    files: BTreeMap<u64, FileSt>,
    dumps: Vec<String>,
    nodes: Vec<NodeId>,
    edges: Vec<EdgeId>,
}

fn cfg(path: &Path, mode: &str, batch: u64) -> Config {
    let m = match mode {
        "Sync" => DurabilityMode::Sync,
        "Batch" => DurabilityMode::Batch { max_delay_ms: 1_000_000_000, max_records: batch },
        "Adaptive" => DurabilityMode::Adaptive { target_interval_ms: 1_000_000 },
        _ => DurabilityMode::NoSync,
    };
    Config::persistent(path).with_wal_durability(m)
}

pub fn dump(db: &GrafeoDB) -> String {
    let mut ns: Vec<String> = db
        .iter_nodes()
        .map(|n| {
            let mut l: Vec<String> = n.labels.iter().map(|x| x.to_string()).collect();
            l.sort();
            let mut p: Vec<String> = n.properties.iter().map(|(k, v)| format!("{}={:?}", k.as_str(), v)).collect();
            p.sort();
            format!("N{}:{}:{}", n.id.as_u64(), l.join(","), p.join(","))
        })
        .collect();
    ns.sort();
    let mut es: Vec<String> = db
        .iter_edges()
        .map(|e| {
            let mut p: Vec<String> = e.properties.iter().map(|(k, v)| format!("{}={:?}", k.as_str(), v)).collect();
            p.sort();
            format!("E{}:{}>{}:{}:{}", e.id.as_u64(), e.src.as_u64(), e.dst.as_u64(), e.edge_type, p.join(","))
        })
        .collect();
    es.sort();
    format!("{}|{}", ns.join(";"), es.join(";"))
}

/// Record boundaries (end offsets of complete, well-formed-by-length records) of a log file on disk.
fn boundaries(path: &Path) -> (Vec<u64>, u64) {
    let data = std::fs::read(path).unwrap_or_default();
    let mut off = 0usize;
    let mut ends = vec![];
    while off + 4 <= data.len() {
        let len = u32::from_le_bytes([data[off], data[off + 1], data[off + 2], data[off + 3]]) as usize;
        if off + 4 + len + 4 > data.len() {
            break;
        }
        off += 4 + len + 4;
        ends.push(off as u64);
    }
    (ends, data.len() as u64)
}

fn seq_of(p: &Path) -> Option<u64> {
    p.file_stem()?.to_str()?.strip_prefix("wal_")?.parse().ok()
}

fn log_files(dir: &Path) -> Vec<(u64, PathBuf)> {
    let mut v: Vec<(u64, PathBuf)> = std::fs::read_dir(dir.join("wal"))
        .map(|rd| rd.flatten().map(|e| e.path()).filter(|p| p.extension().is_some_and(|x| x == "log")).filter_map(|p| seq_of(&p).map(|s| (s, p))).collect())
        .unwrap_or_default();
    v.sort();
    v
}

fn copy_dir(src: &Path, dst: &Path) {
    std::fs::create_dir_all(dst).unwrap();
    for e in std::fs::read_dir(src).unwrap().flatten() {
        let p = e.path();
        let d = dst.join(e.file_name());
        if p.is_dir() { copy_dir(&p, &d) } else { std::fs::copy(&p, &d).unwrap(); }
    }
}

impl WalRun {
    pub fn new(root: &Path, mode: &str, batch: u64) -> Self {
        let _ = std::fs::remove_dir_all(root);
        std::fs::create_dir_all(root).unwrap();
        let mut r = Self { root: root.to_path_buf(), gen_: 0, db: None, mode: mode.to_string(), batch, files: BTreeMap::new(), dumps: vec![], nodes: vec![], edges: vec![] };
        hook::enable(true);
        hook::take();
        let db = GrafeoDB::with_config(cfg(&r.dir(), mode, batch)).expect("open fresh");
        r.dumps.push(dump(&db));
        r.db = Some(db);
        r.files.insert(0, FileSt::default());
        r.apply_hook();
        r
    }
    fn dir(&self) -> PathBuf {
        self.root.join(format!("g{}", self.gen_))
    }
    fn db(&self) -> &GrafeoDB {
        self.db.as_ref().unwrap()
    }
    /// Applies pending hook events to the per-file counters; returns the number of appends.
    fn apply_hook(&mut self) -> u64 {
        let mut appends = 0;
        for ev in hook::take() {
            if ev.kind == "rotate" {
                // the fsync just before this event was the rotation's own
                let prev = self.files.range(..ev.seq).next_back().map(|(_, f)| (f.s_prev, f.sb_prev));
                let f = self.files.entry(ev.seq).or_default();
                f.inrot = prev;
                continue;
            }
            let f = self.files.entry(ev.seq).or_default();
            match ev.kind {
                "append" => { f.n += 1; appends += 1; f.inrot = None; }
                "flush" => f.w = f.n,
                "fsync" => { f.s_prev = f.s; f.sb_prev = f.synced_bytes; f.w = f.n; f.s = f.n; f.synced_bytes = ev.len; f.inrot = None; }
                _ => {}
            }
        }
        appends
    }
    fn st(&self) -> J {
        // n and s come from the hook; w (records that reached the OS) is read from the real file, because a
        // BufWriter also writes through when its buffer fills up or a record is larger than the buffer
        json!(self.files.iter().map(|(seq, f)| {
            let p = self.dir().join("wal").join(format!("wal_{seq:08}.log"));
            let (ends, _) = boundaries(&p);
            json!([f.n, (ends.len() as u64).min(f.n), f.s])
        }).collect::<Vec<_>>())
    }
    /// After (re)opening: every record on disk counts as appended, written and synced.
    fn reset_files_from_disk(&mut self) {
        self.files.clear();
        for (seq, p) in log_files(&self.dir()) {
            let (ends, len) = boundaries(&p);
            let n = ends.len() as u64;
            self.files.insert(seq, FileSt { n, w: n, s: n, synced_bytes: len, s_prev: n, sb_prev: len, inrot: None });
        }
        if self.files.is_empty() {
            self.files.insert(0, FileSt::default());
        }
    }
    fn node(&self, k: u64) -> NodeId {
        if self.nodes.is_empty() { NodeId::new(9999) } else { self.nodes[(k as usize) % self.nodes.len()] }
    }
    fn edge(&self, k: u64) -> EdgeId {
        if self.edges.is_empty() { EdgeId::new(9999) } else { self.edges[(k as usize) % self.edges.len()] }
    }
    fn value(k: u64) -> Value {
        // every 13th value is large: around the BufWriter capacity (8 KiB), 64 KiB and beyond
        if k % 13 == 5 {
            return match (k / 13) % 4 {
                0 => Value::String("x".repeat(8180 + (k as usize % 30)).into()),
                1 => Value::String("y".repeat(70_000).into()),
                2 => Value::List((0..20_000).map(Value::Int64).collect::<Vec<_>>().into()),
                _ => Value::String("z".repeat(300_000).into()),
            };
        }
        match k % 8 {
            0 => Value::Int64(k as i64),
            1 => Value::String(format!("s{k}").into()),
            2 => Value::Float64(k as f64 + 0.5),
            3 => Value::Bool(k % 2 == 0),
            4 => Value::List(vec![Value::Int64(1), Value::String("x".into())].into()),
            5 => Value::Int64(i64::MIN + k as i64),
            6 => Value::String("".into()),
            _ => Value::Null,
        }
    }

    fn do_op(&mut self, act: &J) {
        let kind = act["kind"].as_str().unwrap();
        let x = act["x"].as_u64().unwrap_or(0);
        let y = act["y"].as_u64().unwrap_or(0);
        let key = ["k", "name", "w"][(y % 3) as usize];
        match kind {
            "cnode" => { let id = self.db().create_node(&[["P", "Q", "R"][(x % 3) as usize]]); self.nodes.push(id); }
            "cnodep" => {
                let id = self.db().create_node_with_props(&["P", "Q"], [("k", Self::value(x)), ("name", Self::value(y))]);
                self.nodes.push(id);
            }
            "setp" => { let n = self.node(x); self.db().set_node_property(n, key, Self::value(y)); }
            "deln" => { let n = self.node(x); self.db().delete_node(n); }
            "addl" => { let n = self.node(x); self.db().add_node_label(n, ["P", "Q", "R"][(y % 3) as usize]); }
            "reml" => { let n = self.node(x); self.db().remove_node_label(n, ["P", "Q", "R"][(y % 3) as usize]); }
            "cedge" => { let (a, b) = (self.node(x), self.node(y)); let id = self.db().create_edge(a, b, "T"); self.edges.push(id); }
            "cedgep" => { let (a, b) = (self.node(x), self.node(y)); let id = self.db().create_edge_with_props(a, b, "U", [("w", Self::value(x + y))]); self.edges.push(id); }
            "setep" => { let e = self.edge(x); self.db().set_edge_property(e, key, Self::value(y)); }
            "dele" => { let e = self.edge(x); self.db().delete_edge(e); }
            // mutations that the pinned tree never logs
            "remp" => { let n = self.node(x); self.db().remove_node_property(n, key); }
            "remep" => { let e = self.edge(x); self.db().remove_edge_property(e, key); }
            "gqlinsert" => { let _ = self.db().session().execute(&format!("INSERT (:G {{k: {x}}})")); }
            "gqlset" => { let n = self.node(x).as_u64(); let _ = self.db().session().execute(&format!("MATCH (n) WHERE id(n) = {n} SET n.k = {y}")); }
            _ => panic!("unknown op kind {kind}"),
        }
    }

    fn matches(&self, d: &str) -> Vec<usize> {
        (0..self.dumps.len()).filter(|j| self.dumps[*j] == d).collect()
    }

    /// Opens a crash image (copy of the on-disk state cut to `bytes`, optional bit flip) and reports what recovery yields.
    fn open_image(&self, bytes: &[(u64, u64)], flip: Option<(u64, u64, u8)>, dst: &Path) -> (bool, String) {
        let _ = std::fs::remove_dir_all(dst);
        copy_dir(&self.dir(), dst);
        for (seq, len) in bytes {
            let p = dst.join("wal").join(format!("wal_{seq:08}.log"));
            if let Ok(f) = std::fs::OpenOptions::new().write(true).open(&p) {
                f.set_len(*len).unwrap();
            }
        }
        if let Some((seq, off, bit)) = flip {
            let p = dst.join("wal").join(format!("wal_{seq:08}.log"));
            let mut data = std::fs::read(&p).unwrap();
            if (off as usize) < data.len() {
                data[off as usize] ^= 1 << bit;
                std::fs::write(&p, data).unwrap();
            }
        }
        hook::enable(false);
        let r = crate::util::catch(std::panic::AssertUnwindSafe(|| GrafeoDB::with_config(cfg(dst, &self.mode, self.batch))));
        let out = match r {
            Ok(Ok(db)) => { let d = dump(&db); (true, d) }
            Ok(Err(e)) => (false, format!("err {e}")),
            Err(p) => (false, format!("panic {p}")),
        };
        hook::enable(true);
        hook::take();
        out
    }

    /// Per file: (seq, synced_bytes, disk_len, record end offsets on disk)
    fn disk(&self) -> Vec<(u64, u64, u64, Vec<u64>)> {
        let lf = log_files(&self.dir());
        let last = lf.last().map(|(s, _)| *s);
        lf.into_iter()
            .map(|(seq, p)| {
                let (ends, len) = boundaries(&p);
                let mut sb = self.files.get(&seq).map(|f| f.synced_bytes).unwrap_or(0).min(len);
                // crash inside rotate(): the file after this one is the last, still empty and fresh from a rotation
                if let Some((nseq, nf)) = self.files.range((seq + 1)..).next() {
                    if Some(*nseq) == last && nf.n == 0 {
                        if let Some((_, psb)) = nf.inrot { sb = sb.min(psb); }
                    }
                }
                (seq, sb, len, ends)
            })
            .collect()
    }

    fn img_of(disk: &[(u64, u64, u64, Vec<u64>)], bytes: &[(u64, u64)]) -> J {
        json!(disk
            .iter()
            .zip(bytes)
            .map(|((_, _, _, ends), (_, len))| {
                let keep = ends.iter().filter(|e| **e <= *len).count();
                let at = if keep == 0 { 0 } else { ends[keep - 1] };
                json!([keep, *len > at])
            })
            .collect::<Vec<_>>())
    }
}

/// rotation profile: small operations (the log is rotated every few records), explicit syncs, crashes and probes;
/// no close / checkpoint (recovery after a checkpoint skips the files before it - a separate, known finding)
pub fn rotation_script(rng: &mut StdRng, len: usize) -> Vec<J> {
    let mut out = vec![];
    let kinds = ["cnode", "cnodep", "setp", "deln", "addl", "cedge", "setep", "cnode", "cnode"];
    while out.len() < len {
        let roll = rng.random_range(0..100);
        if roll < 66 {
            // x, y avoid the values that are tens of kilobytes long (k % 13 == 5)
            let mut x = rng.random_range(0..40u64); if x % 13 == 5 { x += 1; }
            let mut y = rng.random_range(0..40u64); if y % 13 == 5 { y += 1; }
            if (x + y) % 13 == 5 { y += 2; if y % 13 == 5 { y += 1; } }
            out.push(json!({"a": "op", "kind": kinds[rng.random_range(0..kinds.len())], "x": x, "y": y}));
        } else if roll < 74 {
            out.push(json!({"a": "sync"}));
        } else if roll < 90 {
            out.push(json!({"a": "crash", "r": rng.random_range(0..1_000_000u64)}));
            out.push(json!({"a": "open"}));
        } else {
            out.push(json!({"a": "probes", "r": rng.random_range(0..1_000_000u64)}));
        }
    }
    out
}

/// bytes of file `seq` that the hook saw fsynced (an image shorter than this can only come from a crash inside rotate())
fn run_files_synced(files: &BTreeMap<u64, FileSt>, seq: u64) -> u64 { files.get(&seq).map(|f| f.synced_bytes).unwrap_or(0) }

pub fn random_script(rng: &mut StdRng, len: usize, probes: bool) -> Vec<J> {
    let mut out = vec![];
    let kinds = ["cnode", "cnodep", "setp", "deln", "addl", "reml", "cedge", "cedgep", "setep", "dele", "setp", "cnodep", "remp", "remep"];
    while out.len() < len {
        let roll = rng.random_range(0..100);
        if roll < 70 {
            out.push(json!({"a": "op", "kind": kinds[rng.random_range(0..kinds.len())], "x": rng.random_range(0..40u64), "y": rng.random_range(0..40u64)}));
        } else if roll < 76 {
            out.push(json!({"a": "sync"}));
        } else if roll < 81 {
            out.push(json!({"a": "ckpt"}));
        } else if roll < 87 {
            out.push(json!({"a": "close"}));
            out.push(json!({"a": "open"}));
        } else if roll < 93 {
            out.push(json!({"a": "crash", "r": rng.random_range(0..1_000_000u64)}));
            out.push(json!({"a": "open"}));
        } else if probes {
            out.push(json!({"a": "probes", "r": rng.random_range(0..1_000_000u64)}));
        }
    }
    out
}

pub fn main(o: &Opts) -> i32 {
    crate::util::silence_panics();
    let mut out = Out::create(&o.str("out", "trace.ndjson"));
    let root = PathBuf::from(o.str("dir", "/tmp/gv-wal"));
    let every_byte = o.flag("every-byte");
    let flips = o.usize("flips", 4);
    let maxlog = o.u64("maxlog", 0);
    hook::set_max_log_size(maxlog);
    let mut scripts: Vec<(String, u64, Vec<J>)> = vec![];
    if let Some(p) = o.get("script") {
        for v in crate::util::read_ndjson(p) {
            scripts.push((v["mode"].as_str().unwrap_or("Sync").to_string(), v["batch"].as_u64().unwrap_or(3), v["script"].as_array().cloned().unwrap_or_default()));
        }
    } else {
        let mut rng = StdRng::seed_from_u64(o.u64("seed", 1));
        let modes = ["Sync", "Batch", "Flush", "Adaptive"];
        for t in 0..o.usize("traces", 20) {
            let mode = modes[t % modes.len()];
            let sc = if maxlog > 0 { rotation_script(&mut rng, o.usize("len", 25)) } else { random_script(&mut rng, o.usize("len", 25), true) };
            scripts.push((mode.to_string(), 3, sc));
        }
    }
    let mut nprobes = 0usize;
    for (mode, batch, script) in &scripts {
        let tlamode = if mode == "Adaptive" { "Flush" } else { mode.as_str() };
        let mut run = WalRun::new(&root, mode, *batch);
        out.emit(&json!({"a": "reset", "mode": tlamode, "batch": batch, "st": run.st()}));
        let mut opn = 0usize;
        let mut queue: std::collections::VecDeque<J> = script.iter().cloned().collect();
        while let Some(act_owned) = queue.pop_front() {
            let act = &act_owned;
            let a = act["a"].as_str().unwrap();
            match a {
                "op" | "uop" => {
                    if run.db.is_none() { continue; }
                    opn += 1;
                    let before = run.dumps.last().unwrap().clone();
                    let (nn0, ne0) = (run.nodes.len(), run.edges.len());
                    let known_n: std::collections::HashSet<u64> = run.db().iter_nodes().map(|n| n.id.as_u64()).collect();
                    let known_e: std::collections::HashSet<u64> = run.db().iter_edges().map(|e| e.id.as_u64()).collect();
                    run.do_op(act);
                    // identifiers handed out must not collide with entities that exist
                    let fresh = run.nodes[nn0..].iter().all(|n| !known_n.contains(&n.as_u64())) && run.edges[ne0..].iter().all(|e| !known_e.contains(&e.as_u64()));
                    let appends = run.apply_hook();
                    let d = dump(run.db());
                    let chg = d != before;
                    run.dumps.push(d);
                    // data records = appends minus the commit marker (if any records were logged)
                    let nrec = if appends > 0 { appends - 1 } else { 0 };
                    out.emit(&json!({"a": a, "i": opn, "kind": act["kind"], "nrec": nrec, "appends": appends, "chg": chg, "fresh": fresh, "st": run.st()}));
                    // rotation profile: right after a call that rotated the log (new file still empty) the crash images of
                    // this moment - among them the crash inside rotate() - are probed, every third time followed by a real crash
                    if maxlog > 0 && run.files.values().next_back().is_some_and(|f| f.n == 0 && f.inrot.is_some()) {
                        if opn % 3 == 0 { queue.push_front(json!({"a": "open"})); queue.push_front(json!({"a": "crash", "r": opn as u64 * 7 + 3})); }
                        queue.push_front(json!({"a": "probes", "r": opn as u64}));
                    }
                }
                "sync" => {
                    if run.db.is_none() { continue; }
                    let r = run.db().wal().map(|w| w.sync().is_ok()).unwrap_or(false);
                    run.apply_hook();
                    out.emit(&json!({"a": "sync", "ok": r, "st": run.st()}));
                }
                "ckpt" => {
                    if run.db.is_none() { continue; }
                    let r = run.db().wal_checkpoint().is_ok();
                    run.apply_hook();
                    out.emit(&json!({"a": "ckpt", "ok": r, "st": run.st()}));
                }
                "close" => {
                    if run.db.is_none() { continue; }
                    let r = run.db().close().is_ok();
                    run.apply_hook();
                    out.emit(&json!({"a": "close", "ok": r, "st": run.st()}));
                    run.db = None;
                    hook::take();
                }
                "open" => {
                    if run.db.is_some() { continue; }
                    hook::take();
                    let r = crate::util::catch(std::panic::AssertUnwindSafe(|| GrafeoDB::with_config(cfg(&run.dir(), mode, *batch))));
                    match r {
                        Ok(Ok(db)) => {
                            let d = dump(&db);
                            let m = run.matches(&d);
                            run.db = Some(db);
                            // file state: what is on disk now; the records appended by open itself (abort marker)
                            // are in the BufWriter, flushed, or fsynced depending on the durability mode
                            let evs = hook::take();
                            run.reset_files_from_disk();
                            let appended = evs.iter().filter(|e| e.kind == "append").count() as u64;
                            let flushed = evs.iter().any(|e| e.kind == "flush");
                            let fsynced = evs.iter().any(|e| e.kind == "fsync");
                            if appended > 0 {
                                let last = *run.files.keys().last().unwrap();
                                let path = run.dir().join("wal").join(format!("wal_{last:08}.log"));
                                let (ends, _) = boundaries(&path);
                                let f = run.files.get_mut(&last).unwrap();
                                if fsynced {
                                    // everything on disk and durable
                                } else if flushed {
                                    f.s = f.n - appended;
                                    f.synced_bytes = if f.s == 0 { 0 } else { ends[(f.s - 1) as usize] };
                                } else {
                                    f.n += appended;
                                }
                            }
                            // continue the history from the recovered state
                            run.dumps.push(d);
                            opn += 1;
                            // refresh id pools
                            run.nodes = run.db().iter_nodes().map(|n| n.id).collect();
                            run.nodes.sort();
                            run.edges = run.db().iter_edges().map(|e| e.id).collect();
                            run.edges.sort();
                            out.emit(&json!({"a": "open", "ok": true, "match": m, "i": opn, "st": run.st()}));
                        }
                        Ok(Err(e)) => { out.emit(&json!({"a": "open", "ok": false, "match": [], "err": e.to_string(), "i": opn, "st": run.st()})); }
                        Err(p) => { out.emit(&json!({"a": "open", "ok": false, "match": [], "err": format!("panic {p}"), "i": opn, "st": run.st()})); }
                    }
                }
                "crash" => {
                    if run.db.is_none() { continue; }
                    // choose a surviving byte length per file in [synced, on disk]
                    let disk = run.disk();
                    let mut rng = StdRng::seed_from_u64(act["r"].as_u64().unwrap_or(0));
                    let bytes: Vec<(u64, u64)> = disk.iter().map(|(seq, sb, len, ends)| {
                        let c = match rng.random_range(0..4) {
                            0 => *sb,
                            1 => *len,
                            2 => { let cands: Vec<u64> = ends.iter().copied().filter(|e| *e >= *sb && *e <= *len).collect(); if cands.is_empty() { *sb } else { cands[rng.random_range(0..cands.len())] } }
                            _ => if len > sb { rng.random_range(*sb..=*len) } else { *sb },
                        };
                        // sometimes a tear inside the next record's 4-byte length prefix
                        let c = if rng.random_range(0..4) == 0 {
                            let base = ends.iter().copied().filter(|e| *e >= *sb && *e < *len).last().unwrap_or(*sb);
                            (base + rng.random_range(1..=3)).min(*len).max(*sb)
                        } else { c };
                        (*seq, c)
                    }).collect();
                    let img = WalRun::img_of(&disk, &bytes);
                    let files_before = run.files.clone();
                    // the image becomes the live directory of the next generation
                    let old = run.dir();
                    run.gen_ += 1;
                    let dst = run.dir();
                    copy_dir(&old, &dst);
                    for (seq, len) in &bytes {
                        let p = dst.join("wal").join(format!("wal_{seq:08}.log"));
                        if let Ok(f) = std::fs::OpenOptions::new().write(true).open(&p) { f.set_len(*len).unwrap(); }
                    }
                    hook::enable(false);
                    run.db = None; // the old process is gone; whatever its Drop writes goes to the old directory
                    hook::enable(true);
                    hook::take();
                    let _ = std::fs::remove_dir_all(&old);
                    let inrot = bytes.iter().any(|(seq, len)| run_files_synced(&files_before, *seq) > *len);
                    out.emit(&json!({"a": "crash", "img": img, "inrot": inrot}));
                }
                "probes" => {
                    if run.db.is_none() { continue; }
                    let disk = run.disk();
                    let mut rng = StdRng::seed_from_u64(act["r"].as_u64().unwrap_or(0));
                    let dst = root.join("probe");
                    // the last file is cut at every candidate length; earlier files stay complete (they are
                    // fsynced at rotation) unless they have an unsynced tail of their own
                    let mut cands: Vec<Vec<(u64, u64)>> = vec![];
                    for (fi, (_seq, sb, len, ends)) in disk.iter().enumerate() {
                        let mut ls: Vec<u64> = if every_byte { (*sb..=*len).collect() } else {
                            let mut v: Vec<u64> = ends.iter().copied().filter(|e| *e >= *sb && *e <= *len).collect();
                            v.push(*sb); v.push(*len);
                            for _ in 0..3 { if len > sb { v.push(rng.random_range(*sb..=*len)); } }
                            // torn header / payload / crc of the first unsynced record
                            if let Some(first_end) = ends.iter().find(|e| **e > *sb) { for d in [1u64, 3, 5] { if first_end - d > *sb { v.push(first_end - d); } } }
                            // torn inside the 4-byte length prefix of each unsynced record
                            let starts: Vec<u64> = std::iter::once(*sb).chain(ends.iter().copied().filter(|e| *e >= *sb && *e < *len)).collect();
                            for st in starts { for d in 1..=3u64 { if st + d <= *len { v.push(st + d); } } }
                            v
                        };
                        ls.sort(); ls.dedup();
                        for l in ls {
                            let bytes: Vec<(u64, u64)> = disk.iter().enumerate().map(|(fj, (s2, _, l2, _))| (*s2, if fj == fi { l } else { *l2 })).collect();
                            cands.push(bytes);
                        }
                    }
                    cands.sort(); cands.dedup();
                    for bytes in cands {
                        let (ok, d) = run.open_image(&bytes, None, &dst);
                        let m = if ok { run.matches(&d) } else { vec![] };
                        let inrot = bytes.iter().any(|(seq, len)| run_files_synced(&run.files, *seq) > *len);
                        out.emit(&json!({"a": "probe", "img": WalRun::img_of(&disk, &bytes), "flip": [0, 0], "ok": ok, "match": m, "inrot": inrot, "info": if ok { "".to_string() } else { d }}));
                        nprobes += 1;
                    }
                    // single-bit flips on the complete on-disk image
                    for _ in 0..flips {
                        let (fi, (seq, _, len, ends)) = { let i = rng.random_range(0..disk.len()); (i, disk[i].clone()) };
                        if len == 0 || ends.is_empty() { continue; }
                        let last_end = *ends.last().unwrap();
                        let off = rng.random_range(0..last_end);
                        // flips in the length prefix can ask recovery for a multi-GB allocation: keep them to the low byte
                        let rec = ends.iter().filter(|e| **e <= off).count();
                        let start = if rec == 0 { 0 } else { ends[rec - 1] };
                        let off = if off - start < 4 { start } else { off };
                        let bit = rng.random_range(0..8u8);
                        let bytes: Vec<(u64, u64)> = disk.iter().map(|(s2, _, l2, _)| (*s2, *l2)).collect();
                        let (ok, d) = run.open_image(&bytes, Some((seq, off, bit)), &dst);
                        let m = if ok { run.matches(&d) } else { vec![] };
                        out.emit(&json!({"a": "probe", "img": WalRun::img_of(&disk, &bytes), "flip": [fi + 1, rec + 1], "ok": ok, "match": m, "info": if ok { "".to_string() } else { d }}));
                        nprobes += 1;
                    }
                    let _ = std::fs::remove_dir_all(&dst);
                }
                _ => panic!("unknown action {a}"),
            }
        }
        run.db = None;
        hook::take();
    }
    let _ = std::fs::remove_dir_all(&root);
    let n = out.n;
    out.finish();
    println!("{{\"traces\": {}, \"events\": {n}, \"probes\": {nprobes}}}", scripts.len());
    0
}
