//! BufferManager programs under controlled schedules (spec/conc/BufMgr.tla).
use crate::conc::run_controlled;
use grafeo_common::memory::buffer::{BufferManager, BufferManagerConfig, MemoryRegion};
use serde_json::{json, Value as J};
use std::sync::Arc;

/// prog: {"limit": n, "threads": [[["alloc", size], ["release"], ...], ...]}; budget = limit (hard limit = budget * hard_limit_fraction)
pub fn run(prog: &J, chooser: &mut dyn FnMut(&[(usize, &'static str)], usize) -> usize) -> (Vec<J>, J, Vec<usize>) {
    let budget = prog["budget"].as_u64().unwrap() as usize;
    let mgr = BufferManager::new(BufferManagerConfig { budget, background_eviction: false, ..BufferManagerConfig::default() });
    let hard = (budget as f64 * BufferManagerConfig::default().hard_limit_fraction) as usize;
    let bodies = prog["threads"]
        .as_array()
        .unwrap()
        .iter()
        .map(|ops| {
            let ops = ops.clone();
            let m = Arc::clone(&mgr);
            Box::new(move || {
                let mut out = vec![];
                let mut grants = vec![];
                for op in ops.as_array().unwrap() {
                    match op[0].as_str().unwrap() {
                        "alloc" => {
                            let g = m.try_allocate(op[1].as_u64().unwrap() as usize, MemoryRegion::ExecutionBuffers);
                            out.push(json!({"granted": g.is_some(), "after": m.stats().total_allocated}));
                            if let Some(g) = g { grants.push(g); }
                        }
                        "release" => { let had = grants.pop().is_some(); out.push(json!({"released": had, "after": m.stats().total_allocated})); }
                        _ => panic!("op"),
                    }
                }
                drop(grants);
                out
            }) as Box<dyn FnOnce() -> Vec<J> + Send>
        })
        .collect();
    let (steps, rets, br) = run_controlled(bodies, chooser);
    (steps, json!({"a": "end", "rets": rets, "obs": {"allocated": mgr.stats().total_allocated, "hard": hard}}), br)
}
