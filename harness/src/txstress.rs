//! Uncontrolled real-thread stress of TransactionManager (C03 "commits issued concurrently from several
//! threads"): every round, N threads begin, record a write of one shared entity (plus a private one) and
//! commit at the same time. Only values returned by the API are recorded (start epoch, commit epoch or
//! refusal); spec/txn/FcwHistory.tla decides first-committer-wins and epoch uniqueness from them.
use crate::util::{Opts, Out};
use grafeo_common::types::NodeId;
use grafeo_engine::transaction::{EntityId, TransactionManager};
use serde_json::json;
use std::sync::{Arc, Barrier};

pub fn main(o: &Opts) -> i32 {
    let threads = o.usize("threads", 4);
    let rounds = o.usize("rounds", 300);
    let mut out = Out::create(&o.str("out", "trace.ndjson"));
    let mgr = Arc::new(TransactionManager::new());
    for r in 0..rounds {
        let bar = Arc::new(Barrier::new(threads));
        let hs: Vec<_> = (0..threads)
            .map(|i| {
                let m = Arc::clone(&mgr);
                let b = Arc::clone(&bar);
                std::thread::spawn(move || {
                    let t = m.begin();
                    let s = m.start_epoch(t).map(|e| e.as_u64()).unwrap_or(0);
                    m.record_write(t, EntityId::Node(NodeId::new(1))).unwrap();
                    m.record_write(t, EntityId::Node(NodeId::new(100 + i as u64))).unwrap();
                    b.wait();
                    let c = match m.commit(t) { Ok(e) => e.as_u64(), Err(_) => { let _ = m.abort(t); 0 } };
                    json!({"s": s, "c": c, "w": [1, 100 + i]})
                })
            })
            .collect();
        let txs: Vec<_> = hs.into_iter().map(|h| h.join().unwrap()).collect();
        out.emit(&json!({"a": "round", "txs": txs}));
        if r % 7 == 0 { mgr.gc(); }
    }
    let n = out.n;
    out.finish();
    println!("{{\"rounds\": {n}}}");
    0
}
