//! Uncontrolled real-thread stress of TransactionManager (C03 "commits issued concurrently from several
//! threads"): every round, N threads begin, record a write of one shared entity (plus a private one) and
//! commit at the same time. Only values returned by the API are recorded (start epoch, commit epoch or
//! refusal); spec/txn/FcwHistory.tla decides first-committer-wins and epoch uniqueness from them.
use crate::util::{Opts, Out};
use grafeo_common::types::NodeId;
use grafeo_engine::transaction::{EntityId, TransactionManager};
use serde_json::json;
use std::sync::{Arc, Barrier};

pub fn main(o: &Opts) -> i32 {
    let threads = o.usize("threads", 4);
    let rounds = o.usize("rounds", 300);
    let mut out = Out::create(&o.str("out", "trace.ndjson"));
    if o.usize("free", 0) > 0 { return free(o, out); }
    let mgr = Arc::new(TransactionManager::new());
    for r in 0..rounds {
        let bar = Arc::new(Barrier::new(threads));
        let hs: Vec<_> = (0..threads)
            .map(|i| {
                let m = Arc::clone(&mgr);
                let b = Arc::clone(&bar);
                std::thread::spawn(move || {
                    let t = m.begin();
                    let s = m.start_epoch(t).map(|e| e.as_u64()).unwrap_or(0);
                    m.record_write(t, EntityId::Node(NodeId::new(1))).unwrap();
                    m.record_write(t, EntityId::Node(NodeId::new(100 + i as u64))).unwrap();
                    b.wait();
                    let c = match m.commit(t) { Ok(e) => e.as_u64(), Err(_) => { let _ = m.abort(t); 0 } };
                    json!({"s": s, "c": c, "w": [1, 100 + i]})
                })
            })
            .collect();
        let txs: Vec<_> = hs.into_iter().map(|h| h.join().unwrap()).collect();
        out.emit(&json!({"a": "round", "txs": txs}));
        if r % 7 == 0 { mgr.gc(); }
    }
    let n = out.n;
    out.finish();
    println!("{{\"rounds\": {n}}}");
    0
}

/// Free-running mode: no barrier, every thread loops begin / write the shared entity / commit-or-abort / gc, so that
/// begin races with another thread's commit + gc (the window between reading the snapshot epoch and registering in
/// the table has no yield point).  All transactions write entity 1; the committed ones are sorted by commit epoch and
/// emitted as overlapping windows (each window starts with the last transaction of the previous one), which
/// FcwHistory.tla judges exactly as it judges a round.
fn free(o: &Opts, mut out: Out) -> i32 {
    let threads = o.usize("threads", 3);
    let iters = o.usize("free", 10000);
    let win = o.usize("window", 16);
    let mgr = Arc::new(TransactionManager::new());
    let bar = Arc::new(Barrier::new(threads));
    let hs: Vec<_> = (0..threads)
        .map(|_| {
            let m = Arc::clone(&mgr);
            let b = Arc::clone(&bar);
            std::thread::spawn(move || {
                let mut v = Vec::with_capacity(iters);
                b.wait();
                for _ in 0..iters {
                    let t = m.begin();
                    let s = m.start_epoch(t).map(|e| e.as_u64()).unwrap_or(0);
                    m.record_write(t, EntityId::Node(NodeId::new(1))).unwrap();
                    let c = match m.commit(t) { Ok(e) => e.as_u64(), Err(_) => { let _ = m.abort(t); 0 } };
                    m.gc();
                    v.push((s, c));
                }
                v
            })
        })
        .collect();
    let mut all: Vec<(u64, u64)> = hs.into_iter().flat_map(|h| h.join().unwrap()).collect();
    let refused = all.iter().filter(|x| x.1 == 0).count();
    all.retain(|x| x.1 > 0);
    all.sort_by_key(|x| x.1);
    let mut i = 0;
    while i + 1 < all.len() {
        let j = (i + win).min(all.len());
        out.emit(&json!({"a": "round", "txs": all[i..j].iter().map(|(s, c)| json!({"s": s, "c": c, "w": [1]})).collect::<Vec<_>>()}));
        i = j - 1;
    }
    let n = out.n;
    out.finish();
    println!("{{\"rounds\": {n}, \"committed\": {}, \"refused\": {refused}}}", all.len());
    0
}
