//! C15 (pure codecs): bounded-exhaustive + structured + random inputs through every storage codec; encode/decode,
//! random access and byte serialisation results are logged as symbol sequences; spec/misc/Codec.tla states the identities.
use crate::util::{Opts, Out};
use grafeo_core::storage::*;
use rand::rngs::StdRng;
use rand::{Rng, SeedableRng};
use serde_json::{json, Value as J};

const SYM_U: [u64; 8] = [0, 1, 2, 63, 64, 1 << 32, 1 << 63, u64::MAX];
const SYM_I: [i64; 8] = [i64::MIN, -1, 0, 1, 2, 1 << 32, i64::MAX - 1, i64::MAX];
fn su(v: u64) -> i64 { SYM_U.iter().position(|x| *x == v).map(|i| i as i64 + 1).unwrap_or(-(1 + (v % 1000) as i64)) }
fn si(v: i64) -> i64 { SYM_I.iter().position(|x| *x == v).map(|i| i as i64 + 1).unwrap_or(-(1 + (v.rem_euclid(1000)))) }

fn inputs(rng: &mut StdRng, maxlen: usize, nrand: usize) -> Vec<Vec<usize>> {
    // sequences of symbol indices 0..8: all up to maxlen, structured long ones, random ones
    let mut out: Vec<Vec<usize>> = vec![vec![]];
    let mut frontier: Vec<Vec<usize>> = vec![vec![]];
    for _ in 0..maxlen {
        let mut next = vec![];
        for s in &frontier { for a in 0..8 { let mut t = s.clone(); t.push(a); next.push(t); } }
        out.extend(next.iter().cloned());
        frontier = next;
    }
    for len in [7usize, 8, 9, 63, 64, 65, 127, 128, 129, 1000] {
        for a in 0..8 { out.push(vec![a; len]); }
        out.push((0..len).map(|i| i % 8).collect());
        out.push((0..len).map(|i| if i % 2 == 0 { 0 } else { 7 }).collect());
        out.push((0..len).map(|i| (i / 9) % 8).collect());
    }
    for _ in 0..nrand {
        let len = rng.random_range(0..200);
        let k = rng.random_range(1..=8);
        out.push((0..len).map(|_| rng.random_range(0..k)).collect());
    }
    out
}

fn case(out: &mut Out, codec: &str, xs: Vec<i64>, f: impl FnOnce() -> (Vec<i64>, Option<Vec<i64>>, Option<Vec<i64>>)) -> bool {
    let r = crate::util::catch(std::panic::AssertUnwindSafe(f));
    let short = |v: &Vec<i64>| -> J { if v.len() <= 24 { json!(v) } else { json!({"len": v.len(), "head": v[..8].to_vec(), "h": v.iter().fold(0i64, |a, b| (a.wrapping_mul(31).wrapping_add(*b)) % 1_000_003)}) } };
    match r {
        Ok((dec, get, rt)) => {
            let ok = dec == xs && get.as_ref().is_none_or(|g| *g == xs) && rt.as_ref().is_none_or(|g| *g == xs);
            if xs.len() <= 24 || !ok {
                out.emit(&json!({"codec": codec, "xs": short(&xs), "dec": short(&dec), "hasget": get.is_some(), "hasrt": rt.is_some(), "get": get.as_ref().map(short).unwrap_or(json!([])), "rt": rt.as_ref().map(short).unwrap_or(json!([])), "panic": false, "n": xs.len(),
                                 "same": dec == xs, "gsame": get.is_none_or(|g| g == xs), "rsame": rt.is_none_or(|g| g == xs)}));
            } else {
                out.emit(&json!({"codec": codec, "xs": short(&xs), "dec": short(&xs), "hasget": false, "hasrt": false, "get": [], "rt": [], "panic": false, "n": xs.len(), "same": true, "gsame": true, "rsame": true}));
            }
            ok
        }
        Err(p) => { out.emit(&json!({"codec": codec, "xs": short(&xs), "dec": [], "hasget": false, "hasrt": false, "get": [], "rt": [], "panic": true, "info": p.chars().take(100).collect::<String>(), "n": xs.len(), "same": false, "gsame": false, "rsame": false})); false }
    }
}

pub fn main(o: &Opts) -> i32 {
    crate::util::silence_panics();
    let mut out = Out::create(&o.str("out", "codec.ndjson"));
    let mut rng = StdRng::seed_from_u64(o.u64("seed", 1));
    let ins = inputs(&mut rng, o.usize("maxlen", 3), o.usize("random", 150));
    let mut bad = 0usize;
    for s in &ins {
        let u: Vec<u64> = s.iter().map(|i| SYM_U[*i]).collect();
        let i: Vec<i64> = s.iter().map(|k| SYM_I[*k]).collect();
        let mut us = u.clone(); us.sort_unstable();
        let bools: Vec<bool> = s.iter().map(|k| k % 2 == 1).collect();
        let xu: Vec<i64> = u.iter().map(|v| su(*v)).collect();
        let xus: Vec<i64> = us.iter().map(|v| su(*v)).collect();
        let xi: Vec<i64> = i.iter().map(|v| si(*v)).collect();
        let xb: Vec<i64> = bools.iter().map(|b| *b as i64).collect();
        let mut run = |ok: bool| { if !ok { bad += 1; } };
        // delta (sorted unsigned; signed any order)
        run(case(&mut out, "delta", xus.clone(), || { let e = DeltaEncoding::encode(&us); let rt = DeltaEncoding::from_bytes(&e.to_bytes()).map(|d| d.decode().iter().map(|v| su(*v)).collect()).ok(); (e.decode().iter().map(|v| su(*v)).collect(), None, rt) }));
        run(case(&mut out, "delta_signed", xi.clone(), || { let e = DeltaEncoding::encode_signed(&i); let rt = DeltaEncoding::from_bytes(&e.to_bytes()).map(|d| d.decode_signed().iter().map(|v| si(*v)).collect()).ok(); (e.decode_signed().iter().map(|v| si(*v)).collect(), None, rt) }));
        run(case(&mut out, "bitpack", xu.clone(), || { let e = BitPackedInts::pack(&u); let get = (0..u.len()).map(|k| e.get(k).map(su).unwrap_or(-999)).collect(); let rt = BitPackedInts::from_bytes(&e.to_bytes()).map(|d| d.unpack().iter().map(|v| su(*v)).collect()).ok(); (e.unpack().iter().map(|v| su(*v)).collect(), Some(get), rt) }));
        run(case(&mut out, "delta_bitpack", xus.clone(), || { let e = DeltaBitPacked::encode(&us); let rt = DeltaBitPacked::from_bytes(&e.to_bytes()).map(|d| d.decode().iter().map(|v| su(*v)).collect()).ok(); (e.decode().iter().map(|v| su(*v)).collect(), None, rt) }));
        run(case(&mut out, "rle", xu.clone(), || { let e = RunLengthEncoding::encode(&u); let get = (0..u.len()).map(|k| e.get(k).map(su).unwrap_or(-999)).collect(); let rt = RunLengthEncoding::from_bytes(&e.to_bytes()).map(|d| d.decode().iter().map(|v| su(*v)).collect()).ok(); (e.decode().iter().map(|v| su(*v)).collect(), Some(get), rt) }));
        run(case(&mut out, "rle_signed", xi.clone(), || { let e = SignedRunLengthEncoding::encode(&i); let rt = SignedRunLengthEncoding::from_bytes(&e.to_bytes()).map(|d| d.decode().iter().map(|v| si(*v)).collect()).ok(); (e.decode().iter().map(|v| si(*v)).collect(), None, rt) }));
        run(case(&mut out, "bitvec", xb.clone(), || { let e = BitVector::from_bools(&bools); let get = (0..bools.len()).map(|k| e.get(k).map(|b| b as i64).unwrap_or(-999)).collect(); let rt = BitVector::from_bytes(&e.to_bytes()).map(|d| d.to_bools().iter().map(|b| *b as i64).collect()).ok(); (e.to_bools().iter().map(|b| *b as i64).collect(), Some(get), rt) }));
        run(case(&mut out, "auto_unsigned", xu.clone(), || { let c = TypeSpecificCompressor::compress_integers(&u); (TypeSpecificCompressor::decompress_integers(&c).map(|d| d.iter().map(|v| su(*v)).collect()).unwrap_or_else(|_| vec![-998]), None, None) }));
        run(case(&mut out, "auto_signed", xi.clone(), || { let c = TypeSpecificCompressor::compress_signed_integers(&i); (TypeSpecificCompressor::decompress_integers(&c).map(|d| d.iter().map(|v| si(zigzag_decode(*v))).collect()).unwrap_or_else(|_| vec![-998]), None, None) }));
        run(case(&mut out, "auto_bool", xb.clone(), || { let c = TypeSpecificCompressor::compress_booleans(&bools); (TypeSpecificCompressor::decompress_booleans(&c).map(|d| d.iter().map(|b| *b as i64).collect()).unwrap_or_else(|_| vec![-998]), None, None) }));
        run(case(&mut out, "dictionary", xu.clone(), || { let mut b = DictionaryBuilder::new(); let strs: Vec<String> = u.iter().map(|v| format!("s{v}")).collect(); for x in &strs { b.add(x); } let e = b.build();
            let dec: Vec<i64> = (0..strs.len()).map(|k| e.get(k).and_then(|x| x[1..].parse::<u64>().ok()).map(su).unwrap_or(-999)).collect(); (dec, None, None) }));
        // a builder that held a batch with NULLs and was cleared encodes the next batch as a fresh one would
        run(case(&mut out, "dictionary_reuse", xu.clone(), || { let mut b = DictionaryBuilder::new();
            for k in 0..(u.len() + 2) { if k % 2 == 0 { b.add_null(); } else { b.add("old"); } }
            b.clear();
            let strs: Vec<String> = u.iter().map(|v| format!("s{v}")).collect(); for x in &strs { b.add(x); } let e = b.build();
            let dec: Vec<i64> = (0..strs.len()).map(|k| e.get(k).and_then(|x| x[1..].parse::<u64>().ok()).map(su).unwrap_or(-999)).collect(); (dec, None, None) }));
        // NULL entries (every symbol with an even index is a NULL) keep their positions
        run(case(&mut out, "dictionary_nulls", s.iter().enumerate().map(|(k, _)| if s[k] % 2 == 0 { -1 } else { xu[k] }).collect(), || { let mut b = DictionaryBuilder::new();
            for (k, v) in u.iter().enumerate() { if s[k] % 2 == 0 { b.add_optional(None); } else { b.add_optional(Some(&format!("s{v}"))); } }
            let e = b.build();
            let dec: Vec<i64> = (0..u.len()).map(|k| if e.is_null(k) { if e.get(k).is_none() { -1 } else { -997 } } else { e.get(k).and_then(|x| x[1..].parse::<u64>().ok()).map(su).unwrap_or(-999) }).collect(); (dec, None, None) }));
        // succinct structures: access / rank / select = definition on the decoded sequence
        let mut usd = us.clone(); usd.dedup();
        let xusd: Vec<i64> = usd.iter().map(|v| su(*v)).collect();
        run(case(&mut out, "elias_fano", xusd.clone(), || { let us = usd.clone(); let e = EliasFano::new(&us); let get: Vec<i64> = (0..us.len()).map(|k| su(e.get(k))).collect(); (e.iter().map(su).collect(), Some(get), None) }));
        run(case(&mut out, "rank_select", xb.clone(), || { let e = SuccinctBitVector::from_bools(&bools);
            let get: Vec<i64> = (0..bools.len()).map(|k| e.get(k).map(|b| b as i64).unwrap_or(-999)).collect();
            // rank1(pos) = ones before pos; select1(k) = position of k-th one: fold both into one pass/fail flag vector
            let mut okv: Vec<i64> = bools.iter().map(|b| *b as i64).collect();
            let mut ones = 0usize;
            for (pos, b) in bools.iter().enumerate() {
                if e.rank1(pos) != ones || e.rank0(pos) != pos - ones { okv[pos] = -5; if std::env::var("GV_DEBUG").is_ok() { eprintln!("rank1({pos}) = {} want {ones}", e.rank1(pos)); } }
                if *b { if e.select1(ones) != Some(pos) { okv[pos] = -6; if std::env::var("GV_DEBUG").is_ok() { eprintln!("select1({ones}) = {:?} want {pos} (len {})", e.select1(ones), bools.len()); } } ones += 1; } else if e.select0(pos - ones) != Some(pos) { okv[pos] = -7; }
            }
            (okv, Some(get), None) }));
        let small: Vec<u64> = s.iter().map(|k| *k as u64).collect();
        let xsmall: Vec<i64> = small.iter().map(|v| *v as i64).collect();
        run(case(&mut out, "wavelet", xsmall.clone(), || { let e = WaveletTree::new(&small); let acc: Vec<i64> = (0..small.len()).map(|k| e.access(k) as i64).collect();
            let mut okv = acc.clone();
            for (pos, sym) in small.iter().enumerate() {
                let before = small[..pos].iter().filter(|x| *x == sym).count();
                if e.rank(*sym, pos) != before { okv[pos] = -5; }
                if e.select(*sym, before) != Some(pos) { okv[pos] = -6; }
            }
            (okv, Some(acc), None) }));
    }
    let n = out.n;
    out.finish();
    println!("{{\"cases\": {n}, \"bad\": {bad}, \"inputs\": {}}}", ins.len());
    0
}
