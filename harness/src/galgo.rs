//! C19: runs every bundled graph algorithm on small directed multigraphs and records the results;
//! spec/misc/GraphAlgo.tla holds the definitions / certificates checked by TLC.
use crate::util::{Opts, Out};
use grafeo_adapters::plugins::algorithms::*;
use grafeo_common::types::{NodeId, Value};
use grafeo_core::graph::lpg::LpgStore;
use rand::rngs::StdRng;
use rand::{Rng, SeedableRng};
use serde_json::{json, Value as J};
use std::collections::HashMap;

struct G {
    store: LpgStore,
    ids: Vec<NodeId>,
    edges: Vec<(usize, usize, i64, i64)>, // src, dst, effective weight, signed weight (property nw)
    eidx: HashMap<u64, usize>,
}

fn build(n: usize, edges: &[(usize, usize, Option<i64>)]) -> G {
    let store = LpgStore::new();
    let ids: Vec<NodeId> = (0..n).map(|_| store.create_node(&["N"])).collect();
    let mut es = vec![];
    let mut eidx = HashMap::new();
    for (i, (s, d, w)) in edges.iter().enumerate() {
        let e = match w {
            Some(w) => store.create_edge_with_props(ids[*s - 1], ids[*d - 1], "E", [("w", if i % 2 == 0 { Value::Int64(*w) } else { Value::Float64(*w as f64) })]),
            None => store.create_edge(ids[*s - 1], ids[*d - 1], "E"),
        };
        eidx.insert(e.as_u64(), i + 1);
        // a second, possibly negative weight for Bellman-Ford: derived from position so that it is deterministic
        let nw = ((i as i64 * 7 + *s as i64 * 3 + *d as i64) % 5) - 1;
        store.set_edge_property(e, "nw", Value::Int64(nw));
        es.push((*s, *d, w.unwrap_or(1), nw));
    }
    G { store, ids, edges: es, eidx }
}

fn dm(g: &G, d: &grafeo_common::utils::hash::FxHashMap<NodeId, f64>) -> J {
    json!(g.ids.iter().map(|id| d.get(id).map(|x| if x.fract() == 0.0 && x.abs() < 1e9 { *x as i64 } else { -7 }).unwrap_or(-1)).collect::<Vec<_>>())
}
fn nidx(g: &G, id: NodeId) -> i64 { g.ids.iter().position(|x| *x == id).map(|i| i as i64 + 1).unwrap_or(99) }
fn path(g: &G, p: Option<Vec<NodeId>>) -> J { json!(p.unwrap_or_default().iter().map(|x| nidx(g, *x)).collect::<Vec<_>>()) }

fn run_case(cid: usize, n: usize, edges: &[(usize, usize, Option<i64>)]) -> J {
    let g = build(n, edges);
    let st = &g.store;
    let w = Some("w");
    let mut c = json!({"cid": cid, "n": n, "edges": g.edges.iter().map(|(s, d, w, nw)| json!([s, d, w, nw])).collect::<Vec<_>>()});
    let r = crate::util::catch(std::panic::AssertUnwindSafe(|| {
        let mut out = serde_json::Map::new();
        let dj: Vec<DijkstraResult> = g.ids.iter().map(|s| dijkstra(st, *s, w)).collect();
        out.insert("dijkstra".into(), json!(dj.iter().map(|r| dm(&g, &r.distances)).collect::<Vec<_>>()));
        out.insert("paths".into(), json!(g.ids.iter().enumerate().map(|(i, s)| g.ids.iter().map(|t| path(&g, dj[i].path_to(*s, *t))).collect::<Vec<_>>()).collect::<Vec<_>>()));
        out.insert("astar".into(), json!(g.ids.iter().map(|s| g.ids.iter().map(|t| path(&g, astar(st, *s, *t, w, |_| 0.0).map(|x| x.1))).collect::<Vec<_>>()).collect::<Vec<_>>()));
        // A* with an admissible but generally inconsistent heuristic: h(v) = a pseudo-random fraction of the true remaining
        // distance (0 where the target is unreachable); the documented requirement is admissibility only
        let to_t: Vec<Vec<f64>> = g.ids.iter().map(|t| g.ids.iter().map(|v| dj[g.ids.iter().position(|x| x == v).unwrap()].distances.get(t).copied().unwrap_or(0.0)).collect()).collect();
        out.insert("astar_h".into(), json!(g.ids.iter().enumerate().map(|(si, s)| g.ids.iter().enumerate().map(|(ti, t)| {
            let h = |v: NodeId| -> f64 { let vi = g.ids.iter().position(|x| *x == v).unwrap(); let d = to_t[ti][vi]; let f = [0.0, 1.0, 1.0, 0.0, 0.5][(vi * 7 + ti * 3 + si * 5 + cid) % 5]; (d * f).floor() };
            let r = astar(st, *s, *t, w, h);
            json!({"d": r.as_ref().map(|x| if x.0.fract() == 0.0 { x.0 as i64 } else { -7 }).unwrap_or(-1), "p": path(&g, r.map(|x| x.1))})
        }).collect::<Vec<_>>()).collect::<Vec<_>>()));
        out.insert("astar_d".into(), json!(g.ids.iter().map(|s| g.ids.iter().map(|t| astar(st, *s, *t, w, |_| 0.0).map(|x| if x.0.fract() == 0.0 { x.0 as i64 } else { -7 }).unwrap_or(-1)).collect::<Vec<_>>()).collect::<Vec<_>>()));
        out.insert("bellman".into(), json!(g.ids.iter().map(|s| dm(&g, &bellman_ford(st, *s, w).distances)).collect::<Vec<_>>()));
        let fw = floyd_warshall(st, w);
        out.insert("floyd".into(), json!(g.ids.iter().map(|s| g.ids.iter().map(|t| fw.distance(*s, *t).map(|x| if x.is_finite() { x as i64 } else { -1 }).unwrap_or(-1)).collect::<Vec<_>>()).collect::<Vec<_>>()));
        out.insert("floyd_paths".into(), json!(g.ids.iter().map(|s| g.ids.iter().map(|t| path(&g, fw.path(*s, *t))).collect::<Vec<_>>()).collect::<Vec<_>>()));
        out.insert("bellman_paths".into(), json!(g.ids.iter().map(|s| { let r = bellman_ford(st, *s, w); g.ids.iter().map(|t| path(&g, r.path_to(*t))).collect::<Vec<_>>() }).collect::<Vec<_>>()));
        let wcc = connected_components(st);
        out.insert("wcc".into(), json!(g.ids.iter().map(|id| wcc.get(id).copied().unwrap_or(9999)).collect::<Vec<_>>()));
        let scc = strongly_connected_components(st);
        out.insert("scc".into(), json!(g.ids.iter().map(|id| scc.get(id).copied().unwrap_or(9999)).collect::<Vec<_>>()));
        let topo = topological_sort(st);
        out.insert("topo".into(), json!({"some": topo.is_some(), "order": topo.unwrap_or_default().iter().map(|x| nidx(&g, *x)).collect::<Vec<_>>()}));
        let mst = |m: MstResult| -> J { json!({"edges": m.edges.iter().map(|e| *g.eidx.get(&e.2.as_u64()).unwrap_or(&999)).collect::<Vec<_>>(), "weight": if m.total_weight.fract() == 0.0 { m.total_weight as i64 } else { -7 }}) };
        out.insert("kruskal".into(), mst(kruskal(st, w)));
        out.insert("prim".into(), mst(prim(st, w, None)));
        out.insert("prims".into(), json!(g.ids.iter().map(|s| mst(prim(st, w, Some(*s)))).collect::<Vec<_>>()));
        out.insert("bellman_neg".into(), json!(g.ids.iter().map(|s| { let r = bellman_ford(st, *s, Some("nw")); json!({"neg": r.has_negative_cycle, "d": dm(&g, &r.distances)}) }).collect::<Vec<_>>()));
        out.insert("layers".into(), json!(g.ids.iter().map(|s| bfs_layers(st, *s).iter().map(|l| l.iter().map(|x| nidx(&g, *x)).collect::<Vec<_>>()).collect::<Vec<_>>()).collect::<Vec<_>>()));
        out.insert("bridges".into(), json!(bridges(st).iter().map(|(a, b)| { let (a, b) = (nidx(&g, *a), nidx(&g, *b)); if a < b { vec![a, b] } else { vec![b, a] } }).collect::<Vec<_>>()));
        let kc = kcore_decomposition(st);
        out.insert("kcore".into(), json!({"core": g.ids.iter().map(|id| kc.core_numbers.get(id).map(|x| *x as i64).unwrap_or(-1)).collect::<Vec<_>>(), "max": kc.max_core}));
        out.insert("wcc_count".into(), json!(connected_component_count(st)));
        out.insert("scc_count".into(), json!(strongly_connected_component_count(st)));
        out.insert("is_dag".into(), json!(is_dag(st)));
        let mut flows = vec![];
        for s in 1..=n { for t in 1..=n { if s != t { if let Some(f) = max_flow(st, g.ids[s - 1], g.ids[t - 1], w) { flows.push(json!({"s": s, "t": t, "value": if f.max_flow.fract() == 0.0 { f.max_flow as i64 } else { -7 },
                "fe": f.flow_edges.iter().map(|(a, b, x)| vec![nidx(&g, *a), nidx(&g, *b), if x.fract() == 0.0 { *x as i64 } else { -7 }]).collect::<Vec<_>>()})); } } } }
        out.insert("flows".into(), json!(flows));
        out.insert("bfs".into(), json!(g.ids.iter().map(|s| bfs(st, *s).iter().map(|x| nidx(&g, *x)).collect::<Vec<_>>()).collect::<Vec<_>>()));
        out.insert("dfs".into(), json!(g.ids.iter().map(|s| dfs(st, *s).iter().map(|x| nidx(&g, *x)).collect::<Vec<_>>()).collect::<Vec<_>>()));
        out.insert("triangles".into(), json!(total_triangles(st)));
        out.insert("artic".into(), json!(articulation_points(st).iter().map(|x| nidx(&g, *x)).collect::<Vec<_>>()));
        let pr = pagerank(st, 0.85, 100, 1e-9);
        let sum: f64 = pr.values().sum();
        out.insert("pagerank_ok".into(), json!(pr.len() == n && (sum - 1.0).abs() < 1e-6 && pr.values().all(|x| *x >= 0.0)));
        out.insert("pagerank_sum".into(), json!(format!("{sum:.9}")));
        // centrality and clustering: integers as they are, fractions in millionths (rounded)
        let mil = |x: f64| -> i64 { if x.is_finite() && x.abs() < 2000.0 { (x * 1e6).round() as i64 } else { -7 } };
        let dc = degree_centrality(st);
        let dnorm: Vec<i64> = { let m = degree_centrality_normalized(st); g.ids.iter().map(|id| m.get(id).map(|x| mil(*x)).unwrap_or(-1)).collect() };
        out.insert("degree".into(), json!({
            "ind": g.ids.iter().map(|id| dc.in_degree.get(id).map(|x| *x as i64).unwrap_or(-1)).collect::<Vec<_>>(),
            "outd": g.ids.iter().map(|id| dc.out_degree.get(id).map(|x| *x as i64).unwrap_or(-1)).collect::<Vec<_>>(),
            "tot": g.ids.iter().map(|id| dc.total_degree.get(id).map(|x| *x as i64).unwrap_or(-1)).collect::<Vec<_>>(),
            "norm": dnorm}));
        let clo = |wf: bool| { let m = closeness_centrality(st, wf); g.ids.iter().map(|id| m.get(id).map(|x| mil(*x)).unwrap_or(-1)).collect::<Vec<_>>() };
        out.insert("closeness".into(), json!({"std": clo(false), "wf": clo(true)}));
        let btw = |nz: bool| { let m = betweenness_centrality(st, nz); g.ids.iter().map(|id| m.get(id).map(|x| mil(*x)).unwrap_or(-1)).collect::<Vec<_>>() };
        out.insert("betweenness".into(), json!({"raw": btw(false), "norm": btw(true)}));
        let cc = clustering_coefficient(st);
        let lc = local_clustering_coefficient(st);
        out.insert("clustering".into(), json!({
            "local": g.ids.iter().map(|id| lc.get(id).map(|x| mil(*x)).unwrap_or(-1)).collect::<Vec<_>>(),
            "local2": g.ids.iter().map(|id| cc.coefficients.get(id).map(|x| mil(*x)).unwrap_or(-1)).collect::<Vec<_>>(),
            "tri": g.ids.iter().map(|id| cc.triangle_counts.get(id).map(|x| *x as i64).unwrap_or(-1)).collect::<Vec<_>>(),
            "total": cc.total_triangles, "global": mil(cc.global_coefficient), "global2": mil(global_clustering_coefficient(st))}));
        out
    }));
    match r {
        Ok(m) => { for (k, v) in m { c[k] = v; } c["panic"] = json!(false); }
        Err(p) => { c["panic"] = json!(true); c["info"] = json!(p.chars().take(120).collect::<String>()); }
    }
    c
}

pub fn main(o: &Opts) -> i32 {
    crate::util::silence_panics();
    let mut out = Out::create(&o.str("out", "galgo.ndjson"));
    let mut rng = StdRng::seed_from_u64(o.u64("seed", 1));
    let mut cid = 0usize;
    // exhaustive: all multigraphs with n <= N nodes and <= M edges over (ordered pair incl. self-loops) x weight class
    let nmax = o.usize("nmax", 3);
    let mmax = o.usize("mmax", 2);
    let wts: [Option<i64>; 3] = [Some(1), Some(2), None];
    for n in 1..=nmax {
        let mut choices: Vec<(usize, usize, Option<i64>)> = vec![];
        for s in 1..=n { for d in 1..=n { for w in wts.iter() { choices.push((s, d, *w)); } } }
        // multisets of size <= mmax (non-decreasing index sequences)
        let mut stack: Vec<Vec<usize>> = vec![vec![]];
        while let Some(sel) = stack.pop() {
            cid += 1;
            let edges: Vec<_> = sel.iter().map(|i| choices[*i]).collect();
            out.emit(&run_case(cid, n, &edges));
            if sel.len() < mmax {
                let from = sel.last().copied().unwrap_or(0);
                for i in from..choices.len() { let mut t = sel.clone(); t.push(i); stack.push(t); }
            }
        }
    }
    for _ in 0..o.usize("random", 200) {
        cid += 1;
        let n = rng.random_range(2..=o.usize("rn", 5));
        let m = rng.random_range(0..=o.usize("rm", 7));
        let edges: Vec<_> = (0..m).map(|_| (rng.random_range(1..=n), rng.random_range(1..=n), match rng.random_range(0..5) { 0 => None, 1 => Some(0), k => Some(k as i64 - 1) })).collect();
        out.emit(&run_case(cid, n, &edges));
    }
    // diamonds with a tail (two routes of different cost meet before the target) plus noise edges: the shape on which
    // re-opening a node matters for A* with an inconsistent heuristic, and on which tie-breaking in Dijkstra / Prim shows
    for _ in 0..o.usize("diamonds", 60) {
        cid += 1;
        let w = |rng: &mut StdRng| Some(rng.random_range(1..=3i64));
        let mut edges = vec![(1, 2, w(&mut rng)), (2, 4, w(&mut rng)), (1, 3, w(&mut rng)), (3, 4, w(&mut rng)), (4, 5, Some(rng.random_range(1..=5)))];
        for _ in 0..rng.random_range(0..=2) { edges.push((rng.random_range(1..=5), rng.random_range(1..=5), w(&mut rng))); }
        out.emit(&run_case(cid, 5, &edges));
    }
    // block graphs: cycles (and single edges) glued at shared vertices, nodes numbered in a random order and every edge
    // in a random direction - the shapes on which low-link computations (articulation points, bridges, strongly
    // connected components) depend on the order of discovery
    for _ in 0..o.usize("blocks", 80) {
        cid += 1;
        let nmax = 7usize;
        let mut und: Vec<(usize, usize)> = vec![];
        let mut n = 0usize;
        let first = rng.random_range(3..=4usize);
        for i in 0..first { und.push((i, (i + 1) % first)); }
        n += first;
        while n < nmax && rng.random_bool(0.8) {
            let at = rng.random_range(0..n);
            let size = rng.random_range(1..=3usize).min(nmax - n);   // new vertices of the block
            let mut prev = at;
            for k in 0..size { und.push((prev, n + k)); prev = n + k; }
            if size >= 2 || rng.random_bool(0.3) { und.push((prev, at)); }   // close the cycle (size 1 closed = parallel edges)
            n += size;
        }
        if rng.random_bool(0.2) { let a = rng.random_range(0..n); und.push((a, a)); }
        // random numbering = random creation order
        let mut perm: Vec<usize> = (1..=n).collect();
        for i in (1..n).rev() { let j = rng.random_range(0..=i); perm.swap(i, j); }
        let mut edges: Vec<(usize, usize, Option<i64>)> = und.iter().map(|(a, b)| { let (x, y) = (perm[*a], perm[*b]); if rng.random_bool(0.5) { (x, y, Some(rng.random_range(1..=3i64))) } else { (y, x, Some(rng.random_range(1..=3i64))) } }).collect();
        for i in (1..edges.len()).rev() { let j = rng.random_range(0..=i); edges.swap(i, j); }
        out.emit(&run_case(cid, n, &edges));
    }
    let n = out.n;
    out.finish();
    println!("{{\"cases\": {n}}}");
    0
}
