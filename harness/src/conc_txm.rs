//! TransactionManager programs under controlled schedules (spec/conc/TxConc.tla).
use crate::conc::run_controlled;
use grafeo_common::types::NodeId;
use grafeo_engine::transaction::{EntityId, IsolationLevel, TransactionManager};
use serde_json::{json, Value as J};
use std::sync::Arc;

/// prog: per thread a list of ops: ["begin"], ["write", e], ["commit"], ["gc"], ["abort"]
pub fn run(prog: &J, chooser: &mut dyn FnMut(&[(usize, &'static str)], usize) -> usize) -> (Vec<J>, J, Vec<usize>) {
    let mgr = Arc::new(TransactionManager::new());
    let bodies = prog
        .as_array()
        .unwrap()
        .iter()
        .map(|ops| {
            let ops = ops.clone();
            let m = Arc::clone(&mgr);
            Box::new(move || {
                let mut out = vec![];
                let mut cur = None;
                for op in ops.as_array().unwrap() {
                    match op[0].as_str().unwrap() {
                        "begin" => {
                            let t = m.begin_with_isolation(IsolationLevel::SnapshotIsolation);
                            out.push(json!({"start": m.start_epoch(t).map(|e| e.as_u64())}));
                            cur = Some(t);
                        }
                        "write" => {
                            let r = m.record_write(cur.unwrap(), EntityId::Node(NodeId::new(op[1].as_u64().unwrap())));
                            out.push(json!(r.is_ok()));
                        }
                        "commit" => {
                            let r = m.commit(cur.unwrap());
                            out.push(match r { Ok(e) => json!({"ok": e.as_u64()}), Err(e) => json!({"err": crate::conc_txm::cls(&e)}) });
                        }
                        "abort" => { let r = m.abort(cur.unwrap()); out.push(json!(r.is_ok())); }
                        "gc" => { out.push(json!(m.gc())); }
                        _ => panic!("op"),
                    }
                }
                out
            }) as Box<dyn FnOnce() -> Vec<J> + Send>
        })
        .collect();
    let (steps, rets, br) = run_controlled(bodies, chooser);
    (steps, json!({"a": "end", "rets": rets, "obs": {"epoch": mgr.current_epoch().as_u64(), "nact": mgr.active_count()}}), br)
}

pub fn cls(e: &grafeo_common::utils::error::Error) -> &'static str {
    use grafeo_common::utils::error::{Error, TransactionError};
    match e {
        Error::Transaction(TransactionError::WriteConflict(_)) => "ww",
        Error::Transaction(TransactionError::SerializationFailure(_)) => "rw",
        Error::Transaction(TransactionError::InvalidState(_)) => "invalid",
        _ => "other",
    }
}
