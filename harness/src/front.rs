//! C12: hands query texts to the real front ends (Session::execute*, with and without parameters, on an empty and on a
//! populated database) and reports the outcome of each call.  Run as a supervised child: the parent (checks/C12.py)
//! restarts it after an abort and kills it on a hang, so every input gets an outcome in {ok, err, panic, abort, hang}.
//!   gv front --lang L --tokens front_tokens.json --seqs FILE   : FILE has one token-number sequence per line ("3 17 5")
//!   gv front --lang L --texts FILE                             : FILE is ndjson {"text": "...", "params": {...}?}
//!   --start a --end b   range of input numbers (0-based, end exclusive);  --trace  print "H i" before each input
//! stdout: "R <i> panic <message>" for panics, "DONE <ok> <err> <panic>" at the end.
use crate::util::{catch, Opts};
use grafeo_common::types::Value;
use grafeo_engine::{GrafeoDB, Session};
use serde_json::Value as J;
use std::collections::HashMap;
use std::io::Write;
use std::panic::AssertUnwindSafe;

fn populate(db: &GrafeoDB) {
    let s = db.session();
    for q in ["INSERT (:P {k: 1, name: 'a'})", "INSERT (:P {k: 2, name: 'b'})", "INSERT (:Q {k: 3})"] { let _ = s.execute(q); }
    let _ = s.execute("MATCH (a:P {k: 1}), (b:P {k: 2}) INSERT (a)-[:R {w: 1}]->(b)");
    let _ = s.execute("MATCH (a:P {k: 2}), (b:Q {k: 3}) INSERT (a)-[:R {w: 2}]->(b)");
    let _ = s.execute_sparql("INSERT DATA { <http://x/a> <http://x/p> \"lit\" . <http://x/a> <http://x/q> 1 }");
}

fn params_of(j: Option<&J>) -> HashMap<String, Value> {
    let mut m = HashMap::new();
    if let Some(J::Object(o)) = j {
        for (k, v) in o {
            let val = match v {
                J::Null => Value::Null, J::Bool(b) => Value::Bool(*b),
                J::Number(n) if n.is_i64() => Value::Int64(n.as_i64().unwrap()), J::Number(n) => Value::Float64(n.as_f64().unwrap_or(f64::NAN)),
                J::String(s) => Value::String(s.as_str().into()),
                J::Array(a) => Value::List(a.iter().map(|x| x.as_i64().map(Value::Int64).unwrap_or(Value::Null)).collect::<Vec<_>>().into()),
                _ => Value::Null,
            };
            m.insert(k.clone(), val);
        }
    }
    m
}

/// one call; Ok(true) = result, Ok(false) = error value, Err = panic message
fn call(s: &Session, lang: &str, text: &str, params: Option<&HashMap<String, Value>>) -> Result<bool, String> {
    catch(AssertUnwindSafe(|| {
        let r = match (lang, params) {
            ("gql", None) => s.execute(text), ("gql", Some(p)) => s.execute_with_params(text, p.clone()),
            ("cypher", _) => s.execute_cypher(text),
            ("gremlin", None) => s.execute_gremlin(text), ("gremlin", Some(p)) => s.execute_gremlin_with_params(text, p.clone()),
            ("graphql", None) => s.execute_graphql(text), ("graphql", Some(p)) => s.execute_graphql_with_params(text, p.clone()),
            ("sparql", None) => s.execute_sparql(text), ("sparql", Some(p)) => s.execute_sparql_with_params(text, p.clone()),
            _ => panic!("lang"),
        };
        r.is_ok()
    }))
}

pub fn main(o: &Opts) -> i32 {
    crate::util::silence_panics();
    let lang = o.str("lang", "gql");
    let mut inputs: Vec<(String, Option<HashMap<String, Value>>)> = vec![];
    if let Some(f) = o.get("seqs") {
        let toks: J = serde_json::from_str(&std::fs::read_to_string(o.str("tokens", "front_tokens.json")).expect("tokens")).expect("json");
        let table: Vec<String> = toks[&lang]["tokens"].as_array().unwrap().iter().map(|x| x.as_str().unwrap().to_string()).collect();
        for line in std::fs::read_to_string(f).expect("seqs").lines() {
            let ids: Vec<usize> = line.split_whitespace().filter_map(|x| x.parse().ok()).collect();
            let text = ids.iter().map(|i| table[i - 1].as_str()).collect::<Vec<_>>().join(" ");
            inputs.push((text, None));
        }
    } else {
        for rec in crate::util::read_ndjson(&o.str("texts", "texts.ndjson")) {
            let p = rec.get("params").filter(|x| !x.is_null()).map(|x| params_of(Some(x)));
            inputs.push((rec["text"].as_str().unwrap_or("").to_string(), p));
        }
    }
    let (start, end) = (o.usize("start", 0), o.usize("end", inputs.len()).min(inputs.len()));
    let trace = !o.flag("notrace");
    let out = std::io::stdout();
    // watchdog: an input that runs longer than --limit seconds is reported as a hang and the process exits (code 3)
    let limit_ms = o.u64("limit", 5) * 1000;
    let current = std::sync::Arc::new(std::sync::atomic::AtomicU64::new(u64::MAX));
    let started = std::sync::Arc::new(std::sync::Mutex::new(std::time::Instant::now()));
    {
        let (current, started) = (current.clone(), started.clone());
        std::thread::spawn(move || loop {
            std::thread::sleep(std::time::Duration::from_millis(50));
            let i = current.load(std::sync::atomic::Ordering::SeqCst);
            if i != u64::MAX && started.lock().unwrap().elapsed().as_millis() as u64 > limit_ms {
                let o = std::io::stdout();
                let mut l = o.lock();
                let _ = writeln!(l, "R {i} hang");
                let _ = l.flush();
                std::process::exit(3);
            }
        });
    }
    let (mut ok, mut err, mut pan) = (0u64, 0u64, 0u64);
    let mut full = GrafeoDB::new_in_memory();
    populate(&full);
    let mut empty = GrafeoDB::new_in_memory();
    for i in start..end {
        if trace { let mut l = out.lock(); let _ = writeln!(l, "H {i}"); let _ = l.flush(); }
        *started.lock().unwrap() = std::time::Instant::now();
        current.store(i as u64, std::sync::atomic::Ordering::SeqCst);
        if (i - start) % 500 == 499 {
            // mutating inputs accumulate state: start over with fresh databases now and then
            full = GrafeoDB::new_in_memory(); populate(&full); empty = GrafeoDB::new_in_memory();
        }
        let (text, params) = &inputs[i];
        let mut worst: Result<bool, String> = Ok(true);
        for db in [&full, &empty] {
            let s = db.session();
            let r = call(&s, &lang, text, params.as_ref());
            match (&worst, &r) { (Err(_), _) => {} (_, Err(_)) => worst = r, (Ok(true), Ok(false)) => worst = r, _ => {} }
        }
        // every call also with a parameter map when none was given (GQL only: $p appears in the alphabet)
        if params.is_none() && lang == "gql" && text.contains("$p") {
            let mut m = HashMap::new();
            m.insert("p".to_string(), Value::Int64(1));
            let r = call(&full.session(), &lang, text, Some(&m));
            if r.is_err() { worst = r; }
        }
        match worst {
            Ok(true) => ok += 1,
            Ok(false) => err += 1,
            Err(p) => { pan += 1; let mut l = out.lock(); let _ = writeln!(l, "R {i} panic {}", p.replace('\n', " ").chars().take(200).collect::<String>()); let _ = l.flush(); }
        }
    }
    current.store(u64::MAX, std::sync::atomic::Ordering::SeqCst);
    println!("DONE {ok} {err} {pan}");
    0
}
