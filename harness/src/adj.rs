//! Driver/recorder for ChunkedAdjacency (spec/store/Adjacency.tla, Trace_Adjacency.tla).
use crate::util::{Opts, Out};
use grafeo_common::types::{EdgeId, NodeId};
use grafeo_core::index::ChunkedAdjacency;
use rand::rngs::StdRng;
use rand::{Rng, SeedableRng};
use serde_json::{json, Value as J};

fn obs(a: &ChunkedAdjacency, nsrc: u64) -> J {
    let ef: Vec<J> = (1..=nsrc).map(|s| json!(a.edges_from(NodeId::new(s)).iter().map(|(d, e)| json!([d.as_u64(), e.as_u64()])).collect::<Vec<_>>())).collect();
    let nb: Vec<J> = (1..=nsrc).map(|s| json!(a.neighbors(NodeId::new(s)).iter().map(|d| d.as_u64()).collect::<Vec<_>>())).collect();
    let deg: Vec<usize> = (1..=nsrc).map(|s| a.out_degree(NodeId::new(s))).collect();
    json!({"ef": ef, "nb": nb, "deg": deg, "active": a.active_edge_count(), "total": a.total_edge_count()})
}

pub fn main(o: &Opts) -> i32 {
    let mut out = Out::create(&o.str("out", "trace.ndjson"));
    let mut rng = StdRng::seed_from_u64(o.u64("seed", 1));
    let nsrc = o.u64("nsrc", 3);
    let len = o.usize("len", 120);
    for t in 0..o.usize("traces", 20) {
        let cap = match o.usize("cap", 0) { 0 => [2usize, 3, 64][t % 3], c => c };
        let a = if cap == 64 { ChunkedAdjacency::new() } else { ChunkedAdjacency::with_chunk_capacity(cap) };
        out.emit(&json!({"a": "reset", "cap": cap}));
        let mut next_e = 1u64;
        let mut live: Vec<(u64, u64)> = vec![]; // (src, eid)
        // capacity 64: long add runs so that the delta threshold (64) and > 4 hot chunks (cold compression) are crossed
        let n = if cap == 64 { len * 4 } else { len };
        for _ in 0..n {
            let roll = rng.random_range(0..100);
            let add_w = if cap == 64 { 80 } else { 55 };
            let ev = if roll < add_w || live.is_empty() {
                let s = if rng.random_bool(0.7) { 1 } else { rng.random_range(1..=nsrc) };
                let d = rng.random_range(1..=nsrc);
                a.add_edge(NodeId::new(s), NodeId::new(d), EdgeId::new(next_e));
                live.push((s, next_e));
                next_e += 1;
                json!({"a": "add", "s": s, "d": d, "e": next_e - 1})
            } else if roll < add_w + 20 {
                // oldest-biased deletions reach entries that already moved to cold chunks
                let i = if rng.random_bool(0.5) { rng.random_range(0..live.len().min(6)) } else { rng.random_range(0..live.len()) };
                let (s, e) = live.remove(i);
                a.mark_deleted(NodeId::new(s), EdgeId::new(e));
                json!({"a": "del", "s": s, "e": e})
            } else if roll < add_w + 32 {
                a.compact();
                json!({"a": "compact"})
            } else if roll < add_w + 40 {
                a.compact_if_needed();
                json!({"a": "compact_if_needed"})
            } else if roll < add_w + 44 {
                a.freeze_all();
                json!({"a": "freeze"})
            } else if roll == 99 {
                a.clear();
                live.clear();
                json!({"a": "clear"})
            } else {
                a.compact_if_needed();
                json!({"a": "compact_if_needed"})
            };
            let mut ev = ev;
            ev["obs"] = obs(&a, nsrc);
            out.emit(&ev);
        }
    }
    let n = out.n;
    out.finish();
    println!("{{\"events\": {n}}}");
    0
}
