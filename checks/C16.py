"""C16: values compare, hash, order and serialise consistently — spec/misc/ValueLaws.tla (laws over recorded
relations, checked by TLC for all pairs and triples) + harness `gv vals`."""
import json
import os
import re

import vcommon as V

MOD = os.path.join(V.SPEC, "misc", "ValueLaws.tla")


def run(tier, seed):
    prop = "C16"
    rep = V.Report(prop, "exploration", tier, seed)
    wd = V.workdir(prop)
    V.cargo_build()
    cfg = os.path.join(wd, "laws.cfg")
    with open(cfg, "w") as f:
        f.write("SPECIFICATION Spec\nCHECK_DEADLOCK FALSE\n")
    runs = 3 if tier == "quick" else 25
    extra = 20 if tier == "quick" else 45
    evals = 0
    samples = []
    allnames = set()
    for k in range(runs):
        vp = os.path.join(wd, f"vals-{k}.ndjson")
        V.gv(["vals", "--seed", seed * 100 + k, "--extra", extra, "--out", vp, "--dir", os.path.join(wd, "db")] + (["--big"] if k == 0 else []), timeout=1800)
        d = json.loads(open(vp).readline())
        r = V.tlc(MOD, cfg, name=f"C16-{k}", workers=1, timeout=1800, xmx="8g", env={"TRACE": vp})
        if r.timeout or "No error has been found" not in r.out:
            V.log(r.out[-2000:])
            raise V.ToolError("ValueLaws run failed")
        n, no = d["n"], d["no"]
        evals += n * n * n + no * no * no
        names = d["names"]
        ordn = [names[i - 1] for i in d["ord"]]
        allnames |= set(x for x in names if not x.startswith("rnd")) | {d["canon"][i] for i, x in enumerate(names) if x.startswith("rnd")}
        viol = {}
        for m in re.finditer(r'<<"LAWVIOLATION", "([^"]+)", (.*)>>', r.out):
            law = m.group(1)
            w = [int(x) for x in re.findall(r"\d+", m.group(2))]
            nm = ordn if (law.startswith(("eqO", "cmpO")) ) else names
            viol.setdefault(law, []).append([f"{nm[i - 1]}={d['canon'][(d['ord'][i - 1] - 1) if nm is ordn else i - 1]}" for i in w if i - 1 < len(nm)])
        for law, ws in viol.items():
            rep.violation(f"law '{law}' fails for {len(ws)} witnesses, e.g. {ws[:3]}", {"law": law, "witnesses": ws[:20], "seed": seed * 100 + k})
        if k == 0:
            samples = [{"value": names[i], "canonical": d["canon"][i]} for i in range(0, n, 7)]
    rep.add(evaluations=evals, distinct_nontrivial=len(allnames), rule="universe = fixed boundary values of every variant + seeded random numerics/strings per run; "
            "every pair and triple is evaluated (evaluations = n^3 + n_orderable^3 per run); distinct = distinct values in the universes",
            samples=samples, exhaustive=False,
            laws=["eq equivalence (hashable, orderable)", "eq => equal hash", "cmp = 0 iff eq", "cmp antisymmetric, transitive",
                  "round trips: spill serializer, WAL (close + reopen), snapshot export/import, bit-exact", "snapshot round trip of 12-15 MB snapshots made of millions of small values", "BTreeSet / HashSet / sort class consistency"])
    rep.assumptions += ["relations are evaluated by the harness on the real wrappers and recorded; TLC checks the laws on the recorded matrices",
                        "f64 values are sampled (boundary classes + random bit patterns), not exhaustive; JSON serialisation for language bindings is out of scope (bindings are not built here)"]
    return rep.finish()


def replay(path):
    obj = json.load(open(path))
    print(json.dumps(obj["replay"])[:2000])
    print(f"re-run: VERIF_SEED=<seed> bin/check C16;  VIOLATION property=C16 replay={path}")
    return 1
