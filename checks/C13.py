"""C13 (store part): the triple store is a set — spec/store/RdfStore.tla, MC_RdfIndex.tla; harness `gv rdf`.
The SPARQL part is served by the query-semantics engine when present (see DESIGN §7 C13)."""
import json
import os

import vcommon as V

SPECDIR = os.path.join(V.SPEC, "store")
TRACE = os.path.join(SPECDIR, "Trace_RdfStore.tla")
MC = os.path.join(SPECDIR, "MC_RdfIndex.tla")


def trace_cfg(path, io, no):
    return V.write_cfg(path, spec="TSpec", constants={"S": "{1, 2, 3}", "P": "{1, 2}", "O": V.tla_set([str(i) for i in range(1, no + 1)]),
                                                      "TxIds": "{1, 2}", "IndexObjects": "TRUE" if io else "FALSE"}, postcondition="Accepted")


def run(tier, seed):
    prop = "C13"
    rep = V.Report(prop, "model_checking", tier, seed)
    wd = V.workdir(prop)
    V.cargo_build()
    # 1. MC: index mechanism mirrors the set, all histories over 2x2x2 (quick) / 3x2x2 (thorough) triples
    consts = {"S": "{1, 2}", "P": "{1, 2}", "O": "{1, 2}"} if tier == "quick" else {"S": "{1, 2, 3}", "P": "{1, 2}", "O": "{1, 2}"}
    cfg = V.write_cfg(os.path.join(wd, "mc.cfg"), constants=consts, invariants=["Mirror"])
    r = V.tlc(MC, cfg, name="C13mc", workers=8, timeout=1800, coverage=True)
    V.log(f"[C13] TLC MC_RdfIndex: {r.summary()}")
    if not r.ok:
        rep.violation(f"TLC: {r.violation} in MC_RdfIndex", {"tlc": V.tlc_trace_text(r)[-4000:]}, tag="mc")
    states, trans = r.distinct, r.generated
    mcs = [{"config": "index mechanism vs set, " + json.dumps(consts), **r.summary()}]
    # 2. conformance: with and without object index, 3 and 5 object terms (IRI = subject IRI, plain / lang / typed literal, blank node)
    tot_tr = tot_ev = nontriv = 0
    samples = []
    ntr, ln = (60, 25) if tier == "quick" else (700, 40)
    for (io, no, k) in ((True, 3, 0), (False, 3, 1), (True, 5, 2)):
        tp = os.path.join(wd, f"trace-{k}.ndjson")
        args = ["rdf", "--seed", seed + k, "--traces", ntr, "--len", ln, "--no", no, "--out", tp]
        if not io:
            args.append("--no-object-index")
        V.gv(args)
        ev = V.read_ndjson(tp)
        cfg = trace_cfg(os.path.join(wd, f"trace-{k}.cfg"), io, no)
        traces = V.split_traces(ev)
        batch = []
        groups = []
        for _, tr in traces:
            batch += tr
            if len(batch) >= 1500:
                groups.append(batch)
                batch = []
        if batch:
            groups.append(batch)
        for gi, g in enumerate(groups):
            ok, nev, rej = V.validate_all(TRACE, cfg, g, name=f"C13-{k}-{gi}", wd=wd, max_violations=3)
            tot_tr += ok
            tot_ev += nev
            for rj in rej:
                script = [{x: y for x, y in e.items() if x != "obs"} for e in rj["trace"]]
                rep.violation(f"object index {'on' if io else 'off'}: after event #{rj['offset']} {json.dumps(rj['event'])} the store's results differ from the set semantics of RdfStore.tla",
                              {"io": io, "no": no, "script": script})
        for _, tr in traces:
            acts = [e for e in tr if e["a"] != "reset"]
            if any(e["a"] == "ins" and e.get("r") is False for e in acts) and any(e["a"] == "rem" and e.get("r") is False for e in acts):
                nontriv += 1
                if len(samples) < 2:
                    samples.append([{x: y for x, y in e.items() if x != "obs"} for e in acts][:20])
    # binding self-test
    ev = V.read_ndjson(os.path.join(wd, "trace-0.ndjson"))[:6]
    bad = json.loads(json.dumps(ev))
    bad[3]["obs"]["stats"][1] += 1
    p = os.path.join(wd, "st.ndjson")
    V.write_ndjson(p, bad)
    res = V.validate_trace(TRACE, trace_cfg(os.path.join(wd, "st.cfg"), True, 3), p, name="C13-st")
    if res["accepted"] or res.get("index") != 4:
        raise V.ToolError("binding self-test failed (corrupted stats not rejected)")
    rep.add(states=states + tot_ev, transitions=trans + tot_ev, model_checking=mcs, traces_validated_against_impl=tot_tr,
            events_validated=tot_ev, evaluations=tot_tr, distinct_nontrivial=nontriv,
            rule="random histories over a per-trace sub-universe; non-trivial: contains a duplicate insert and a removal of an absent triple",
            samples=samples, binding_selftest="corrupted stats().subject_count rejected at its event",
            lookups_compared_after_every_call=["find x all bound/unbound patterns", "triples_with_subject/predicate/object", "subjects/predicates/objects",
                                               "len", "stats", "contains for every triple", "triples", "find_with_pending per transaction"])
    rep.assumptions += ["terms: IRIs (one shared between subject and object position), blank nodes, plain / language-tagged / typed literals with equal lexical forms",
                        "SPARQL evaluation over the set is not covered by this check yet (sub-claim listed in MANIFEST level_note)"]
    return rep.finish()


def replay(path):
    obj = json.load(open(path))
    wd = V.workdir("replay-rdf")
    sp = os.path.join(wd, "s.ndjson")
    V.write_ndjson(sp, [[e for e in obj["replay"]["script"] if e.get("a") != "reset"]])
    tp = os.path.join(wd, "t.ndjson")
    args = ["rdf", "--script", sp, "--no", obj["replay"]["no"], "--out", tp]
    if not obj["replay"]["io"]:
        args.append("--no-object-index")
    V.gv(args)
    res = V.validate_trace(TRACE, trace_cfg(os.path.join(wd, "t.cfg"), obj["replay"]["io"], obj["replay"]["no"]), tp, name="replay-rdf")
    print(json.dumps({k: v for k, v in res.items() if k != "out"})[:2000])
    if res["accepted"]:
        return 0
    print(f"VIOLATION property=C13 replay={path}")
    return 1
