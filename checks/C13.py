"""C13: the triple store is a set — spec/store/RdfStore.tla, MC_RdfIndex.tla; harness `gv rdf`;
and a SPARQL query returns the solutions of the SPARQL algebra over that set — spec/store/SparqlSem.tla (executable
definition: BGP, join, FILTER, OPTIONAL = LeftJoin, UNION, projection, DISTINCT, LIMIT, COUNT, INSERT / DELETE DATA),
Trace_Sparql.tla; harness `gv sparql`."""
import collections
import concurrent.futures as cf
import json
import os
import re

import sparql_classes
import vcommon as V

SPARQL_TRACE = os.path.join(V.SPEC, "store", "Trace_Sparql.tla")


def _sparql_chunk(args):
    k, path, cfg = args
    return k, V.tlc(SPARQL_TRACE, cfg, name=f"C13-sparql-{k}", workers=1, timeout=3000, xmx="4g", env={"TRACE": path})


def sparql_part(rep, wd, tier, seed):
    """histories of updates and generated queries judged by SparqlSem.tla; returns coverage numbers"""
    tp = os.path.join(wd, "sparql.ndjson")
    ntr, ln = (150, 25) if tier == "quick" else (3000, 30)
    V.gv(["sparql", "--seed", seed, "--traces", ntr, "--len", ln, "--out", tp], timeout=1800)
    ev = V.read_ndjson(tp)
    traces = [tr for _, tr in V.split_traces(ev)]
    nchunks = 6 if tier == "quick" else 14
    chunks = [[] for _ in range(nchunks)]
    for i, tr in enumerate(traces):
        chunks[i % nchunks] += tr
    cfg = os.path.join(wd, "sparql.cfg")
    with open(cfg, "w") as f:
        f.write("SPECIFICATION Spec\nCHECK_DEADLOCK FALSE\n")
    jobs = []
    for k, ch in enumerate(chunks):
        p = os.path.join(wd, f"sparql-{k}.ndjson")
        V.write_ndjson(p, ch)
        jobs.append((k, p, cfg))
    known = {f["id"]: f for f in V.known_for("C13") if f["status"] == "known"}
    bad = collections.defaultdict(list)
    states = 0
    with cf.ThreadPoolExecutor(max_workers=nchunks) as ex:
        for k, r in ex.map(_sparql_chunk, jobs):
            if r.timeout or "No error has been found" not in r.out:
                V.log(r.out[-3000:])
                raise V.ToolError("Trace_Sparql run failed")
            states += r.distinct
            for m in re.finditer(r'<<"MISMATCH", (\d+), \{(.*?)\}>>', r.out):
                e = chunks[k][int(m.group(1)) - 1]
                what = m.group(2).replace('"', "")
                cls = tuple(sorted(sparql_classes.classes(e["q"]["where"]))) if e["a"] == "query" and what == "solutions" else ()
                # the history up to the event (for the replay file)
                idx = int(m.group(1)) - 1
                start = max(i for i in range(idx + 1) if chunks[k][i]["a"] == "reset")
                hist = [x["text"] for x in chunks[k][start + 1: idx] if x["a"] in ("insert", "delete", "update", "delwhere", "clear")]
                bad[(what, cls)].append((e, hist))
    for (what, cls), lst in sorted(bad.items()):
        lst.sort(key=lambda x: (len(x[1]), len(x[1][-1]) if x[1] else 0) if what == "data_set" else len(x[0].get("text", "")))
        e, hist = lst[0]
        if what == "data_set":
            rep.violation(f"SPARQL update: after {len(lst)} updates the data set read back differs from SparqlSem.tla (Update / DeleteWhere); shortest history ends with: "
                          f"{(hist[-1] if hist else '')[:300]} -> data set {json.dumps(e.get('rows'))[:300]}",
                          {"what": what, "updates_before": hist, "query": e.get("text"), "rows": e.get("rows"), "count": len(lst)}, tag="sparql")
            continue
        fid = {("J",): "SparqlJoinOverUnboundVariable", ("F",): "SparqlOptionalFilterScope", ("F", "J"): "SparqlJoinOverUnboundVariable"}.get(cls)
        if what == "values_ignored" and "SparqlValuesIgnored" in known:
            rep.known("SparqlValuesIgnored", known["SparqlValuesIgnored"]["what_fails"] + f" [{len(lst)} queries, e.g. {e.get('text', '')[:160]}]")
            continue
        if what == "solutions" and fid in known:
            rep.known(fid, known[fid]["what_fails"])
            if cls == ("F", "J") and "SparqlOptionalFilterScope" in known:
                rep.known("SparqlOptionalFilterScope", known["SparqlOptionalFilterScope"]["what_fails"])
            continue
        rep.violation(f"SPARQL {what}: {len(lst)} queries differ from SparqlSem.tla, shortest: {e.get('text', '')[:300]} -> rows {json.dumps(e.get('rows'))[:200]} {e.get('info', '')}",
                      {"what": what, "updates_before": hist, "query": e.get("text"), "abstract": e.get("q"), "rows": e.get("rows"), "info": e.get("info"), "count": len(lst)}, tag="sparql")
    queries = [e for e in ev if e["a"] == "query"]
    feats = collections.Counter()
    for e in queries:
        for f in ("DISTINCT", "OPTIONAL", "UNION", "FILTER", "LIMIT", "COUNT", "ORDER BY", "OFFSET", "GROUP BY", "HAVING", "MINUS", "VALUES", " IN (", "||", "&&"):
            if f in e["text"]:
                feats[f] += 1
    clsc = collections.Counter("+".join(sorted(sparql_classes.classes(e["q"]["where"]))) or "plain" for e in queries)
    return dict(sparql_events=len(ev), sparql_queries=len(queries), sparql_histories=len(traces), sparql_features=dict(feats), sparql_query_classes=dict(clsc),
                sparql_samples=[e["text"] for e in queries[:: max(1, len(queries) // 4)]][:4]), states

SPECDIR = os.path.join(V.SPEC, "store")
TRACE = os.path.join(SPECDIR, "Trace_RdfStore.tla")
MC = os.path.join(SPECDIR, "MC_RdfIndex.tla")


def trace_cfg(path, io, no):
    return V.write_cfg(path, spec="TSpec", constants={"S": "{1, 2, 3}", "P": "{1, 2}", "O": V.tla_set([str(i) for i in range(1, no + 1)]),
                                                      "TxIds": "{1, 2}", "IndexObjects": "TRUE" if io else "FALSE"}, postcondition="Accepted")


def run(tier, seed):
    prop = "C13"
    rep = V.Report(prop, "model_checking", tier, seed)
    wd = V.workdir(prop)
    V.cargo_build()
    # 1. MC: index mechanism mirrors the set, all histories over 2x2x2 triples (quick); thorough adds 3x1x2 and 2x1x3
    #    (3x2x2 = 12 triples does not finish within the budget)
    confs = [{"S": "{1, 2}", "P": "{1, 2}", "O": "{1, 2}"}]
    if tier != "quick":
        confs += [{"S": "{1, 2, 3}", "P": "{1}", "O": "{1, 2}"}, {"S": "{1, 2}", "P": "{1}", "O": "{1, 2, 3}"}]
    states = trans = 0
    mcs = []
    for ci, consts in enumerate(confs):
        cfg = V.write_cfg(os.path.join(wd, f"mc{ci}.cfg"), constants=consts, invariants=["Mirror"])
        r = V.tlc(MC, cfg, name=f"C13mc{ci}", workers=8, timeout=1800, coverage=(ci == 0))
        V.log(f"[C13] TLC MC_RdfIndex {consts}: {r.summary()}")
        if r.timeout:
            rep.notes.append(f"MC_RdfIndex {consts} timed out: {r.distinct} distinct states explored without violation")
        elif not r.ok:
            rep.violation(f"TLC: {r.violation} in MC_RdfIndex", {"tlc": V.tlc_trace_text(r)[-4000:]}, tag="mc")
        states += r.distinct
        trans += r.generated
        mcs.append({"config": "index mechanism vs set, " + json.dumps(consts), **r.summary()})
    # 2. conformance: with and without object index, 3 and 5 object terms (IRI = subject IRI, plain / lang / typed literal, blank node)
    tot_tr = tot_ev = nontriv = 0
    samples = []
    ntr, ln = (60, 25) if tier == "quick" else (700, 40)
    for (io, no, k) in ((True, 3, 0), (False, 3, 1), (True, 5, 2)):
        tp = os.path.join(wd, f"trace-{k}.ndjson")
        args = ["rdf", "--seed", seed + k, "--traces", ntr, "--len", ln, "--no", no, "--out", tp]
        if not io:
            args.append("--no-object-index")
        V.gv(args)
        ev = V.read_ndjson(tp)
        cfg = trace_cfg(os.path.join(wd, f"trace-{k}.cfg"), io, no)
        traces = V.split_traces(ev)
        batch = []
        groups = []
        for _, tr in traces:
            batch += tr
            if len(batch) >= 1500:
                groups.append(batch)
                batch = []
        if batch:
            groups.append(batch)
        for gi, g in enumerate(groups):
            ok, nev, rej = V.validate_all(TRACE, cfg, g, name=f"C13-{k}-{gi}", wd=wd, max_violations=3)
            tot_tr += ok
            tot_ev += nev
            for rj in rej:
                script = [{x: y for x, y in e.items() if x != "obs"} for e in rj["trace"]]
                rep.violation(f"object index {'on' if io else 'off'}: after event #{rj['offset']} {json.dumps(rj['event'])} the store's results differ from the set semantics of RdfStore.tla",
                              {"io": io, "no": no, "script": script})
        for _, tr in traces:
            acts = [e for e in tr if e["a"] != "reset"]
            if any(e["a"] == "ins" and e.get("r") is False for e in acts) and any(e["a"] == "rem" and e.get("r") is False for e in acts):
                nontriv += 1
                if len(samples) < 2:
                    samples.append([{x: y for x, y in e.items() if x != "obs"} for e in acts][:20])
    # binding self-test
    ev = V.read_ndjson(os.path.join(wd, "trace-0.ndjson"))[:6]
    bad = json.loads(json.dumps(ev))
    bad[3]["obs"]["stats"][1] += 1
    p = os.path.join(wd, "st.ndjson")
    V.write_ndjson(p, bad)
    res = V.validate_trace(TRACE, trace_cfg(os.path.join(wd, "st.cfg"), True, 3), p, name="C13-st")
    if res["accepted"] or res.get("index") != 4:
        raise V.ToolError("binding self-test failed (corrupted stats not rejected)")
    sp_cov, sp_states = sparql_part(rep, wd, tier, seed)
    rep.add(**sp_cov)
    rep.add(states=states + tot_ev + sp_states, transitions=trans + tot_ev + sp_states, model_checking=mcs, traces_validated_against_impl=tot_tr + sp_cov["sparql_histories"],
            events_validated=tot_ev, evaluations=tot_tr, distinct_nontrivial=nontriv,
            rule="random histories over a per-trace sub-universe; non-trivial: contains a duplicate insert and a removal of an absent triple",
            samples=samples, binding_selftest="corrupted stats().subject_count rejected at its event",
            lookups_compared_after_every_call=["find x all bound/unbound patterns", "triples_with_subject/predicate/object", "subjects/predicates/objects",
                                               "len", "stats", "contains for every triple", "triples", "find_with_pending per transaction"])
    rep.assumptions += ["terms: IRIs (one shared between subject and object position), blank nodes, plain / language-tagged / typed literals with equal lexical forms",
                        "SPARQL: terms are IRIs, plain strings and small integers under a fixed predicate schema (object kind per predicate) so that every comparison is between like kinds; blank nodes, language tags, typed literals other than integers, ORDER BY on mixed kinds, property paths, sub-queries, GRAPH, aggregates other than COUNT(*), CONSTRUCT / ASK / DESCRIBE are not generated",
                        "every generated SPARQL query must agree with SparqlSem.tla; the static classes J (join over a possibly unbound variable) and F (FILTER in OPTIONAL over an outer variable) are counted in the evidence because both were broken before the fixes a72e1ed / 2756498 / a4f1474"]
    return rep.finish()


def replay(path):
    obj = json.load(open(path))
    wd = V.workdir("replay-rdf")
    sp = os.path.join(wd, "s.ndjson")
    V.write_ndjson(sp, [[e for e in obj["replay"]["script"] if e.get("a") != "reset"]])
    tp = os.path.join(wd, "t.ndjson")
    args = ["rdf", "--script", sp, "--no", obj["replay"]["no"], "--out", tp]
    if not obj["replay"]["io"]:
        args.append("--no-object-index")
    V.gv(args)
    res = V.validate_trace(TRACE, trace_cfg(os.path.join(wd, "t.cfg"), obj["replay"]["io"], obj["replay"]["no"]), tp, name="replay-rdf")
    print(json.dumps({k: v for k, v in res.items() if k != "out"})[:2000])
    if res["accepted"]:
        return 0
    print(f"VIOLATION property=C13 replay={path}")
    return 1
