"""C08 / C09 / C10: query answers = the reference semantics spec/query/QuerySem.tla (evaluated by TLC per case).
C08: every core query x random graph x {GQL, Cypher} through sessions.
C09: the same through a hand-built pipeline under all 2^3 optimizer configurations (+ no optimizer) x
     statistics never computed / fresh / stale.
C10: with property indexes on any subset of the filtered keys (created before / during / dropped), factorized
     execution on/off, plan cache cold / warm, and re-execution of the same text after the data changed."""
import json
import os
import re

import vcommon as V

SPECDIR = os.path.join(V.SPEC, "query")
CHECK = os.path.join(SPECDIR, "Check_Query.tla")
MODE = {"C08": "sem", "C09": "opt", "C10": "phys"}


def oracle(cases_path, name):
    cfg = os.path.join(os.path.dirname(cases_path), name + ".cfg")
    with open(cfg, "w") as f:
        f.write("SPECIFICATION Spec\nCHECK_DEADLOCK FALSE\n")
    r = V.tlc(CHECK, cfg, name=name, workers=1, timeout=1800, xmx="8g", env={"TRACE": cases_path})
    if r.timeout or "No error has been found" not in r.out:
        V.log(r.out[-3000:])
        raise V.ToolError(f"oracle run {name} failed")
    mm = [int(m.group(1)) for m in re.finditer(r'<<"MISMATCH", (\d+),', r.out)]
    return mm, r.generated - 1


def v(x):
    return None if x.get("t") == "null" else x.get("v")


def run(prop, tier, seed):
    rep = V.Report(prop, "model_checking", tier, seed)
    wd = V.workdir(prop)
    V.cargo_build()
    mode = MODE[prop]
    sizes = {"C08": ((1200, 12), (12000, 14)), "C09": ((150, 6), (1500, 8)), "C10": ((220, 6), (2500, 8))}[prop][0 if tier == "quick" else 1]
    profiles = [("mixed", 0.5), ("idx", 0.5)] if prop == "C10" else [("mixed", 1.0)] if prop == "C09" else [("mixed", 0.56), ("agg", 0.1), ("distinct", 0.1), ("order", 0.1), ("opt", 0.1), ("varlen", 0.04)]
    total = answered = nontriv = 0
    samples = []
    langs = {}
    for pi, (profile, frac) in enumerate(profiles):
        cp = os.path.join(wd, f"cases-{profile}.ndjson")
        V.gv(["q", "--mode", mode, "--profile", profile, "--seed", seed * 10 + pi, "--graphs", max(5, int(sizes[0] * frac)), "--queries", sizes[1],
              "--maxn", 6, "--maxe", 9, "--out", cp] + (["--gremlin"] if prop == "C08" else []), timeout=3000)
        cases = V.read_ndjson(cp)
        # validate in batches (TLC parses the whole file)
        for b in range(0, len(cases), 6000):
            batch = cases[b:b + 6000]
            bp = os.path.join(wd, f"batch-{profile}-{b}.ndjson")
            V.write_ndjson(bp, batch)
            mm, n = oracle(bp, f"{prop}-{profile}-{b}")
            total += n
            for i in mm[:6]:
                c = batch[i - 1]
                rep.violation(f"{c['lang']} [{json.dumps(c.get('x'))}]: {c['text']} returned {json.dumps([[v(y) for y in r] for r in c['rows']][:12])} "
                              f"which is not what QuerySem.tla defines for this graph", {"case": c})
            if len(mm) > 6:
                rep.notes.append(f"{len(mm)} mismatches in batch {profile}/{b}; first 6 reported")
        for c in cases:
            if not c["err"]:
                answered += 1
                langs[c["lang"]] = langs.get(c["lang"], 0) + 1
                if len(c["rows"]) > 0 and (len(c["q"]["path"]) > 1 or c["q"]["where"]["op"] != "true"):
                    nontriv += 1
                    if len(samples) < 3 and len(c["rows"]) > 1:
                        samples.append({"text": c["text"], "lang": c["lang"], "x": c.get("x"), "rows": [[v(y) for y in r] for r in c["rows"]][:6],
                                        "nodes": len(c["g"]["nodes"]), "edges": len(c["g"]["edges"])})
    # C09 only: constructs outside the oracle's grammar (OPTIONAL MATCH + WHERE, WITH, comma patterns, UNWIND) must at least be answered
    # identically under every optimizer configuration (Metamorphic.tla, kind "agree")
    if prop == "C09":
        import C11
        mp = os.path.join(wd, "agree.ndjson")
        V.gv(["qmeta", "--seed", seed + 9, "--graphs", 40 if tier == "quick" else 600, "--random", 0, "--agree", "--out", mp], timeout=3000)
        ac = [c for c in V.read_ndjson(mp) if c["kind"] == "agree"]
        for b in range(0, len(ac), 3000):
            bp = os.path.join(wd, f"agree-{b}.ndjson")
            V.write_ndjson(bp, ac[b:b + 3000])
            mm, n = C11.check(bp, f"C09-agree-{b}")
            total += n
            answered += n
            for i in mm[:4]:
                c = ac[b + i - 1]
                rep.violation(f"{c['lang']}: optimizer configurations disagree on: {c['text']} — row counts per configuration "
                              f"[none, all-off, filter-pushdown, join-reorder, projection-pushdown, all-on] = {[len(x) for x in c['variants']]}", {"agree_case": c})
        rep.add(agree_cases=len(ac))
    # binding self-test: a corrupted row must be reported as a mismatch
    cases = V.read_ndjson(os.path.join(wd, f"cases-{profiles[0][0]}.ndjson"))
    pick = next((i for i, c in enumerate(cases) if not c["err"] and c["rows"] and not c["q"]["order"] and c["q"]["limit"] < 0 and c["q"]["skip"] == 0), None)
    if pick is None:
        raise V.ToolError("self-test: no suitable case")
    bad = json.loads(json.dumps(cases[pick]))
    bad["rows"] = bad["rows"] + [bad["rows"][0]]
    sp = os.path.join(wd, "selftest.ndjson")
    V.write_ndjson(sp, [cases[pick], bad])
    mm, _ = oracle(sp, prop + "-st")
    if mm != [2]:
        raise V.ToolError(f"binding self-test failed: duplicated row not reported (got {mm})")
    rep.add(states=total, transitions=total, traces_validated_against_impl=answered, evaluations=total, distinct_nontrivial=nontriv,
            rule="cases = (random graph, abstract query, language[, physical/optimizer configuration]); non-trivial: the engine answered with >= 1 row "
                 "and the query has a WHERE or at least one hop", samples=samples, answered_by_language=langs, no_answer=total - answered,
            binding_selftest="a duplicated result row is reported as MISMATCH", exhaustive=False)
    rep.assumptions += [
        "core grammar: 0-2 hop path patterns with labels / edge types / directions, Kleene WHERE over int and string properties (incl. edge properties, "
        "IS [NOT] NULL in Cypher), projections of ids and properties, DISTINCT, count/sum/min/max with implicit grouping, ORDER BY a unique key with SKIP/LIMIT",
        "an engine error for a construct a language does not support counts as 'no answer', never as a violation",
        "Gremlin and GraphQL renderings, variable-length paths, avg/collect and OPTIONAL MATCH are not generated yet"]
    return rep.finish()


def replay(path):
    obj = json.load(open(path))
    if "agree_case" in obj["replay"]:
        print(json.dumps(obj["replay"]["agree_case"])[:2500])
        print(f"VIOLATION property={obj['property']} replay={path}")
        return 1
    c = obj["replay"]["case"]
    wd = V.workdir("replay-q")
    sp = os.path.join(wd, "case.ndjson")
    V.write_ndjson(sp, [c])
    mm, _ = oracle(sp, "replay-q")
    print("recorded case:", "MISMATCH" if mm else "agrees")
    print(f"VIOLATION property={obj['property']} replay={path}" if mm else "ok")
    return 1 if mm else 0
