"""C03 / C04: TransactionManager — spec/txn/TxManager.tla, binding A (TLC-generated behaviours replayed
through the real manager) and binding B (recorded traces validated by TLC)."""
import json
import os

import vcommon as V

SPECDIR = os.path.join(V.SPEC, "txn")
MOD = os.path.join(SPECDIR, "TxManager.tla")
MC = os.path.join(SPECDIR, "MC_TxManager.tla")
TRACE = os.path.join(SPECDIR, "Trace_TxManager.tla")
GEN = os.path.join(SPECDIR, "Gen_TxManager.tla")

INVS = {
    "C03": ["FCW", "NoFalseRefusal", "GcTransparent", "EpochsUnique"],
    "C04": ["ExactSer", "NoMissedRW", "NoSpuriousRefusal", "DSGFollowsCommitOrder", "FCW"],
}
ALL_INVS = ["FCW", "NoFalseRefusal", "ExactSer", "NoMissedRW", "NoSpuriousRefusal", "GcTransparent",
            "EpochsUnique", "DSGFollowsCommitOrder"]
SWITCHES = ["RefuseAnyCommitted", "BeginEpochOutsideLock"]


def mc_cfg(path, tx, ent, maxops, asis, iso, invs, props=("EpochMonotone",)):
    return V.write_cfg(path, constants={
        "Tx": V.tla_set(tx), "Ent": V.tla_set(ent), "MaxOps": maxops, "AsIs": V.tla_strset(asis),
        "IsoLevels": V.tla_strset(iso), "StopAfterRefusal": "TRUE"},
        invariants=invs, properties=props, symmetry="Sym", view="View")


def trace_cfg(path, asis, invs):
    return V.write_cfg(path, spec="TSpec", constants={
        "Tx": V.tla_set([str(i) for i in range(1, 17)]), "Ent": V.tla_strset(["n1", "n2", "n3", "e1"]),
        "MaxOps": 99, "AsIs": V.tla_strset(sorted(asis)), "IsoLevels": V.tla_strset(["RC", "SI", "SER"]),
        "StopAfterRefusal": "FALSE"}, invariants=invs, postcondition="Accepted")


def known_switches():
    return [k["switch"] for k in V.known_for("C03") + V.known_for("C04")
            if k.get("spec") == "TxManager" and k.get("switch")]


def nontrivial(trace, prop):
    """Non-triviality rule: C03 — the trace contains a commit outcome 'ww' or two committed writers of
    one entity; C04 — it contains a Serializable transaction that recorded a read and a commit attempt
    after another transaction's successful commit of a write."""
    acts = [e for e in trace if e.get("a") != "reset"]
    if prop == "C03":
        if any(e["a"] == "commit" and e.get("r") == "ww" for e in acts):
            return True
        w = {}
        for e in acts:
            if e["a"] == "recw" and e.get("r") == "ok":
                w.setdefault(e["e"], set()).add(e["t"])
        committed = {e["t"] for e in acts if e["a"] == "commit" and e.get("r") == "ok"}
        return any(len(ts & committed) >= 2 for ts in w.values())
    if any(e["a"] == "commit" and e.get("r") == "rw" for e in acts):
        return True
    reads = [e for e in acts if e["a"] == "recr" and e.get("r") == "ok"]
    commits = [e for e in acts if e["a"] == "commit" and e.get("r") == "ok"]
    return bool(reads) and len(commits) >= 2


def run(prop, tier, seed):
    rep = V.Report(prop, "model_checking", tier, seed)
    wd = V.workdir(prop)
    V.cargo_build()
    invs = ALL_INVS
    # ---------------------------------------------------------------- 1. model checking
    tx3, tx4 = ["t1", "t2", "t3"], ["t1", "t2", "t3", "t4"]
    configs = [("mc-3tx-2ent-2ops", tx3, ["x", "y"], 2, ["SI", "SER"], 300)]
    if tier == "thorough":
        configs += [("mc-4tx-2ent-1op", tx4, ["x", "y"], 1, ["SI", "SER"], 900),
                    ("mc-3tx-2ent-3ops", tx3, ["x", "y"], 3, ["SI", "SER"], 1800),
                    ("mc-4tx-2ent-2ops-ser", tx4, ["x", "y"], 2, ["SER"], 2400)]
    states = trans = 0
    mcs = []
    for (name, tx, ent, ops, iso, to) in configs:
        cfg = mc_cfg(os.path.join(wd, name + ".cfg"), tx, ent, ops, [], iso, invs)
        r = V.tlc(MC, cfg, name=prop + name, workers=8, timeout=to, coverage=(name == configs[0][0]))
        mcs.append({"config": name, **r.summary()})
        V.log(f"[{prop}] TLC {name}: {r.summary()}")
        if r.timeout:
            rep.notes.append(f"{name}: TLC timed out after {to}s (explored {r.distinct} distinct states, no violation)")
            states += r.distinct
            trans += r.generated
            continue
        if not r.ok:
            # the repaired design itself violates the property: a specification-level finding
            path = rep.violation(f"TLC: {r.violation} violated in {name} with AsIs={{}}", {"tlc_trace": V.tlc_trace_text(r)}, tag="mc")
            V.log(r.out[-3000:])
            continue
        states += r.distinct
        trans += r.generated
        if r.coverage:
            zero = [a for a, (taken, _) in r.coverage.items() if taken == 0 and a not in ("LoadEpoch", "Insert")]
            rep.add(action_coverage={a: c[0] for a, c in r.coverage.items()})
            if zero:
                raise V.ToolError(f"vacuity: actions never taken in {name}: {zero}")
    # switch witnesses: each as-is switch must violate its invariant (the invariants are not vacuous)
    for sw, inv in (("RefuseAnyCommitted", "NoFalseRefusal"), ("BeginEpochOutsideLock", "FCW")):
        cfg = mc_cfg(os.path.join(wd, f"sw-{sw}.cfg"), tx3, ["x", "y"], 2, [sw], ["SI", "SER"], [inv], props=())
        r = V.tlc(MC, cfg, name=prop + "sw" + sw, workers=4, timeout=300)
        if r.violation != inv:
            raise V.ToolError(f"vacuity: switch {sw} does not violate {inv} in the model ({r.summary()})")
        mcs.append({"config": f"witness AsIs={{{sw}}}", "violates": inv, "distinct": r.distinct})
    for inv in ("NeverWW", "NeverRW"):
        cfg = mc_cfg(os.path.join(wd, f"reach-{inv}.cfg"), tx3, ["x", "y"], 2, [], ["SI", "SER"], [inv], props=())
        r = V.tlc(MC, cfg, name=prop + inv, workers=4, timeout=300)
        if r.violation != inv:
            raise V.ToolError(f"vacuity: refusal outcome unreachable ({inv} holds)")
    rep.add(states=states, transitions=trans, model_checking=mcs)

    K = known_switches()

    def mkcfg(S):
        return trace_cfg(os.path.join(wd, "trace-" + ("_".join(sorted(S)) or "ideal") + ".cfg"), S, invs)

    samples = []
    total_traces = total_events = nontriv = 0
    seen = set()

    def account(events):
        nonlocal nontriv
        for _, tr in V.split_traces(events):
            key = json.dumps([{k: v for k, v in e.items() if k != "obs"} for e in tr], sort_keys=True)
            if key in seen:
                continue
            seen.add(key)
            if nontrivial(tr, prop):
                nontriv += 1
                if len(samples) < 3:
                    samples.append([{k: v for k, v in e.items() if k != "obs"} for e in tr if e.get("a") != "reset"])

    def handle(res, origin):
        nonlocal total_traces, total_events
        total_traces += res["traces_ok"]
        total_events += res["events_ok"]
        for r, S in res["explained"]:
            for sw in S:
                rep.known(sw, f"trace explained only with as-is switch {sw}")
        for r in res["violations"]:
            rep.violation(f"{origin}: event #{r['offset']} of the trace is not a behaviour of TxManager.tla "
                          f"under any permitted switch assignment ({r['kind']}): {json.dumps(r['event'])}",
                          {"script": [{k: v for k, v in e.items() if k != 'obs'} for e in r["trace"] if e.get("a") != "reset"],
                           "trace": r["trace"], "detail": r["detail"]})

    # ---------------------------------------------------------------- 2. binding A: TLC behaviours -> real manager
    nsim, depth = (300, 24) if tier == "quick" else (5000, 30)
    gcfg = V.write_cfg(os.path.join(wd, "gen.cfg"), spec="GSpec", constants={
        "Tx": V.tla_set([str(i) for i in range(1, 7)]), "Ent": V.tla_strset(["n1", "n2"] if prop == "C03" else ["n1", "n2", "n3"]),
        "MaxOps": 4, "AsIs": "{}", "IsoLevels": V.tla_strset(["SI", "SER"] if prop == "C03" else ["SER"]),
        "StopAfterRefusal": "FALSE", "Depth": depth}, invariants=["Emit"])
    r = V.tlc(GEN, gcfg, name=prop + "gen", workers=1, simulate=nsim, depth=depth + 2, seed=seed, timeout=300)
    scripts = []
    for line in r.printed:
        if line.startswith('<<"REPLAY"'):
            s = line[line.index(",") + 1:].strip()
            s = s[:s.rindex(">>")].strip()
            scripts.append(json.loads(json.loads(s)))
    if len(scripts) < nsim // 2:
        V.log(r.out[-2000:])
        raise V.ToolError(f"behaviour generation produced only {len(scripts)} scripts")
    sp = os.path.join(wd, "gen-scripts.ndjson")
    V.write_ndjson(sp, scripts)
    tp = os.path.join(wd, "gen-trace.ndjson")
    V.gv(["txm", "--script", sp, "--out", tp])
    ev = V.read_ndjson(tp)
    account(ev)
    handle(V.conformance(TRACE, mkcfg, ev, K, name=prop + "-A", wd=wd), "binding A (TLC behaviour replayed on the real TransactionManager)")
    rep.add(behaviours_replayed=len(scripts))

    # ---------------------------------------------------------------- 3. binding B: random traces -> TLC
    ntr, ln = (400, 30) if tier == "quick" else (8000, 40)
    tp = os.path.join(wd, "rnd-trace.ndjson")
    args = ["txm", "--seed", seed, "--traces", ntr, "--len", ln, "--maxtx", 12, "--out", tp]
    if prop == "C04":
        args.append("--ser-only")
    V.gv(args)
    ev = V.read_ndjson(tp)
    account(ev)
    chunk = 60000
    # validate in chunks of ~60k events to bound TLC memory
    traces = V.split_traces(ev)
    batch, n = [], 0
    for _, tr in traces:
        batch += tr
        if len(batch) >= chunk:
            handle(V.conformance(TRACE, mkcfg, batch, K, name=f"{prop}-B{n}", wd=wd), "binding B (recorded trace)")
            batch, n = [], n + 1
    if batch:
        handle(V.conformance(TRACE, mkcfg, batch, K, name=f"{prop}-B{n}", wd=wd), "binding B (recorded trace)")

    # ---------------------------------------------------------------- known finding at session level (C03 only): the manager
    # implements first-committer-wins, but no session / operator path registers its writes with it; the witness (two
    # overlapping sessions updating one node, both commit) is re-executed and must show the 'fcw' deviation in Trace_Mvcc
    if prop == "C03":
        import mvcc_common as M
        cfg_w = M.trace_cfg(os.path.join(wd, "trace-w.cfg"), devall=True)
        for k in [k for k in V.known_for("C03") if k.get("spec") == "Mvcc" and k["status"] == "known"]:
            ev = M.run_scripts([k["witness"]], wd, "w-" + k["id"])
            p = os.path.join(wd, "w.ndjson")
            V.write_ndjson(p, ev)
            r2 = V.tlc(M.TRACE, cfg_w, name="C03-w", workers=1, dfs=True, env={"TRACE": p}, timeout=120)
            if not r2.ok:
                rep.violation(f"witness of known finding {k['id']} is no longer explained by the model", {"script": k["witness"]}, tag="w")
                continue
            devs = M.parse_devs(r2.out)
            if any(l == k["expect"]["event"] + 1 and set(k["expect"]["kinds"]) & kinds for l, kinds in devs):
                rep.known(k["id"], k["what_fails"] + " [" + k["site"] + "]")
            else:
                rep.notes.append(f"known finding {k['id']} does not reproduce on this tree")

    # ---------------------------------------------------------------- 4. really concurrent commits (C03 only)
    if prop == "C03":
        rounds = 400 if tier == "quick" else 6000
        sp = os.path.join(wd, "stress.ndjson")
        V.gv(["txstress", "--threads", 4, "--rounds", rounds, "--out", sp], timeout=1800)
        fcfg = V.write_cfg(os.path.join(wd, "fcw.cfg"), postcondition="Accepted")
        res = V.validate_trace(os.path.join(SPECDIR, "FcwHistory.tla"), fcfg, sp, name="C03-stress")
        if not res["accepted"]:
            rnd = V.read_ndjson(sp)[res["index"] - 1]
            rep.violation(f"4 threads committing concurrently: round {res['index']} returned {json.dumps(rnd['txs'])} — two overlapping "
                          "committed writers of one entity or duplicate commit epochs (FcwHistory.tla)", {"stress_round": rnd, "script": []}, tag="stress")
        else:
            total_events += rounds
        # free-running begin / commit / gc loops (begin races with another thread's commit + clean-up)
        free_tx = 0
        for k in range(2 if tier == "quick" else 8):
            fp = os.path.join(wd, f"free-{k}.ndjson")
            _, out, _ = V.gv(["txstress", "--free", 30000 if tier == "quick" else 150000, "--threads", 3 + k % 2, "--out", fp], timeout=1800)
            res = V.validate_trace(os.path.join(SPECDIR, "FcwHistory.tla"), fcfg, fp, name=f"C03-free-{k}")
            if not res["accepted"]:
                w = V.read_ndjson(fp)[res["index"] - 1]
                bad = [(a, b) for a, b in zip(w["txs"], w["txs"][1:]) if b["s"] < a["c"]]
                rep.violation(f"free-running begin/commit/gc threads: two overlapping transactions that wrote one entity both committed, e.g. {json.dumps(bad[:1])} (FcwHistory.tla)",
                              {"stress_round": w, "script": []}, tag="free")
                break
            free_tx += json.loads(out.strip().splitlines()[-1])["committed"]
        rep.add(concurrent_commit_rounds=rounds, free_running_committed_transactions=free_tx)

    rep.add(traces_validated_against_impl=total_traces, events_validated=total_events,
            evaluations=total_traces, distinct_nontrivial=nontriv,
            rule=("distinct action scripts (observations stripped); non-trivial: " +
                  ("a 'ww' outcome occurs or two committed transactions recorded a write of one entity" if prop == "C03"
                   else "an 'rw' outcome occurs, or a recorded read plus >= 2 successful commits")),
            samples=samples, invariants_checked_on_every_trace_state=invs)
    rep.assumptions += [
        "TransactionManager driven single-threaded through its public API (thread interleavings of begin are C20's yield-point replay)",
        "TLC explores the bounded model exhaustively; the implementation is explored through TLC-generated and seeded random scripts",
        "entity ids are abstract names mapped to NodeId/EdgeId by the harness"]
    return rep.finish()


def replay(path):
    wd = V.workdir("replay-txm")
    obj = json.load(open(path))
    script = obj["replay"]["script"]
    sp = os.path.join(wd, "s.ndjson")
    V.write_ndjson(sp, [script])
    tp = os.path.join(wd, "t.ndjson")
    V.gv(["txm", "--script", sp, "--out", tp])
    cfg = trace_cfg(os.path.join(wd, "t.cfg"), known_switches(), ALL_INVS)
    res = V.validate_trace(TRACE, cfg, tp, name="replay-txm")
    print(json.dumps({k: v for k, v in res.items() if k != "out"}, indent=1))
    if res["accepted"]:
        print("replay: trace accepted (violation does not reproduce)")
        return 0
    print(f"VIOLATION property={obj['property']} replay={path}")
    return 1
