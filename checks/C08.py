import query_common


def run(tier, seed):
    return query_common.run("C08", tier, seed)


def replay(path):
    return query_common.replay(path)
