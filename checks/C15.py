"""C15: every compression codec is lossless — spec/misc/Codec.tla (identities over recorded encode/decode/random-access/
byte round trips), spec/store/PropColumn.tla (property columns with compressed part refine a map), spec/store/Adjacency.tla
(chunk compression refines the live-entry sequence); harness `gv codec`, `gv pcol`, `gv adj`."""
import json
import os
import re

import vcommon as V

CODEC = os.path.join(V.SPEC, "misc", "Codec.tla")
PCOL = os.path.join(V.SPEC, "store", "PropColumn.tla")
ADJ = os.path.join(V.SPEC, "store", "Trace_Adjacency.tla")
ADJMC = os.path.join(V.SPEC, "store", "Adjacency.tla")


def run(tier, seed):
    prop = "C15"
    rep = V.Report(prop, "exploration", tier, seed)
    wd = V.workdir(prop)
    V.cargo_build()
    known = {k["id"]: k for k in V.known_for("C15")}
    # ---- 1. pure codecs
    cp = os.path.join(wd, "codec.ndjson")
    rc, out, _ = V.gv(["codec", "--seed", seed, "--maxlen", 3 if tier == "quick" else 4, "--random", 150 if tier == "quick" else 3000, "--out", cp], timeout=3000)
    info = json.loads(out.strip().splitlines()[-1])
    cases = V.read_ndjson(cp)
    cfg = os.path.join(wd, "codec.cfg")
    open(cfg, "w").write("SPECIFICATION Spec\nCHECK_DEADLOCK FALSE\n")
    ncases = 0
    bycodec = {}
    for b in range(0, len(cases), 20000):
        bp = os.path.join(wd, f"codec-{b}.ndjson")
        V.write_ndjson(bp, cases[b:b + 20000])
        r = V.tlc(CODEC, cfg, name=f"C15-codec-{b}", workers=1, timeout=1800, xmx="8g", env={"TRACE": bp})
        if r.timeout or "No error has been found" not in r.out:
            V.log(r.out[-2000:])
            raise V.ToolError("Codec.tla run failed")
        ncases += r.generated - 1
        for m in re.finditer(r'<<"MISMATCH", (\d+), "(\w+)">>', r.out):
            c = cases[b + int(m.group(1)) - 1]
            xs = c["xs"]
            # known findings, identified by their exact inputs
            if c["codec"] == "delta_bitpack" and xs == [1] and "DeltaBitPackedSingleZero" in known:
                rep.known("DeltaBitPackedSingleZero", known["DeltaBitPackedSingleZero"]["what_fails"])
                continue
            if c["codec"] == "elias_fano" and c["panic"] and isinstance(xs, list) and xs and xs[-1] in (7, 8) and "EliasFanoHugeUniverse" in known:
                rep.known("EliasFanoHugeUniverse", known["EliasFanoHugeUniverse"]["what_fails"])
                continue
            if c["codec"] == "elias_fano" and c["panic"] and isinstance(xs, dict) and "EliasFanoHugeUniverse" in known and "overflow" in c.get("info", ""):
                rep.known("EliasFanoHugeUniverse", known["EliasFanoHugeUniverse"]["what_fails"])
                continue
            bycodec[c["codec"]] = bycodec.get(c["codec"], 0) + 1
            if bycodec[c["codec"]] <= 2:
                rep.violation(f"codec {c['codec']}: input (symbol indices) {json.dumps(xs)[:200]} -> decoded {json.dumps(c['dec'])[:200]}"
                              + (f" PANIC {c.get('info')}" if c["panic"] else ""), {"codec_case": c})
    # ---- 2. property columns
    tp = os.path.join(wd, "pcol.ndjson")
    V.gv(["pcol", "--seed", seed, "--traces", 40 if tier == "quick" else 600, "--len", 70, "--out", tp])
    ev = V.read_ndjson(tp)
    pcfg = V.write_cfg(os.path.join(wd, "pcol.cfg"), constants={"NIds": 12, "Keys": '{"k1", "k2"}'}, postcondition="Accepted")
    ok, nev, rej = V.validate_all(PCOL, pcfg, ev, name="C15-pcol", wd=wd, max_violations=3)
    for rj in rej:
        rep.violation(f"PropertyStorage: after event #{rj['offset']} {json.dumps({k: v for k, v in (rj['event'] or {}).items()})} a read differs from the map (and is not an entry hidden by compression)",
                      {"pcol_script": [{k: v for k, v in e.items() if k != "obs"} for e in rj["trace"]]})
    # does the known deviation (compressed part unreadable) reproduce?
    dcfg = V.write_cfg(os.path.join(wd, "pcol-dev.cfg"), constants={"NIds": 12, "Keys": '{"k1", "k2"}'}, invariants=["NoDeviation"])
    r = V.tlc(PCOL, dcfg, name="C15-pcoldev", workers=1, dfs=True, timeout=600, env={"TRACE": tp})
    if r.violation == "NoDeviation":
        if "CompressedColumnUnreadable" in known:
            rep.known("CompressedColumnUnreadable", known["CompressedColumnUnreadable"]["what_fails"])
        else:
            rep.violation("property reads change after force_compress_all (compressed part unreadable)", {"pcol": "NoDeviation violated"})
    # ---- 3. compressed adjacency chunks (cold storage): real histories + mechanism model
    ap = os.path.join(wd, "adj.ndjson")
    V.gv(["adj", "--seed", seed + 5, "--traces", 6 if tier == "quick" else 60, "--len", 80, "--out", ap], timeout=1800)
    aev = V.read_ndjson(ap)
    acfg = V.write_cfg(os.path.join(wd, "adj.cfg"), constants={"NSrc": 3}, postcondition="Accepted")
    aok, anev, arej = V.validate_all(ADJ, acfg, aev, name="C15-adj", wd=wd, max_violations=2, timeout=1200)
    for rj in arej:
        rep.violation(f"ChunkedAdjacency (capacity {rj['trace'][0].get('cap')}): reads differ from the live entries after event #{rj['offset']}", {"adj_script": [{k: v for k, v in e.items() if k != 'obs'} for e in rj["trace"]]})
    mcfg = V.write_cfg(os.path.join(wd, "adjmc.cfg"), constants={"Src": "{1, 2}", "Cap": 2, "DeltaThr": 2, "ColdThr": 1, "MaxAdds": 4}, invariants=["Refines"])
    rm = V.tlc(ADJMC, mcfg, name="C15-adjmc", workers=8, timeout=1200)
    if not rm.ok and not rm.timeout:
        rep.violation(f"TLC: {rm.violation} in Adjacency.tla", {"tlc": V.tlc_trace_text(rm)[-3000:]}, tag="mc")
    codecs = sorted({c["codec"] for c in cases})
    samples = [{k: c[k] for k in ("codec", "xs", "dec")} for c in cases if c["n"] == 3][:3] + [{k: c[k] for k in ("codec", "xs")} for c in cases if c["n"] == 1000][:2]
    rep.add(evaluations=ncases + nev + anev, distinct_nontrivial=len({(c["codec"], json.dumps(c["xs"])) for c in cases if c["n"] >= 2}) + ok + aok,
            rule="codec cases: every symbol sequence up to the length bound per codec (exhaustive), structured long sequences, seeded random ones; non-trivial = length >= 2; "
                 "plus validated property-column and adjacency histories", samples=samples, exhaustive=False,
            codecs=codecs, inputs_per_codec=info["inputs"], codec_cases_checked_by_tlc=ncases, property_column_events=nev, adjacency_events=anev,
            adjacency_model_states=rm.distinct)
    rep.assumptions += ["boundary values are symbols; the bit-level arithmetic inside the codecs is exercised, not modelled",
                        "documented preconditions are respected (sorted input for delta / Elias-Fano, strictly increasing for Elias-Fano)",
                        "CompressionMode is not exported by grafeo-core, so property columns are compressed through force_compress_all only"]
    return rep.finish()


def replay(path):
    obj = json.load(open(path))
    print(json.dumps(obj["replay"])[:3000])
    print(f"VIOLATION property=C15 replay={path}")
    return 1
