"""C19: graph algorithms compute what their definitions say — spec/misc/GraphAlgo.tla holds the definitions
(distances as the fixpoint of relaxation, reachability, spanning forests and minimum cuts by brute force over
subsets, peeling for cores, ...) and TLC evaluates them on every recorded case; harness `gv galgo` runs the real
algorithms on all small directed multigraphs (exhaustive enumeration) plus seeded random ones."""
import concurrent.futures as cf
import json
import os
import re

import vcommon as V

MOD = os.path.join(V.SPEC, "misc", "GraphAlgo.tla")


def _check_chunk(args):
    k, path, cfg = args
    r = V.tlc(MOD, cfg, name=f"C19-{k}", workers=1, timeout=3000, xmx="3g", env={"TRACE": path})
    return k, r


def run(tier, seed):
    prop = "C19"
    rep = V.Report(prop, "exploration", tier, seed)
    wd = V.workdir(prop)
    V.cargo_build()
    cfg = os.path.join(wd, "laws.cfg")
    with open(cfg, "w") as f:
        f.write("SPECIFICATION Spec\nCHECK_DEADLOCK FALSE\n")
    cp = os.path.join(wd, "cases.ndjson")
    if tier == "quick":
        args = ["--nmax", 3, "--mmax", 2, "--random", 150, "--rn", 5, "--rm", 7, "--blocks", 40]
        nchunks = 6
    else:
        args = ["--nmax", 3, "--mmax", 3, "--random", 1500, "--rn", 6, "--rm", 9, "--blocks", 600]
        nchunks = 12
    V.gv(["galgo", "--seed", seed, "--out", cp] + args, timeout=1800)
    cases = V.read_ndjson(cp)
    chunks = [cases[i::nchunks] for i in range(nchunks)]
    jobs = []
    for k, ch in enumerate(chunks):
        p = os.path.join(wd, f"chunk-{k}.ndjson")
        V.write_ndjson(p, ch)
        jobs.append((k, p, cfg))
    bad = {}
    with cf.ThreadPoolExecutor(max_workers=nchunks) as ex:
        for k, r in ex.map(_check_chunk, jobs):
            if r.timeout or "No error has been found" not in r.out:
                V.log(r.out[-2000:])
                raise V.ToolError("GraphAlgo run failed")
            for m in re.finditer(r'<<"MISMATCH", (\d+), (\d+), \{(.*?)\}>>', r.out):
                c = chunks[k][int(m.group(1)) - 1]
                for part in m.group(3).replace('"', "").split(", "):
                    bad.setdefault(part, []).append(c)
    for part, cs in sorted(bad.items()):
        cs.sort(key=lambda c: (c["n"], len(c["edges"])))
        w = cs[0]
        rep.violation(f"algorithm '{part}' contradicts its definition on {len(cs)} graphs, smallest: n={w['n']} edges(src,dst,w,nw)={w['edges']}",
                      {"part": part, "case": w, "count": len(cs), "seed": seed})
    sizes = {}
    for c in cases:
        sizes[(c["n"], len(c["edges"]))] = sizes.get((c["n"], len(c["edges"])), 0) + 1
    exh = [c for c in cases if c["cid"] <= len(cases) - int(args[5])]
    distinct = len({json.dumps([c["n"], c["edges"]]) for c in cases if c["edges"]})
    samples = [{"n": c["n"], "edges": c["edges"], "kruskal": c.get("kruskal"), "topo": c.get("topo")} for c in cases[::max(1, len(cases) // 6)]][:6]
    rep.add(evaluations=len(cases) * 26, distinct_nontrivial=distinct, samples=samples,
            cases=len(cases), exhaustive_cases=len(exh), random_cases=int(args[5]),
            by_nodes_edges={f"{n}n{m}e": v for (n, m), v in sorted(sizes.items())},
            rule="evaluations = graphs x 26 algorithm parts (each part quantifies over every source / target); distinct = distinct non-empty graphs. exhaustive part: every multiset of <= mmax edges over all ordered node pairs (self-loops included) x weight class {1, 2, missing} "
                 f"for n <= {args[1]} nodes, mmax = {args[3]}; random part: n <= {args[7]}, m <= {args[9]}, weights {{missing, 0, 1, 2, 3}}; "
                 "int and float weight encodings alternate; a signed weight in -1..3 per edge for Bellman-Ford",
            exhaustive=False,
            parts=["dijkstra", "bellman_ford", "floyd_warshall", "dijkstra_path", "floyd_warshall_path", "bellman_ford_path", "astar", "astar (admissible, inconsistent heuristic)", "bellman_ford_negative", "connected_components",
                   "strongly_connected_components", "counts / is_dag", "topological_sort", "kruskal", "prim (default and every start)", "max_flow = min cut + capacities + conservation",
                   "bfs", "bfs_layers", "dfs", "triangles", "articulation_points", "bridges", "kcore", "pagerank distribution"])
    rep.assumptions += ["the algorithms' results are recorded by the harness and judged by TLC against GraphAlgo.tla's definitions (certificates: ties and alternative optima are accepted)",
                        "weights are small integers (exact in f64); PageRank is checked for being a distribution (sum 1 within 1e-6, non-negative), not for its values",
                        "community detection (label propagation, Louvain), betweenness/closeness centrality and min-cost flow are not covered (no exact definition to compare with / not in the statement)",
                        "the execution operators shortest_path.rs / leapfrog_join.rs in grafeo-core are covered indirectly by C08/C10 query cases only"]
    return rep.finish()


def replay(path):
    obj = json.load(open(path))
    print(json.dumps(obj["replay"])[:3000])
    print(f"re-run: bin/check C19;  VIOLATION property=C19 replay={path}")
    return 1
