import mvcc_common


def run(tier, seed):
    return mvcc_common.run("C02", tier, seed)


def replay(path):
    return mvcc_common.replay(path)
