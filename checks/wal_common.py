"""C05 / C06: durability — spec/wal/Wal.tla; harness `gv wal` (persistent GrafeoDB + WAL hook)."""
import json
import os

import vcommon as V

SPECDIR = os.path.join(V.SPEC, "wal")
MOD = os.path.join(SPECDIR, "Wal.tla")
TRACE = os.path.join(SPECDIR, "Trace_Wal.tla")
MODES = ["Sync", "Batch", "Flush"]
FIXED = ["NoCommitMarkerBeforeClose", "RotateWithoutFsync", "ContinueAfterBadRecord", "AppendBehindGarbage", "KeepUncommittedTail"]
KNOWN_SW = ["UnloggedOps", "SkipPreCheckpointFiles"]
HYPOTHETICAL = ["RepairNewestOnly"]   # never in the tree: vacuity guard of the crash-inside-rotate window


def mc_cfg(path, mode, asis, *, ops=3, maxlog=4, crashes=2, ckpt=1, closes=1, flips=1, invs=("Consistent", "RecoveryOk", "DurableBounded")):
    return V.write_cfg(path, constants={"MaxOps": ops, "MaxLog": maxlog, "Mode": f'"{mode}"', "BatchN": 3,
                                        "AsIs": V.tla_strset(asis), "MaxCrashes": crashes, "MaxCkpt": ckpt,
                                        "MaxCloses": closes, "MaxFlips": flips}, invariants=invs)


def trace_cfg(path, mode):
    return V.write_cfg(path, spec="TSpec", constants={"MaxOps": 1000000, "MaxLog": 1000000, "Mode": f'"{mode}"', "BatchN": 3,
                                                      "AsIs": "{}", "MaxCrashes": 1000000, "MaxCkpt": 1000000,
                                                      "MaxCloses": 1000000, "MaxFlips": 0}, postcondition="Accepted")


def split_modes(events):
    out, cur = {}, None
    for e in events:
        if e["a"] == "reset":
            cur = e["mode"]
        out.setdefault(cur, []).append(e)
    return out


def strip(tr):
    return [{k: v for k, v in e.items() if k in ("a", "kind", "i", "nrec", "img", "flip", "match", "ok", "chg")} for e in tr]


WITNESS = {
    "UnloggedRemoveNodeProperty": [{"a": "op", "kind": "cnodep", "x": 1, "y": 1}, {"a": "uop", "kind": "remp", "x": 0, "y": 0}, {"a": "close"}, {"a": "open"}],
    "UnloggedRemoveEdgeProperty": [{"a": "op", "kind": "cnode", "x": 0}, {"a": "op", "kind": "cedgep", "x": 0, "y": 0}, {"a": "uop", "kind": "remep", "x": 0, "y": 2}, {"a": "close"}, {"a": "open"}],
    "UnloggedQueryInsert": [{"a": "op", "kind": "cnode", "x": 0}, {"a": "uop", "kind": "gqlinsert", "x": 7}, {"a": "close"}, {"a": "open"}],
    "UnloggedQuerySet": [{"a": "op", "kind": "cnodep", "x": 1, "y": 1}, {"a": "uop", "kind": "gqlset", "x": 0, "y": 42}, {"a": "close"}, {"a": "open"}],
}


def run(prop, tier, seed):
    rep = V.Report(prop, "model_checking", tier, seed)
    wd = V.workdir(prop)
    V.cargo_build()
    states = trans = 0
    mcs = []
    # ------------------------------------------------------------ 1. model checking of the (repaired) design
    big = tier == "thorough"
    for mode in MODES:
        cfg = mc_cfg(os.path.join(wd, f"mc-{mode}.cfg"), mode, [], ops=4 if big else 3, maxlog=5 if big else 4,
                     crashes=2, ckpt=1, closes=2 if big else 1, flips=1)
        r = V.tlc(MOD, cfg, name=f"{prop}mc{mode}", workers=8, timeout=3000 if big else 600, coverage=(mode == "Flush" and not big))
        mcs.append({"config": f"{mode}: ops<={4 if big else 3}, rotation at {5 if big else 4} records, 2 crashes, 1 checkpoint, {2 if big else 1} close, 1 bit flip", **r.summary()})
        V.log(f"[{prop}] TLC Wal {mode}: {r.summary()}")
        if r.timeout:
            rep.notes.append(f"TLC {mode} timed out; {r.distinct} distinct states explored without violation")
        elif not r.ok:
            rep.violation(f"TLC: {r.violation} violated by the repaired WAL design in mode {mode}", {"tlc_trace": V.tlc_trace_text(r)[-6000:]}, tag="mc")
        states += r.distinct
        trans += r.generated
        if r.coverage:
            zero = [a for a, c in r.coverage.items() if c[0] == 0 and a not in ("IssueUnlogged",)]
            if zero:
                raise V.ToolError(f"vacuity: Wal actions never taken: {zero}")
    # rotation after every second record: many files, the crash-inside-rotate window at every rotation
    cfg = mc_cfg(os.path.join(wd, "mc-rot.cfg"), "Flush", [], ops=4 if big else 3, maxlog=2, crashes=2, ckpt=0, closes=0, flips=0)
    r = V.tlc(MOD, cfg, name=f"{prop}mcrot", workers=8, timeout=1200)
    mcs.append({"config": f"Flush, rotation at 2 records, ops<={4 if big else 3}, 2 crashes (incl. inside rotate())", **r.summary()})
    if not r.ok and not r.timeout:
        rep.violation(f"TLC: {r.violation} violated by the repaired WAL design with rotation at 2 records", {"tlc_trace": V.tlc_trace_text(r)[-6000:]}, tag="mc")
    states += r.distinct
    trans += r.generated
    # each deviation switch must break the invariants (non-vacuity; these are the repaired / known defects)
    for sw in FIXED + KNOWN_SW + HYPOTHETICAL:
        cfg = mc_cfg(os.path.join(wd, f"sw-{sw}.cfg"), "Flush", [sw])
        r = V.tlc(MOD, cfg, name=f"{prop}sw{sw}", workers=4, timeout=300)
        if r.violation not in ("Consistent", "RecoveryOk"):
            raise V.ToolError(f"vacuity: switch {sw} does not violate the durability invariants ({r.summary()})")
        mcs.append({"config": f"witness AsIs={{{sw}}}", "violates": r.violation, "distinct": r.distinct})
    rep.add(model_checking=mcs)

    # ------------------------------------------------------------ 2. known findings (unlogged mutations): re-execute witnesses
    for k in V.known_for("C05"):
        w = WITNESS.get(k["id"])
        if not w or prop != "C05":
            continue
        sp = os.path.join(wd, "w.ndjson")
        V.write_ndjson(sp, [{"mode": "Sync", "batch": 3, "script": w}])
        tp = os.path.join(wd, "w-trace.ndjson")
        V.gv(["wal", "--script", sp, "--out", tp, "--dir", os.path.join(wd, "dbw")])
        ev = V.read_ndjson(tp)
        u = [e for e in ev if e["a"] == "uop"][0]
        o = [e for e in ev if e["a"] == "open"][0]
        if u["chg"] and u["appends"] == 0 and u["i"] not in o["match"]:
            rep.known(k["id"], k["what_fails"] + " [" + k["site"] + "]")
        elif u["chg"] and u["i"] in o["match"]:
            rep.notes.append(f"known finding {k['id']} does not reproduce (mutation survived the reopen)")
        else:
            rep.violation(f"witness of known finding {k['id']} behaves in a third way: {json.dumps(u)} / {json.dumps(o)}", {"script": w}, tag="w")

    # known finding at WalManager level, reachable through GrafeoDB once the log has rotated: close + reopen skips the
    # files before the checkpoint's file.  Witness: small operations until the log has two files, close, open.
    if prop == "C05" and any(k["id"] == "SkipPreCheckpointFiles" for k in V.known_for("C05")):
        k = [k for k in V.known_for("C05") if k["id"] == "SkipPreCheckpointFiles"][0]
        w = [{"a": "op", "kind": "cnode", "x": i} for i in range(60)] + [{"a": "close"}, {"a": "open"}]
        sp = os.path.join(wd, "wrot.ndjson")
        V.write_ndjson(sp, [{"mode": "Sync", "batch": 3, "script": w}])
        tpw = os.path.join(wd, "wrot-trace.ndjson")
        V.gv(["wal", "--script", sp, "--out", tpw, "--dir", os.path.join(wd, "dbwrot"), "--maxlog", 400])
        evw = V.read_ndjson(tpw)
        o = [e for e in evw if e["a"] == "open"][0]
        c = [e for e in evw if e["a"] == "close"][0]
        last = max(e["i"] for e in evw if e["a"] == "op")
        if len(c["st"]) >= 2 and o["ok"] and last not in o["match"]:
            rep.known(k["id"], k["what_fails"] + " [" + k["site"] + "]")
        elif len(c["st"]) >= 2 and o["ok"] and last in o["match"]:
            rep.notes.append("known finding SkipPreCheckpointFiles does not reproduce (everything was there after close and reopen of a rotated log)")
        else:
            rep.violation(f"witness of known finding SkipPreCheckpointFiles behaves in a third way: close {json.dumps(c)[:200]} / open {json.dumps(o)[:200]}", {"script": w}, tag="w")

    # ------------------------------------------------------------ 3. conformance
    # C06 thorough probes a crash image at every byte of every append (and 12 bit flips each): fewer histories
    ntr, ln = (60, 30) if tier == "quick" else ((30, 40) if prop == "C06" else (600, 45))
    tp = os.path.join(wd, "trace.ndjson")
    args = ["wal", "--seed", seed + (0 if prop == "C05" else 500), "--traces", ntr, "--len", ln, "--out", tp,
            "--dir", os.path.join(wd, "db"), "--profile", prop]
    if tier == "thorough" and prop == "C06":
        args += ["--every-byte", "--flips", 12]
    rc, out, _ = V.gv(args, timeout=6000)
    info = json.loads(out.strip().splitlines()[-1])
    ev = V.read_ndjson(tp)
    # rotation profile: the same harness with the log rotated every ~400 bytes (hook 4a71aa7): several files, crash
    # images inside rotate() (old file cut back to what it had fsynced before, next to the new empty file)
    ntr2, ln2 = (24, 40) if tier == "quick" else (200, 60)
    tp2 = os.path.join(wd, "trace-rot.ndjson")
    rc, out2, _ = V.gv(["wal", "--seed", seed + 900 + (0 if prop == "C05" else 500), "--traces", ntr2, "--len", ln2, "--out", tp2,
                        "--dir", os.path.join(wd, "dbrot"), "--maxlog", 400, "--flips", 2], timeout=6000)
    ev2 = V.read_ndjson(tp2)
    rot_files = max(len(e.get("st", [])) for e in ev2)
    rot_multi = sum(1 for e in ev2 if e["a"] in ("probe", "crash") and len(e["img"]) > 1)
    rot_inrot = sum(1 for e in ev2 if e["a"] in ("probe", "crash") and e.get("inrot"))
    if rot_files < 2 or rot_multi == 0 or rot_inrot == 0:
        raise V.ToolError("rotation profile produced no multi-file crash image / no crash-inside-rotate image")
    rep.add(rotation={"histories": ntr2, "events": len(ev2), "max_log_files": rot_files, "multi_file_crash_images": rot_multi,
                      "crash_inside_rotate_images": rot_inrot})
    ev = ev + ev2
    bym = split_modes(ev)
    tot_tr = tot_ev = 0
    samples = []
    nontriv = 0
    seen = set()
    for mode, es in bym.items():
        cfg = trace_cfg(os.path.join(wd, f"trace-{mode}.cfg"), mode)
        ok, nev, rej = V.validate_all(TRACE, cfg, es, name=f"{prop}-{mode}", wd=wd, max_violations=4)
        tot_tr += ok
        tot_ev += nev
        for r in rej:
            rep.violation(f"mode {mode}: event #{r['offset']} ({(r['event'] or {}).get('a')}) is not a behaviour of Wal.tla: "
                          f"{json.dumps(r['event'])[:400]}", {"mode": mode, "trace": r["trace"], "event": r["event"]})
        for _, tr in V.split_traces(es):
            key = json.dumps(strip(tr), sort_keys=True)
            if key in seen:
                continue
            seen.add(key)
            if prop == "C05":
                nt = sum(1 for e in tr if e["a"] == "open") >= 1 and sum(1 for e in tr if e["a"] == "op" and e.get("nrec", 0) > 0) >= 2
            else:
                nt = any(e["a"] in ("probe", "crash") and any(x[1] or True for x in e["img"]) for e in tr)
            if nt:
                nontriv += 1
                if len(samples) < 2:
                    samples.append(strip(tr)[:25])
    # binding self-test: a wrong `match` must be rejected
    first = V.split_traces(bym[next(iter(bym))])[0][1]
    bad = json.loads(json.dumps(first))
    mode0 = next(iter(bym))
    idx = next((i for i, e in enumerate(bad) if e["a"] in ("open", "probe") and e.get("ok")), None)
    if idx is not None:
        bad[idx]["match"] = [987654]
        p = os.path.join(wd, "selftest.ndjson")
        V.write_ndjson(p, bad)
        res = V.validate_trace(TRACE, trace_cfg(os.path.join(wd, "st.cfg"), mode0), p, name=prop + "-st")
        if res["accepted"] or res.get("index") != idx + 1:
            raise V.ToolError("binding self-test failed: corrupted recovery result not rejected at its event")
        rep.add(binding_selftest=f"corrupted recovered-state id rejected at event {idx + 1}")
    states += tot_ev
    trans += tot_ev
    probes = sum(1 for e in ev if e["a"] == "probe")
    torn = sum(1 for e in ev if e["a"] in ("probe", "crash") and any(x[1] for x in e["img"]))
    flips = sum(1 for e in ev if e["a"] == "probe" and e["flip"][0] != 0)
    rep.add(states=states, transitions=trans, traces_validated_against_impl=tot_tr, events_validated=tot_ev,
            crash_images_opened=probes, torn_images=torn, bit_flips=flips,
            real_crashes=sum(1 for e in ev if e["a"] == "crash"), reopen_cycles=sum(1 for e in ev if e["a"] == "open"),
            evaluations=tot_tr, distinct_nontrivial=nontriv,
            rule=("distinct event sequences; non-trivial: " + ("at least one close/crash+reopen after >= 2 logged mutations" if prop == "C05"
                  else "contains at least one crash image (real crash or probe)")),
            samples=samples, exhaustive=False)
    rep.assumptions += [
        "crash = loss of BufWriter contents + loss of an arbitrary un-fsynced suffix of each log file (record or byte granularity); "
        "fsync points are taken from the WAL hook, file contents from the real files",
        "prefix states are the live database's own dumps after each call (the engine is its own oracle for what a prefix produces)",
        "durability modes Sync, Batch(3 records, no timer), NoSync and Adaptive (no flusher thread is started by GrafeoDB); log rotation "
        "(64 MB in the engine) is exercised on the real code with the limit lowered to 400 bytes through the cfg(grafeo_verif) hook, "
        "in histories without close / checkpoint (after those, recovery skips the earlier files: SkipPreCheckpointFiles)",
        "only mutations through the GrafeoDB API are in the random histories; never-logged mutations are separate witnesses"]
    return rep.finish()


def replay(path):
    wd = V.workdir("replay-wal")
    obj = json.load(open(path))
    tr = obj["replay"]["trace"]
    p = os.path.join(wd, "t.ndjson")
    V.write_ndjson(p, tr)
    res = V.validate_trace(TRACE, trace_cfg(os.path.join(wd, "t.cfg"), obj["replay"]["mode"]), p, name="replay-wal")
    print(json.dumps({k: v for k, v in res.items() if k != "out"}, indent=1)[:3000])
    if res["accepted"]:
        return 0
    print(f"VIOLATION property={obj['property']} replay={path}")
    return 1
