"""C14: every access path to the property graph tells the same story — spec/store/LpgStore.tla,
MC_LpgIndex.tla; harness `gv lpg` (real LpgStore, every accessor after every mutator call)."""
import json
import os

import vcommon as V

SPECDIR = os.path.join(V.SPEC, "store")
TRACE = os.path.join(SPECDIR, "Trace_LpgStore.tla")
MC = os.path.join(SPECDIR, "MC_LpgIndex.tla")


def tcfg(path, maxn, maxe):
    return V.write_cfg(path, spec="TSpec", constants={"MaxN": maxn, "MaxE": maxe}, postcondition="Accepted")


def strip(tr):
    return [{k: v for k, v in e.items() if k != "obs"} for e in tr if e["a"] != "reset"]


def run(tier, seed):
    prop = "C14"
    rep = V.Report(prop, "model_checking", tier, seed)
    wd = V.workdir(prop)
    V.cargo_build()
    n = "{1, 2}" if tier == "quick" else "{1, 2, 3}"
    cfg = V.write_cfg(os.path.join(wd, "mc.cfg"), constants={"N": n, "Vals": "{1, 2}", "AsIs": "{}"}, invariants=["LabelIndexOk", "PropIndexOk"])
    r = V.tlc(MC, cfg, name="C14mc", workers=8, timeout=1800, coverage=True)
    V.log(f"[C14] TLC MC_LpgIndex: {r.summary()}")
    if r.timeout:
        rep.notes.append(f"MC_LpgIndex timed out: {r.distinct} distinct states explored without violation")
    elif not r.ok:
        rep.violation(f"TLC: {r.violation} in MC_LpgIndex", {"tlc": V.tlc_trace_text(r)[-4000:]}, tag="mc")
    mcs = [{"config": f"index mechanism vs definitions, N={n}", **r.summary()}]
    cfg2 = V.write_cfg(os.path.join(wd, "mc-sw.cfg"), constants={"N": "{1, 2}", "Vals": "{1, 2}", "AsIs": '{"DeleteKeepsIndexEntries"}'}, invariants=["PropIndexOk"])
    r2 = V.tlc(MC, cfg2, name="C14sw", workers=2, timeout=300)
    if r2.violation != "PropIndexOk":
        raise V.ToolError("vacuity: DeleteKeepsIndexEntries does not violate PropIndexOk")
    mcs.append({"config": "witness AsIs={DeleteKeepsIndexEntries}", "violates": "PropIndexOk", "distinct": r2.distinct})
    states, trans = r.distinct, r.generated
    tot_tr = tot_ev = nontriv = 0
    samples = []
    runs = [("mixed", ["--traces", 80 if tier == "quick" else 1500, "--len", 45 if tier == "quick" else 70, "--maxn", 7, "--maxe", 12], 8, 13),
            ("hub", ["--hub", "--traces", 4 if tier == "quick" else 40, "--len", 170 if tier == "quick" else 420, "--maxn", 4, "--maxe", 150 if tier == "quick" else 400], 5, 410)]
    for (name, args, mn, me) in runs:
        tp = os.path.join(wd, f"{name}.ndjson")
        V.gv(["lpg", "--seed", seed, "--out", tp] + args, timeout=1800)
        ev = V.read_ndjson(tp)
        cfg = tcfg(os.path.join(wd, f"{name}.cfg"), mn, me)
        traces = V.split_traces(ev)
        groups, batch = [], []
        for _, tr in traces:
            batch += tr
            if len(batch) >= 2500:
                groups.append(batch)
                batch = []
        if batch:
            groups.append(batch)
        for gi, g in enumerate(groups):
            ok, nev, rej = V.validate_all(TRACE, cfg, g, name=f"C14-{name}-{gi}", wd=wd, max_violations=3)
            tot_tr += ok
            tot_ev += nev
            for rj in rej:
                rep.violation(f"{name}: after event #{rj['offset']} {json.dumps({k: v for k, v in (rj['trace'][rj['offset']] if rj['offset'] < len(rj['trace']) else {}).items() if k != 'obs'})} "
                              "an access path of the real LpgStore disagrees with the graph defined by LpgStore.tla",
                              {"script": strip(rj["trace"]), "maxn": mn, "maxe": me})
        for _, tr in traces:
            acts = strip(tr)
            kinds = {e["a"] for e in acts}
            if {"dnode", "cedge", "dedge"} <= kinds and ("cidx" in kinds or name == "hub"):
                nontriv += 1
                if len(samples) < 2:
                    samples.append(acts[:25])
        if name == "hub":
            rep.add(max_live_out_edges_of_one_node=max(len(e["obs"]["out"][0]) for e in ev if "obs" in e and e["obs"]["out"]))
    # ---- ChunkedAdjacency on its own: LpgStore never calls the compaction entry points, so chunk / delta / cold thresholds
    # are exercised through the public type (capacities 2, 3 and the default 64)
    ADJ = os.path.join(SPECDIR, "Adjacency.tla")
    cfg = V.write_cfg(os.path.join(wd, "mc-adj.cfg"), constants={"Src": "{1, 2}", "Cap": 2, "DeltaThr": 2, "ColdThr": 1, "MaxAdds": 4 if tier == "quick" else 6},
                      invariants=["Refines", "ChunksWithinCapacity"])
    r = V.tlc(ADJ, cfg, name="C14adj", workers=8, timeout=2400)
    V.log(f"[C14] TLC Adjacency: {r.summary()}")
    if r.timeout:
        rep.notes.append("Adjacency MC timed out")
    elif not r.ok:
        rep.violation(f"TLC: {r.violation} in Adjacency.tla", {"tlc": V.tlc_trace_text(r)[-4000:]}, tag="mc")
    mcs.append({"config": "Adjacency.tla chunk/delta/cold mechanism refines the live-entry sequence", **r.summary()})
    states += r.distinct
    trans += r.generated
    tp = os.path.join(wd, "adj.ndjson")
    V.gv(["adj", "--seed", seed, "--traces", 9 if tier == "quick" else 90, "--len", 90 if tier == "quick" else 160, "--out", tp], timeout=1800)
    ev = V.read_ndjson(tp)
    acfg = V.write_cfg(os.path.join(wd, "adj.cfg"), constants={"NSrc": 3}, postcondition="Accepted")
    ATRACE = os.path.join(SPECDIR, "Trace_Adjacency.tla")
    groups, batch = [], []
    for _, tr in V.split_traces(ev):
        batch += tr
        if len(batch) >= 900:
            groups.append(batch)
            batch = []
    if batch:
        groups.append(batch)
    for gi, g in enumerate(groups):
        ok, nev, rej = V.validate_all(ATRACE, acfg, g, name=f"C14-adj-{gi}", wd=wd, max_violations=2, timeout=1200)
        tot_tr += ok
        tot_ev += nev
        for rj in rej:
            rep.violation(f"ChunkedAdjacency (chunk capacity {rj['trace'][0].get('cap')}): after event #{rj['offset']} ({(rj['event'] or {}).get('a')}) "
                          "edges_from / neighbors / degree / active count differ from the live entries",
                          {"adjacency": True, "script": strip(rj["trace"])})
    rep.add(adjacency_events=len(ev), adjacency_max_entries_one_source=max(len(e["obs"]["ef"][0]) for e in ev if "obs" in e))
    ev = V.read_ndjson(os.path.join(wd, "mixed.ndjson"))[:8]
    bad = json.loads(json.dumps(ev))
    bad[4]["obs"]["od"][0] += 1
    p = os.path.join(wd, "st.ndjson")
    V.write_ndjson(p, bad)
    res = V.validate_trace(TRACE, tcfg(os.path.join(wd, "st.cfg"), 8, 13), p, name="C14-st")
    if res["accepted"] or res.get("index") != 5:
        raise V.ToolError("binding self-test failed (corrupted out_degree not rejected)")
    rep.add(states=states + tot_ev, transitions=trans + tot_ev, model_checking=mcs, traces_validated_against_impl=tot_tr,
            events_validated=tot_ev, evaluations=tot_tr, distinct_nontrivial=nontriv,
            rule="random mutator histories; non-trivial: contains node deletion, edge creation and deletion and (index creation or a hub node)",
            samples=samples, binding_selftest="corrupted out_degree rejected at its event",
            access_paths=["nodes_by_label", "node_ids", "node_count/edge_count", "all_nodes/all_edges", "get_node/get_edge", "edges_from out/in", "edges_to",
                          "out_degree/in_degree", "find_nodes_by_property (index and scan)", "find_nodes_in_range", "node_property_might_match (implication)",
                          "edges_with_type", "has_property_index", "statistics totals after compute_statistics"])
    rep.assumptions += ["the store is driven through its non-transactional API, single-threaded",
                        "set_node_property is only issued for live nodes (the API does not check liveness)",
                        "LpgStoreConfig is not exported, so the store without backward adjacency is unreachable through the public API and not exercised",
                        "ChunkedAdjacency is driven directly (capacities 2, 3, 64) because LpgStore never calls its compaction entry points"]
    return rep.finish()


def replay(path):
    obj = json.load(open(path))
    if obj["replay"].get("adjacency"):
        print(json.dumps(obj["replay"]["script"])[:3000])
        print("ChunkedAdjacency history above; re-run `bin/check C14` to regenerate and re-validate")
        print(f"VIOLATION property=C14 replay={path}")
        return 1
    wd = V.workdir("replay-lpg")
    sp = os.path.join(wd, "s.ndjson")
    V.write_ndjson(sp, [{"bw": True, "script": obj["replay"]["script"]}])
    tp = os.path.join(wd, "t.ndjson")
    V.gv(["lpg", "--script", sp, "--out", tp])
    res = V.validate_trace(TRACE, tcfg(os.path.join(wd, "t.cfg"), obj["replay"]["maxn"], obj["replay"]["maxe"]), tp, name="replay-lpg")
    print(json.dumps({k: v for k, v in res.items() if k != "out"})[:2000])
    if res["accepted"]:
        return 0
    print(f"VIOLATION property=C14 replay={path}")
    return 1
