import wal_common


def run(tier, seed):
    return wal_common.run("C05", tier, seed)


def replay(path):
    return wal_common.replay(path)
