"""C18: vector search returns real, correctly scored, correctly ordered neighbours.
 (1) MC_HnswBeam.tla: the layer-0 beam search as a state machine, model-checked over every small graph /
     query / entry / ef / visiting order: result subset of the reachable set R, |result| = min(ef, |R|), exact when
     ef >= |R|; a deviation switch must violate it (vacuity guard).
 (2) Trace_Hnsw.tla: histories of insert / re-insert / remove / search / batch search on the real HnswIndex
     (with the proximity graph from the cfg(grafeo_verif) hook), QuantizedHnswIndex (scalar, binary, product),
     GrafeoDB::create_vector_index / vector_search, brute_force_knn, the distance kernels (dims 1..40) and the
     quantisers, judged by TLC against Hnsw.tla."""
import collections
import json
import os
import re

import vcommon as V

D = os.path.join(V.SPEC, "vector")
TRACE = os.path.join(D, "Trace_Hnsw.tla")
MC = os.path.join(D, "MC_HnswBeam.tla")


def run(tier, seed):
    prop = "C18"
    rep = V.Report(prop, "model_checking", tier, seed)
    wd = V.workdir(prop)
    V.cargo_build()
    # (1) the lemma
    n = 3 if tier == "quick" else 4
    deg = 3 if tier == "quick" else 2
    mc = {}
    for name, sw, expect in [("repaired", "{}", True), ("NoRoomRule", '{"NoRoomRule"}', False)]:
        cfg = os.path.join(wd, f"mc-{name}.cfg")
        V.write_cfg(cfg, spec="Spec", constants={"N": n if expect else 3, "MaxDeg": deg if expect else 3, "QMax": 2 * n + 2, "AsIs": sw},
                    invariants=["InR", "Count", "ExactWhenRoomy", "Nearest"])
        r = V.tlc(MC, cfg, name=f"C18-mc-{name}", workers=8, timeout=3000, xmx="12g")
        if r.timeout:
            raise V.ToolError("MC_HnswBeam timed out")
        held = "No error has been found" in r.out
        mc[name] = dict(distinct=r.distinct, generated=r.generated, held=held)
        if expect and not held:
            rep.violation("the beam-search lemma (result within R, |result| = min(ef,|R|), exact when ef >= |R|) fails in the model", {"tlc": V.tlc_trace_text(r)[-4000:]})
        if not expect and held:
            raise V.ToolError(f"vacuity guard: switch {name} does not violate the lemma")
    # (2) conformance
    cfg = os.path.join(wd, "laws.cfg")
    with open(cfg, "w") as f:
        f.write("SPECIFICATION Spec\nCHECK_DEADLOCK FALSE\n")
    tp = os.path.join(wd, "vec.ndjson")
    if tier == "quick":
        args = ["--traces", 150, "--steps", 40, "--dbtraces", 60, "--exact", 200, "--kernel", 3, "--quant", 100]
    else:
        args = ["--traces", 3000, "--steps", 80, "--dbtraces", 800, "--exact", 3000, "--kernel", 25, "--quant", 2000]
    V.gv(["vec", "--seed", seed, "--out", tp] + args, timeout=1800)
    ev = V.read_ndjson(tp)
    r = V.tlc(TRACE, cfg, name="C18-trace", workers=1, timeout=3000, xmx="12g", env={"TRACE": tp})
    if r.timeout or "No error has been found" not in r.out:
        V.log(r.out[-2000:])
        raise V.ToolError("Trace_Hnsw run failed")
    bad = collections.defaultdict(list)
    for m in re.finditer(r'<<"MISMATCH", (\d+), \{(.*?)\}>>', r.out):
        ln = int(m.group(1))
        for part in m.group(2).replace('"', "").split(", "):
            bad[part].append(ln)
    for part, lns in sorted(bad.items()):
        ln = lns[0]
        # context: the history the event belongs to (from its reset)
        start = max(i for i in range(ln) if ev[i]["a"] == "reset")
        hist = [{k: v for k, v in e.items() if k != "g"} for e in ev[start:ln - 1]] + [ev[ln - 1]]
        rep.violation(f"'{part}' contradicts Hnsw.tla on {len(lns)} events, first at line {ln}: {json.dumps({k: v for k, v in ev[ln - 1].items() if k != 'g'})[:300]}",
                      {"part": part, "line": ln, "history": hist[-60:], "count": len(lns), "seed": seed})
    kinds = collections.Counter(e["a"] for e in ev)
    searches = [e for e in ev if e["a"] == "search" and not e.get("panic")]
    withg = [e for e in searches if e.get("hasg")]
    short = sum(1 for e in searches if len(e["res"]) < e["k"])
    partial = 0
    for e in withg:
        g = e["g"]
        adj = {n[0]: (n[1][0] if n[1] else []) for n in g["nodes"]}
        if not adj:
            continue
        seen, st = {g["ep"]}, [g["ep"]]
        while st:
            x = st.pop()
            for y in adj.get(x, []):
                if y not in seen:
                    seen.add(y)
                    st.append(y)
        if len(seen) < len(adj):
            partial += 1
    nhist = kinds["reset"]
    samples = [{k: v for k, v in e.items() if k != "g"} for e in searches[::max(1, len(searches) // 5)]][:5]
    rep.add(states=sum(v["distinct"] for v in mc.values()) + r.distinct, transitions=sum(v["generated"] for v in mc.values()) + r.generated,
            traces_validated_against_impl=nhist, samples=samples,
            model_checking=mc, model_constants={"N": n, "MaxDeg": deg},
            trace_events=len(ev), events_by_kind=dict(kinds), searches=len(searches), searches_with_graph=len(withg),
            searches_returning_fewer_than_k=short, searches_where_part_of_the_index_is_unreachable_from_the_entry_point=partial,
            exhaustive=False,
            rule="histories: random insert / re-insert / remove / search / batch over <= 9 ids, dims 1..3, integer coordinates (zero vectors and duplicates frequent), "
                 "all four metrics, m 2..4 (m_max = m or 2m), ef_construction 1..6, k 0..ids+2, ef in {0,1,2,3,5,50,default}; plain, scalar-, binary- and product-quantised indexes; "
                 "engine-level create_vector_index / vector_search / batch_vector_search; brute_force_knn on <= 7 vectors; kernels for every dimension 1..40; quantisers on integer grids")
    rep.assumptions += ["vectors have small integer coordinates so that every metric is exact in f32 and in TLC's integers; extreme magnitudes, NaN and non-integer data are not covered",
                        "cosine: the greedy descent's end point is left open in the model (f32 ulp ties), everything else is checked",
                        "quantised indexes have no graph dump: their searches are checked for distinct / present / true distance / sorted / at most k",
                        "'stated error' of the scalar quantiser is taken as one quantisation step (it truncates); product-quantiser training (k-means) is exercised through the quantised index only",
                        "zone_map.rs, storage.rs (mmap) and the query-language vector operators (scan_vector.rs, vector_join.rs) are not covered"]
    return rep.finish()


def replay(path):
    obj = json.load(open(path))
    print(json.dumps(obj["replay"])[:4000])
    print(f"re-run: bin/check C18;  VIOLATION property=C18 replay={path}")
    return 1
