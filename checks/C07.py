"""C07: snapshot export/import, save, in-memory copy preserve the whole graph.
(1) bound to spec/txn/Mvcc.tla: after every action of generated / random multi-session histories the copies
    (import(export), to_memory, sampled save+open and open_in_memory) are logged and validated by TLC
    (Trace_Mvcc, CopyOnly): copy = what all_nodes/all_edges enumerate (mechanism) or the committed graph (ideal),
    copies agree with each other, export is byte-deterministic, the source is unchanged;
(2) value fidelity: graphs carrying every value type / sparse ids, all copy paths, bit-exact comparison;
(3) byte faults: truncations and single-bit flips of valid snapshots imported in a child process."""
import json
import os
import resource
import subprocess

import mvcc_common as M
import vcommon as V


def child(args, progress):
    V.cargo_build()

    def lim():
        resource.setrlimit(resource.RLIMIT_AS, (8 << 30, 8 << 30))
    p = subprocess.run([V.GV] + [str(a) for a in args] + ["--progress", progress], stdout=subprocess.PIPE, stderr=subprocess.PIPE, text=True, preexec_fn=lim, timeout=3000)
    last = ""
    if os.path.exists(progress):
        lines = open(progress).read().strip().splitlines()
        last = lines[-1] if lines else ""
    return p.returncode, last


def run(tier, seed):
    prop = "C07"
    rep = V.Report(prop, "model_checking", tier, seed)
    wd = V.workdir(prop)
    V.cargo_build()
    cfg_t = M.trace_cfg(os.path.join(wd, "trace.cfg"), copyonly=True)
    cfg_w = M.trace_cfg(os.path.join(wd, "trace-w.cfg"), devall=True, copyonly=True)
    stats = {"traces": 0, "events": 0}
    # ---- known finding: a copy taken while a transaction is open contains its uncommitted work
    for k in [k for k in V.known_for("C07") if k.get("spec") == "Mvcc"]:
        ev = M.run_scripts([k["witness"]], wd, "w-" + k["id"])
        p = os.path.join(wd, "w.ndjson")
        V.write_ndjson(p, ev)
        r2 = V.tlc(M.TRACE, cfg_w, name="C07-w", workers=1, dfs=True, env={"TRACE": p}, timeout=120)
        if not r2.ok:
            rep.violation(f"witness of known finding {k['id']} is no longer explained by the model", {"script": k["witness"]}, tag="w")
            continue
        devs = M.parse_devs(r2.out)
        if any(l == k["expect"]["event"] + 1 and "exp" in kinds for l, kinds in devs):
            rep.known(k["id"], k["what_fails"] + " [" + k["site"] + "]")
        else:
            rep.notes.append(f"known finding {k['id']} does not reproduce")
    # ---- (1) histories
    ntr, ln = (250, 30) if tier == "quick" else (4000, 45)
    tp = os.path.join(wd, "rnd.ndjson")
    V.gv(["mvcc", "--seed", seed + 77, "--traces", ntr, "--len", ln, "--maxn", 8, "--maxe", 8, "--disk-every", 10 if tier == "quick" else 5, "--out", tp], timeout=3000)
    ev = V.read_ndjson(tp)
    batch, n = [], 0
    seen, nontriv, samples = set(), 0, []
    for _, tr in V.split_traces(ev):
        st = M.strip(tr)
        key = json.dumps(st, sort_keys=True)
        if key not in seen:
            seen.add(key)
            kinds = {e["a"] for e in st}
            if "commit" in kinds and "deln" in kinds and "cedge" in kinds:
                nontriv += 1
                if len(samples) < 2:
                    samples.append(st[:20])
        batch += tr
        if len(batch) >= 40000:
            M.validate(rep, batch, cfg_t, wd, f"C07-B{n}", "copy after a recorded history", stats)
            batch, n = [], n + 1
    if batch:
        M.validate(rep, batch, cfg_t, wd, f"C07-B{n}", "copy after a recorded history", stats)
    # ---- (2) value fidelity
    fp = os.path.join(wd, "fidelity.ndjson")
    V.gv(["snap", "--out", fp, "--dir", os.path.join(wd, "snapdb")])
    fid = V.read_ndjson(fp)
    for f in fid:
        if not f["ok"]:
            rep.violation(f"copy path check '{f['check']}' failed on the all-value-types graph (variant {f['variant']}, {f['entities']} entities)", {"fidelity": f}, tag="f")
    # ---- (3) byte faults in a child process
    plans = [(9, "trunc", 1), (9, "flip", 1), (0, "trunc", 211 if tier == "quick" else 1), (0, "flip", 1777 if tier == "quick" else 29),
             (1, "trunc", 389 if tier == "quick" else 3), (2, "flip", 2503 if tier == "quick" else 41)]
    nf = 0
    outcomes = {}
    for (variant, kind, step) in plans:
        op = os.path.join(wd, f"faults-{variant}-{kind}.ndjson")
        rc, last = child(["snapfault", "--variant", variant, "--kind", kind, "--step", step, "--out", op], os.path.join(wd, "progress"))
        if rc != 0:
            rep.violation(f"import_snapshot killed the process (exit {rc}) on corrupted snapshot: variant {variant}, {last}", {"fault": {"variant": variant, "input": last}}, tag="x")
            continue
        for f in V.read_ndjson(op):
            nf += 1
            o = f["outcome"].split(":")[0]
            outcomes[o] = outcomes.get(o, 0) + 1
            if o not in ("err", "ok") and len(rep.violations) < 6:
                rep.violation(f"import_snapshot of a corrupted snapshot ({f['kind']} at {f['pos']} of {f['len']} bytes, variant {variant}): {f['outcome']}",
                              {"fault": dict(f, variant=variant)}, tag="x")
    rep.add(states=stats["events"], transitions=stats["events"], traces_validated_against_impl=stats["traces"], events_validated=stats["events"],
            evaluations=stats["traces"] + len(fid) + nf, distinct_nontrivial=nontriv + nf,
            rule="histories: distinct action scripts containing a commit, a node deletion and an edge creation; faults: each corrupted byte string is a distinct case",
            samples=samples + [{"fault_outcomes": outcomes}], fidelity_checks=len(fid), byte_faults=nf, fault_outcomes=outcomes,
            value_types=["null", "bool", "i64 extremes", "f64 NaN payloads / -0 / inf / subnormal / >2^53", "empty, non-ASCII, NUL-containing and 70 kB strings", "bytes",
                         "timestamps incl. negative and max", "nested lists and maps", "zero-length and NaN-carrying vectors"])
    rep.assumptions += ["copies taken after every action of multi-session histories (import(export) and to_memory always; save+open and open_in_memory sampled)",
                        "accepted outcomes for corrupted bytes: an error, or a database whose re-export/re-import is the identity; panics and process death are violations",
                        "byte positions are sampled with a stride in the quick tier (every byte / bit of the small snapshot; stride on the 70 kB one)"]
    return rep.finish()


def replay(path):
    obj = json.load(open(path))
    r = obj["replay"]
    if "script" in r:
        return M.replay(path)
    print(json.dumps(r)[:2000])
    print(f"VIOLATION property=C07 replay={path}")
    return 1
