"""C01 / C02, triple part: SPARQL reads and updates under transactions - spec/txn/RdfTx.tla.
MC: TLC explores all histories of the bounded model; the repaired mechanism satisfies Conforms and the
mechanism-side action properties, every deviation switch on its own violates one (vacuity guard).
A: TLC -simulate behaviours replayed through real Sessions.  B: seeded random histories.
After every action every session's full dump and one triple-pattern lookup are validated by Trace_RdfTx."""
import json
import os
import re

import vcommon as V

SPECDIR = os.path.join(V.SPEC, "txn")
TRACE = os.path.join(SPECDIR, "Trace_RdfTx.tla")
MC = os.path.join(SPECDIR, "MC_RdfTx.tla")
SWITCHES = ["noown", "bypass", "rc"]
PROPS = ["MStable", "MNoDirty", "MRollback", "MOwnWrites", "StableSnapshot", "RollbackInvisible"]
# which mechanism-side statement each switch is expected to break (besides Conforms)
BREAKS = {"noown": "MOwnWrites", "bypass": "MNoDirty", "rc": "MStable"}


def known_switches():
    return sorted({k["switch"] for k in V.load_known()["findings"]
                   if k.get("spec") == "RdfTx" and k["status"] == "known"})


def tla_set(xs):
    return "{" + ", ".join('"%s"' % x for x in xs) + "}"


def trace_cfg(path, asis, devall=False):
    return V.write_cfg(path, spec="TSpec", constants={
        "Sess": V.tla_strset(["s1", "s2", "s3"]), "Triples": "{}", "AsIs": tla_set(asis),
        "DevAll": "TRUE" if devall else "FALSE"}, postcondition="Accepted")


def mc_cfg(path, asis, depth, invariants=(), properties=()):
    return V.write_cfg(path, spec="GSpec", constants={
        "Sess": V.tla_strset(["s1", "s2"]), "Triples": "{111, 112, 121, 211}", "AsIs": tla_set(asis),
        "Depth": depth, "Preds": "{1, 2}"}, invariants=list(invariants), properties=list(properties), view="MCView")


def run_scripts(scripts, wd, name):
    sp = os.path.join(wd, name + "-scripts.ndjson")
    V.write_ndjson(sp, scripts)
    tp = os.path.join(wd, name + "-trace.ndjson")
    V.gv(["rdftx", "--script", sp, "--out", tp])
    return V.read_ndjson(tp)


def strip(tr):
    return [{k: v for k, v in e.items() if k not in ("obs",)} for e in tr if e.get("a") != "reset"]


def validate(rep, events, cfg, wd, name, origin, stats):
    ok, nev, rej = V.validate_all(TRACE, cfg, events, name=name, wd=wd, max_violations=4)
    stats["traces"] += ok
    stats["events"] += nev
    for r in rej:
        rep.violation(f"RDF, {origin}: after event #{r['offset']} ({(r['event'] or {}).get('a')}) what the sessions read through SPARQL "
                      f"is explained neither by the mechanism model of RdfTx.tla (switches of the current tree) nor by the snapshot definition ({r['kind']})",
                      {"engine": "rdftx", "script": strip(r["trace"]), "event": r["event"], "trace": r["trace"]}, tag="r")


def nontrivial(tr, prop):
    """C01: some session reads inside a transaction after another session changed the store;
    C02: a rollback / drop of a transaction that wrote."""
    intx, wrote = set(), set()
    for e in tr:
        a, s = e.get("a"), e.get("s")
        if a == "begin":
            intx.add(s)
            wrote.discard(s)
        elif a in ("commit", "rollback", "drop"):
            if prop == "C02" and a != "commit" and s in intx and s in wrote:
                return True
            intx.discard(s)
        elif a in ("ins", "del", "delw", "mod", "clear"):
            if s in intx:
                wrote.add(s)
            if prop == "C01" and (intx - {s}):
                return True
    return False


def section(rep, prop, tier, seed):
    wd = V.workdir(prop + "-rdftx")
    asis = known_switches()
    mcs = []
    states = trans = 0
    # ------------------------------------------------------------ 1. MC
    depth = 5 if tier == "quick" else 6
    r = V.tlc(MC, mc_cfg(os.path.join(wd, "mc.cfg"), [], depth, ["Conforms"], PROPS), name=prop + "rdf-mc",
              workers=8, timeout=900 if tier == "quick" else 3000)
    mcs.append({"config": f"RdfTx repaired mechanism, 2 sessions / 4 triples, depth {depth}; Conforms + {', '.join(PROPS)}",
                "expected": "holds", **r.summary()})
    if r.timeout:
        rep.notes.append(f"RdfTx model checking timed out at depth {depth} ({r.distinct} distinct states, no violation so far)")
    elif not r.ok:
        V.log(r.out[-3000:])
        raise V.ToolError(f"RdfTx.tla: the repaired model violates {r.violation}")
    states += r.distinct
    trans += r.generated
    if tier != "quick":
        # three sessions (two of them can be inside transactions while the third commits in between)
        cfg3 = V.write_cfg(os.path.join(wd, "mc3.cfg"), spec="GSpec", constants={
            "Sess": V.tla_strset(["s1", "s2", "s3"]), "Triples": "{111, 121}", "AsIs": "{}", "Depth": 5, "Preds": "{1, 2}"},
            invariants=["Conforms"], properties=PROPS, view="MCView")
        r3 = V.tlc(MC, cfg3, name=prop + "rdf-mc3", workers=8, timeout=3000)
        mcs.append({"config": "RdfTx repaired mechanism, 3 sessions / 2 triples, depth 5", "expected": "holds", **r3.summary()})
        if not r3.ok and not r3.timeout:
            raise V.ToolError(f"RdfTx.tla: the repaired model violates {r3.violation} with three sessions")
        states += r3.distinct
        trans += r3.generated
    for sw in SWITCHES:
        r1 = V.tlc(MC, mc_cfg(os.path.join(wd, f"mc-{sw}.cfg"), [sw], 4, ["Conforms"]), name=prop + "rdf-sw", workers=4, timeout=300)
        r2 = V.tlc(MC, mc_cfg(os.path.join(wd, f"mc-{sw}p.cfg"), [sw], 4, [], [BREAKS[sw]]), name=prop + "rdf-swp", workers=4, timeout=300)
        mcs.append({"config": f"switch {sw} alone, depth 4", "expected": f"violates Conforms and {BREAKS[sw]}",
                    "violated": [r1.violation, r2.violation]})
        if r1.violation != "Conforms" or r2.violation != BREAKS[sw]:
            raise V.ToolError(f"vacuity guard: switch {sw} no longer violates Conforms / {BREAKS[sw]} ({r1.violation}, {r2.violation})")

    stats = {"traces": 0, "events": 0}
    cfg_t = trace_cfg(os.path.join(wd, "trace.cfg"), asis)
    cfg_w = trace_cfg(os.path.join(wd, "trace-w.cfg"), asis, devall=True)

    # ------------------------------------------------------------ 2. known findings: re-execute every witness
    for k in [k for k in V.load_known()["findings"] if k.get("spec") == "RdfTx" and k["status"] == "known" and k["property"] == prop]:
        ev = run_scripts([k["witness"]], wd, "w-" + k["id"])
        p = os.path.join(wd, "w.ndjson")
        V.write_ndjson(p, ev)
        r2 = V.tlc(TRACE, cfg_w, name=prop + "-rw", workers=1, dfs=True, env={"TRACE": p}, timeout=120)
        if not r2.ok:
            rep.violation(f"witness of known finding {k['id']} is no longer explained by the model",
                          {"engine": "rdftx", "script": k["witness"]}, tag="rw")
            continue
        devs = [(int(m.group(1)), set(re.findall(r'"(\w+)"', m.group(2)))) for m in re.finditer(r'<<"DEV", (\d+), \{([^}]*)\}>>', r2.out)]
        if any(l == k["expect"]["event"] + 1 for l, _ in devs):
            rep.known(k["id"], k["what_fails"] + " [" + k["site"] + "]")
        else:
            rep.notes.append(f"known finding {k['id']} does not reproduce on this tree (what is read equals the snapshot definition)")

    # ------------------------------------------------------------ 3. binding self-test
    ev = run_scripts([[{"a": "ins", "s": "s1", "T": [112]}, {"a": "begin", "s": "s2"}, {"a": "ins", "s": "s2", "T": [121]},
                       {"a": "commit", "s": "s2"}]], wd, "selftest")
    bad = json.loads(json.dumps(ev))
    bad[3]["obs"]["all"]["s2"] = [112]          # the writer does not see its own pending triple
    p = os.path.join(wd, "selftest-bad.ndjson")
    V.write_ndjson(p, bad)
    res = V.validate_trace(TRACE, cfg_t, p, name=prop + "-rst")
    if res["accepted"] or res.get("index") != 4:
        raise V.ToolError("RdfTx binding self-test failed: a corrupted observation was not rejected at its event")
    rep.add(rdf_binding_selftest="own pending triple removed from the writer's answer: rejected at event 4")

    samples, seen, nontriv = [], set(), 0

    def account(events):
        nonlocal nontriv
        for _, tr in V.split_traces(events):
            st = strip(tr)
            key = json.dumps(st, sort_keys=True)
            if key in seen:
                continue
            seen.add(key)
            if nontrivial(st, prop):
                nontriv += 1
                if len(samples) < 1:
                    samples.append(st)

    # ------------------------------------------------------------ 4. binding A: TLC -simulate behaviours
    nsim, d = (150, 12) if tier == "quick" else (3000, 16)
    gcfg = V.write_cfg(os.path.join(wd, "gen.cfg"), spec="GSpec", constants={
        "Sess": V.tla_strset(["s1", "s2"]), "Triples": "{111, 112, 121, 122, 211, 212, 221}", "AsIs": "{}",
        "Depth": d, "Preds": "{1, 2}"}, invariants=["Emit"])
    r = V.tlc(MC, gcfg, name=prop + "rdf-gen", workers=1, simulate=nsim, depth=d + 2, seed=seed, timeout=600)
    scripts = []
    for line in r.printed:
        if line.startswith('<<"REPLAY"'):
            s = line[line.index(",") + 1:].strip()
            s = s[:s.rindex(">>")].strip()
            scripts.append(json.loads(json.loads(s)))
    if not scripts:
        V.log(r.out[-3000:])
        raise V.ToolError("RdfTx behaviour generation produced no scripts")
    scripts = scripts[: (300 if tier == "quick" else 5000)]
    ev = run_scripts(scripts, wd, "gen")
    account(ev)
    validate(rep, ev, cfg_t, wd, prop + "-rA", "binding A (TLC behaviour replayed through real sessions)", stats)

    # ------------------------------------------------------------ 5. binding B: seeded random histories
    ntr, ln = (400, 30) if tier == "quick" else (6000, 45)
    tp = os.path.join(wd, "rnd-trace.ndjson")
    V.gv(["rdftx", "--seed", seed + (0 if prop == "C01" else 1000), "--traces", ntr, "--len", ln, "--out", tp], timeout=1800)
    ev = V.read_ndjson(tp)
    account(ev)
    batch, n = [], 0
    for _, tr in V.split_traces(ev):
        batch += tr
        if len(batch) >= 40000:
            validate(rep, batch, cfg_t, wd, f"{prop}-rB{n}", "binding B (recorded history)", stats)
            batch, n = [], n + 1
    if batch:
        validate(rep, batch, cfg_t, wd, f"{prop}-rB{n}", "binding B (recorded history)", stats)

    rep.add(states=states + stats["events"], transitions=trans + stats["events"], model_checking=mcs,
            traces_validated_against_impl=stats["traces"], events_validated=stats["events"], evaluations=stats["traces"],
            rdf={"switches_of_current_tree": asis, "behaviours_replayed": len(scripts), "traces": stats["traces"],
                 "events": stats["events"], "distinct_nontrivial": nontriv, "sample": samples,
                 "reads_logged_after_every_action": ["SELECT ?s ?p ?o over the default graph, every session",
                                                      "one triple pattern with 0-2 constant positions, every session"],
                 "operations": "begin / commit / rollback / drop, INSERT DATA, DELETE DATA (1-2 triples), DELETE WHERE (one pattern), "
                               "DELETE-INSERT-WHERE (edge flip p1 -> p2), CLEAR DEFAULT"})
    rep.assumptions += [
        "RDF part: 3 subjects x 2 predicates x 3 IRI objects; sessions driven from one thread; acceptance per session: both answers equal the "
        "mechanism model under the switches listed as known findings, or the snapshot definition; anything else is a violation"]


def replay(obj, path):
    wd = V.workdir("replay-rdftx")
    ev = run_scripts([obj["replay"]["script"]], wd, "replay")
    p = os.path.join(wd, "t.ndjson")
    V.write_ndjson(p, ev)
    res = V.validate_trace(TRACE, trace_cfg(os.path.join(wd, "t.cfg"), known_switches()), p, name="replay-rdftx")
    print(json.dumps({k: v for k, v in res.items() if k != "out"}, indent=1)[:3000])
    if res["accepted"]:
        print("replay: trace accepted (violation does not reproduce)")
        return 0
    print(f"VIOLATION property={obj['property']} replay={path}")
    return 1
