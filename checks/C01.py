import mvcc_common


def run(tier, seed):
    return mvcc_common.run("C01", tier, seed)


def replay(path):
    return mvcc_common.replay(path)
