import txm_common


def run(tier, seed):
    return txm_common.run("C03", tier, seed)


def replay(path):
    return txm_common.replay(path)
