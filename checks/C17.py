"""C17: parallel, push-based and spilling execution equal simple sequential execution.
spec/exec/ExecSem.tla holds the sequential meaning of an operator pipeline (filter / project / limit / skip / distinct /
sort / aggregate over a table with NULLs) and judges every recorded run; harness `gv exec` runs each generated pipeline
pull-based and push-based with several chunk sizes, with spilling sort / aggregation under several thresholds (checking
that no spill file is left), on the parallel pipeline with several worker counts and morsel sizes, and runs the parallel
merge helpers (sorted runs, distinct sets, accumulators, folds, morsel generation) on partitions of the same table."""
import collections
import concurrent.futures as cf
import json
import os
import re

import vcommon as V

MOD = os.path.join(V.SPEC, "exec", "ExecSem.tla")


def _chunk(args):
    k, path, cfg = args
    return k, V.tlc(MOD, cfg, name=f"C17-{k}", workers=1, timeout=3000, xmx="4g", env={"TRACE": path})


def run(tier, seed):
    prop = "C17"
    rep = V.Report(prop, "exploration", tier, seed)
    wd = V.workdir(prop)
    V.cargo_build()
    cfg = os.path.join(wd, "laws.cfg")
    with open(cfg, "w") as f:
        f.write("SPECIFICATION Spec\nCHECK_DEADLOCK FALSE\n")
    cp = os.path.join(wd, "cases.ndjson")
    if tier == "quick":
        args = ["--cases", 500, "--big", 8, "--merges", 150, "--joins", 150, "--bigjoins", 30]
        nchunks = 6
    else:
        args = ["--cases", 8000, "--big", 60, "--merges", 3000, "--joins", 3000, "--bigjoins", 300]
        nchunks = 14
    V.gv(["exec", "--seed", seed, "--out", cp, "--dir", os.path.join(wd, "spill")] + args, timeout=3000)
    cases = V.read_ndjson(cp)
    chunks = [cases[i::nchunks] for i in range(nchunks)]
    jobs = []
    for k, ch in enumerate(chunks):
        p = os.path.join(wd, f"chunk-{k}.ndjson")
        V.write_ndjson(p, ch)
        jobs.append((k, p, cfg))
    bad = collections.defaultdict(list)
    with cf.ThreadPoolExecutor(max_workers=nchunks) as ex:
        for k, r in ex.map(_chunk, jobs):
            if r.timeout or "No error has been found" not in r.out:
                V.log(r.out[-3000:])
                raise V.ToolError("ExecSem run failed")
            for m in re.finditer(r'<<\s*"MISMATCH",\s*(\d+),\s*(\d+),\s*\{(.*?)\}\s*>>', r.out, re.S):
                c = chunks[k][int(m.group(1)) - 1]
                names = re.findall(r'"([^"]+)"', m.group(3))
                if c["k"] == "pipeline":
                    stateful = [o["op"] for o in c["ops"] if o["op"] in ("sort", "agg", "distinct", "limit", "skip", "skiplimit")]
                    key = "pipeline: " + ", ".join(sorted({n.split("/")[0] for n in names})) + " differ from the sequential meaning (" + ("+".join(stateful) or "stateless") + f", column-1 type {c.get('tmode', 0)})"
                elif c["k"] == "join":
                    key = f"{c['type']} join: " + ", ".join(sorted({n.split("/")[0] for n in names})) + " differs from JoinDef or between chunkings of its inputs" + (" (output > 2048 rows)" if c["big"] else "")
                else:
                    key = "merge helper: " + ", ".join(sorted(names))
                bad[key].append((c, names))
    for key, lst in sorted(bad.items()):
        lst.sort(key=lambda x: (x[0].get("nrows", len(x[0].get("rows", x[0].get("L", [])))), len(json.dumps(x[0].get("ops", [])))))
        c, names = lst[0]
        small = dict(c)
        if c["k"] == "join":
            small["runs"] = [{**r, "codes": r["codes"][:50]} for r in c["runs"] if r["name"] in names][:3] + [{**r, "codes": r["codes"][:50]} for r in c["runs"] if r["name"] not in names][:1]
            if c["big"]:
                small["L"] = c["L"][:20] + ["..."]
        if c["k"] == "pipeline":
            small["runs"] = [r for r in c["runs"] if r["name"] in names][:3] + [r for r in c["runs"] if r["name"] not in names][:1]
        rep.violation(f"{key}: {len(lst)} cases, smallest cid={c['cid']} ops={json.dumps(c.get('ops'))[:300]}", {"case": small, "failing_runs": names, "count": len(lst), "seed": seed})
    pipes = [c for c in cases if c["k"] == "pipeline"]
    runs = sum(len(c["runs"]) for c in pipes)
    kinds = collections.Counter(r["name"].split("/")[0] for c in pipes for r in c["runs"])
    opsc = collections.Counter(o["op"] for c in pipes for o in c["ops"])
    tm = collections.Counter(c.get("tmode", 0) for c in pipes)
    distinct = len({json.dumps([c.get("rows"), c.get("ops")]) for c in pipes})
    samples = [{"ops": c["ops"], "nrows": c["nrows"], "modes": [r["name"] for r in c["runs"]][:24], "result_rows": len(c["runs"][0]["rows"])} for c in pipes[::max(1, len(pipes) // 5)]][:5]
    joins = [c for c in cases if c["k"] == "join"]
    rep.add(join_cases=len(joins), join_runs=sum(len(c["runs"]) for c in joins), big_join_cases=sum(1 for c in joins if c["big"]),
            join_types=dict(collections.Counter(c["type"] for c in joins)))
    rep.add(evaluations=runs + sum(len(c["runs"]) for c in joins) + sum(9 for c in cases if c["k"] == "merge"), distinct_nontrivial=distinct, samples=samples,
            pipeline_cases=len(pipes), big_cases=sum(1 for c in pipes if c["big"]), merge_cases=sum(1 for c in cases if c["k"] == "merge"),
            runs_by_mode=dict(kinds), operators_used=dict(opsc), column1_types={str(k): v for k, v in tm.items()}, exhaustive=False,
            rule="evaluations = recorded runs (one pipeline x one execution mode) + 9 judged parts per merge case; distinct = distinct (table, pipeline) pairs. "
                 "tables: 0..25 rows (and 1023..4097 rows around the morsel / chunk boundaries), 3 columns (low-cardinality key with NULLs, value with NULLs, unique id); column 1 also as string / timestamp / float / bool / mixed int-float; "
                 "pipelines: <= 2 filters, then one of {project+distinct, sort (1-3 keys, both directions, NULLs first/last), aggregate (global, 1 or 2 group columns; count(*), count, sum, min, max, avg)}, then limit / skip / skip-limit and a projection; "
                 "modes: push with source chunks of 1, 2, 3, 7, n, 2048 rows (honouring the operators' chunk-size hints or not), pull with the same chunk sizes, spilling sort / aggregate with thresholds 1, 2, 5, unlimited, "
                 "parallel pipeline with 1, 2, 3, 4, 16 workers and morsels of 1, 2, 3, 1000 rows or the scheduler's sizes; merge helpers on 1..4 partitions")
    rep.assumptions += ["numbers are compared by value (push SUM returns a float where pull returns an integer); aggregation results are compared as bags (group order is unspecified), parallel results as bags",
                        "thread schedules of the parallel workers are whatever the OS gives (the runs are repeated over worker counts and seeds, not enumerated); the work-stealing scheduler itself is not modelled",
                        "ORDER BY on value types no sort implementation orders (timestamps, lists, ...) is excluded; the sort of equal keys is made total by a unique last key",
                        "joins: hash join (inner / left / right / full / semi / anti) and nested-loop join (inner / left / cross) on one equality key under 7 chunkings of both inputs, judged against JoinDef (ExecSem.tla) and for agreement between chunkings; outputs beyond one 2048-row chunk for agreement only; the join operators have no spilling variant in the tree",
                        "adaptive.rs (cardinality feedback), async spill files and ParallelNodeScanSource / triple sources are not covered"]
    return rep.finish()


def replay(path):
    obj = json.load(open(path))
    print(json.dumps(obj["replay"])[:4000])
    print(f"re-run: bin/check C17;  VIOLATION property=C17 replay={path}")
    return 1
