"""C12: no query text can crash or hang the embedding process.
 (1) QueryGen.tla: the input space as a state machine; TLC enumerates every token sequence up to a bound (and random
     longer behaviours in simulation mode) over each language's alphabet; each text goes to the real front end.
 (2) a mutation corpus built from valid queries: every truncation, characters replaced by delimiters / control /
     non-ASCII characters, deep nests, huge literals, extreme arithmetic, parameter maps of every type.
 Every call runs in a supervised child process (`gv front`): a panic is caught and reported, an abort (stack overflow,
 allocation failure) or a hang is detected by the parent, which restarts after the offending input.
 Trace_Front.tla checks the recorded outcomes: Outcome in {ok, err} for every call."""
import collections
import concurrent.futures as cf
import json
import os
import re
import subprocess
import time

import vcommon as V

D = os.path.join(V.SPEC, "front")
GEN = os.path.join(D, "QueryGen.tla")
TRACE = os.path.join(D, "Trace_Front.tla")
TOKENS = os.path.join(V.VERIF, "harness", "front_tokens.json")
GV = os.path.join(V.VERIF, "harness", "target", "debug", "gv")
LANGS = ["gql", "cypher", "gremlin", "graphql", "sparql"]
BATCH_TIMEOUT = 120
ONE_TIMEOUT = 5


def enumerate_seqs(wd, lang, K, opens, closes, maxlen, balanced, simulate=None, seed=1):
    cfg = os.path.join(wd, f"gen-{lang}-{maxlen}-{int(balanced)}.cfg")
    V.write_cfg(cfg, spec="Spec", constants={"K": K, "MaxLen": maxlen, "Open": V.tla_set(map(str, opens)), "Close": V.tla_set(map(str, closes)),
                                             "Balanced": "TRUE" if balanced else "FALSE"}, invariants=["Emit"])
    kw = dict(simulate=simulate, depth=maxlen + 1, seed=seed) if simulate else {}
    r = V.tlc(GEN, cfg, name=f"C12-gen-{lang}-{maxlen}-{int(balanced)}-{simulate or 0}", workers=1 if simulate else 4, timeout=1800, xmx="6g", **kw)
    if r.timeout:
        raise V.ToolError("QueryGen timed out")
    seqs = set()
    for m in re.finditer(r'<<"Q", <<(.*?)>>>>', r.out):
        s = m.group(1).replace(",", " ").split()
        if s:
            seqs.add(" ".join(s))
    return sorted(seqs), r


def _limits():
    import resource
    resource.setrlimit(resource.RLIMIT_AS, (8 << 30, 8 << 30))       # memory blow-ups end as an abort of the child, not of the sandbox
    resource.setrlimit(resource.RLIMIT_CORE, (0, 0))


def run_range(lang, kind, path, start, end, timeout=BATCH_TIMEOUT, limit=None):
    """runs inputs start..end in one child; returns (status, stdout): ok | abort (died) | hang (watchdog or batch timeout)"""
    cmd = [GV, "front", "--lang", lang, "--tokens", TOKENS, ("--seqs" if kind == "seqs" else "--texts"), path, "--start", str(start), "--end", str(end), "--limit", str(limit or ONE_TIMEOUT)]
    try:
        p = subprocess.run(cmd, capture_output=True, text=True, timeout=timeout, errors="replace", preexec_fn=_limits)
    except subprocess.TimeoutExpired as e:
        out = e.stdout or ""
        if isinstance(out, bytes):
            out = out.decode("utf-8", "replace")
        return "hang", out
    if p.returncode == 3 and re.search(r"^R \d+ hang$", p.stdout, re.M):
        return "hang", p.stdout
    if p.returncode != 0 or "DONE" not in p.stdout:
        return "abort", p.stdout
    return "ok", p.stdout


def supervise(lang, kind, path, n, batch):
    """runs all n inputs; returns (counts, bad: list of (index, outcome, info)).  The child prints a heartbeat "H i" before
    input i, so after an abnormal end the last heartbeat names the offending input and the run resumes after it."""
    counts = collections.Counter()
    bad = []
    todo = [(a, min(a + batch, n)) for a in range(0, n, batch)]
    while todo:
        a, b = todo.pop()
        st, out = run_range(lang, kind, path, a, b)
        for m in re.finditer(r"^R (\d+) panic (.*)$", out, re.M):
            bad.append((int(m.group(1)), "panic", m.group(2)))
            counts["panic"] += 1
        if st == "ok":
            m = re.search(r"DONE (\d+) (\d+) (\d+)", out)
            counts["ok"] += int(m.group(1)); counts["err"] += int(m.group(2))
            continue
        hs = re.findall(r"^H (\d+)$", out, re.M)
        at = int(hs[-1]) if hs else a
        if st == "hang":
            # a loaded machine can make one slow input look like a hang: confirm it alone with six times the limit
            st1, out1 = run_range(lang, kind, path, at, at + 1, timeout=BATCH_TIMEOUT, limit=ONE_TIMEOUT * 6)
            if st1 == "ok":
                m = re.search(r"DONE (\d+) (\d+) (\d+)", out1)
                counts["ok"] += int(m.group(1)); counts["err"] += int(m.group(2))
                counts["slow_input_confirmed_not_hanging"] += 1
                if at + 1 < b:
                    todo.append((at + 1, b))
                counts["ok_or_err_before_crash"] += at - a - len(re.findall(r"^R \d+ panic", out, re.M))
                continue
            st = st1 if st1 != "ok" else st
        bad.append((at, st, ""))
        counts[st] += 1
        counts["ok_or_err_before_crash"] += at - a - len(re.findall(r"^R \d+ panic", out, re.M))
        if at + 1 < b:
            todo.append((at + 1, b))
    return counts, bad


SEEDS = {
    "gql": ["MATCH (n:P) WHERE n.k = 1 AND NOT n.name = 'a' RETURN n.k, count(*) ORDER BY n.k DESC SKIP 1 LIMIT 2",
            "MATCH (a:P)-[e:R]->(b) RETURN a.k + b.k * 2 AS s, e.w", "INSERT (:P {k: 5, name: 'x'})", "MATCH (n:P {k: 1}) SET n.k = n.k + 1 RETURN n",
            "MATCH (n) WHERE n.k IN [1, 2, 3] RETURN DISTINCT n.name", "MATCH (a)-[:R*1..3]->(b) RETURN count(b)", "MATCH (n:P) RETURN n.k / 0, n.k % 0, -n.k",
            "OPTIONAL MATCH (n:Z) RETURN n UNION ALL MATCH (m:P) RETURN m", "MATCH (n) WHERE n.k = $p RETURN n", "UNWIND [1, 2, 3] AS x RETURN x + 9223372036854775807",
            "MATCH (n:P) RETURN CASE WHEN n.k > 1 THEN 'big' ELSE 'small' END", "MATCH (n) WHERE n.name = 'a\\u00e9\\n\\t\\\\\\'b' RETURN \"x\\u0041\\U0001F40E\"", "MATCH (n) DETACH DELETE n", "MATCH (n:P) RETURN [1,2,3][n.k], substring(n.name, 5, 2), toInteger('x')"],
    "cypher": ["MATCH (n:P) WHERE n.k = 1 AND NOT n.name = 'a' RETURN n.k, count(*) ORDER BY n.k DESC SKIP 1 LIMIT 2", "CREATE (:P {k: 5, name: 'x'})-[:R {w: 1}]->(:Q)",
               "MATCH (a:P)-[e:R]->(b) WITH a, count(b) AS c WHERE c > 0 RETURN a.k, c", "MERGE (n:P {k: 9}) ON CREATE SET n.name = 'm' RETURN n", "MATCH (n) RETURN n.k / 0, n.k % 0, -(-9223372036854775808)",
               "UNWIND range(1, 3) AS x RETURN x * 9223372036854775807", "MATCH p = (a)-[*1..2]-(b) RETURN length(p)", "MATCH (n:P) REMOVE n.name SET n:Z RETURN labels(n)",
               "MATCH (n) WHERE n.name STARTS WITH 'a' OR n.name =~ '(' RETURN n", "RETURN [x IN [1,2,3] WHERE x > 1 | x * 2], {a: 1}.a, [1,2][5], size('é')", "MATCH (n) WHERE n.name = 'a\\u00e9\\n\\t\\\\\\'b' RETURN \"x\\u0041\\U0001F40E\""],
    "gremlin": ["g.V().hasLabel('P').has('k', gt(1)).out('R').values('k').order().by(desc).limit(2)", "g.addV('P').property('k', 7).property('name', 'x')",
                "g.V().has('k', within(1, 2)).as('a').out().as('b').select('a', 'b').by('k')", "g.V().repeat(out()).times(3).path().dedup().count()", "g.V().group().by('k').by(count())",
                "g.V().has('k', 1).drop()", "g.E().hasLabel('R').inV().id()", "g.V().values('k').sum().is(gt(9223372036854775807))", "g.V().range(-1, 99999999999999999999)", "g.V().has('name', 'a\\u00e9\\n\\\\\\'b').has(\"k\", \"x\\u0041\")"],
    "graphql": ["{ person(k: 1) { name friends { name } } }", "query Q($v: Int) { person(k: $v) { name } }", "mutation { createPerson(k: 5, name: \"x\") { id } }",
                "{ person(first: 9223372036854775807, offset: -1, where: {age_gt: 1}) { ...F } } fragment F on Person { name }", "{ a: person { __typename } b: person @include(if: true) { name } }",
                "{ person(filter: {k: [1, 2, {x: null}]}, orderBy: \"k\") { name(x: \"\\u00e9\\n\") } }", "{ person(name: \"\"\"block \\\"\"\" \\u00e9 text\"\"\", k: \"a\\u0041\\t\\\\\") { name } }",
                # fragments that reach themselves (directly, through each other, through a relationship field, unused) and inline fragments
                "query { person { ...F } } fragment F on Person { name ...F }", "{ person { ...A } } fragment A on Person { name ...B } fragment B on Person { k ...A }",
                "{ person { name } } fragment U on Person { ...U }", "{ person { friends { ...F } } } fragment F on Person { name friends { ...F } }",
                "{ person { ... on Person { name ... on Person { k } } ...G } } fragment G on Person { ... on Person { ...G } }"],
    "sparql": ["PREFIX ex: <http://x/> SELECT DISTINCT ?s ?o WHERE { ?s ex:p ?o . FILTER(?o = \"lit\") } ORDER BY DESC(?s) LIMIT 2 OFFSET 1", "SELECT (COUNT(*) AS ?c) WHERE { ?s ?p ?o } GROUP BY ?p HAVING (?c > 0)",
               "INSERT DATA { <http://x/b> <http://x/p> \"v\"@en , 1 , \"2\"^^<http://www.w3.org/2001/XMLSchema#integer> }", "SELECT ?s WHERE { { ?s ?p 1 } UNION { ?s ?p 2 } OPTIONAL { ?s <http://x/q> ?z } MINUS { ?s ?p 3 } }",
               "ASK { ?s ?p ?o FILTER(REGEX(STR(?o), \"(\") && ?o / 0 > 1) }", "SELECT ?x WHERE { BIND(9223372036854775807 + 1 AS ?x) VALUES ?y { 1 2 } }", "DELETE DATA { <http://x/a> <http://x/p> \"lit\" }",
               "CONSTRUCT { ?s ?p ?o } WHERE { GRAPH <http://g> { ?s ?p ?o } }", "DESCRIBE <http://x/a>",
               "SELECT ?s WHERE { ?s <http://x/p> \"a\\u00e9\\n\\t\\\\\\\"b\" . ?s <http://x/q> '''x\\U0001F40E\\u0041''' FILTER(?s != 'c\\u0042') }"],
}
SUBST = ["\x00", "\"", "'", "\\", "(", ")", "{", "}", "[", "]", "é", "\U0001F40E", "\n", "`", "$", "-", "9", ".", "*", ":", "<", ">", "/", "#", "\t", "‮", "﻿"]
SUBST_QUICK = ["\x00", "\"", "\\", "(", "{", "é", "\U0001F40E", "\n", "$"]
PARAMS = [{"p": None}, {"p": True}, {"p": -1}, {"p": 9223372036854775807}, {"p": 1.5}, {"p": "x"}, {"p": [1, 2]}, {"v": "notanint"}, {}, {"p": 1e308}]


def mutation_corpus(lang, tier):
    seeds = SEEDS[lang]
    texts = []
    for s in seeds:
        texts.append({"text": s})
        for i in range(len(s)):                      # every truncation
            texts.append({"text": s[:i]})
        step = 1 if tier != "quick" else 2
        for i in range(0, len(s), step):             # substitutions and insertions
            for c in (SUBST if tier != "quick" else SUBST_QUICK):
                texts.append({"text": s[:i] + c + s[i + 1:]})
                if tier != "quick":
                    texts.append({"text": s[:i] + c + s[i:]})
        for p in PARAMS:
            texts.append({"text": s, "params": p})
    # function calls with arguments at and beyond the edges of their domains (fractions above 1, negative counts and
    # indexes, extreme integers, wrong types), over literals and over the properties of the stored nodes
    if lang in ("gql", "cypher"):
        fns1 = ["abs", "toInteger", "toFloat", "toString", "size", "sqrt", "sign", "ceil", "floor", "round", "head", "last", "reverse", "keys", "length", "exp", "log"]
        fns2 = ["percentile_disc", "percentile_cont", "percentileDisc", "percentileCont", "substring", "left", "right", "range", "split", "round", "coalesce"]
        args = ["-1", "0", "1", "2", "1.5", "40", "0.5", "9223372036854775807", "-9223372036854775808", "null", "'a'", "''", "1e308", "[1, 2]", "[]", "n.k"]
        for f in fns1:
            for a in args:
                texts.append({"text": f"MATCH (n:P) RETURN {f}({a})"})
        for f in fns2:
            for a in args:
                for b in (args if tier != "quick" else ["-1", "1.5", "2", "40", "9223372036854775807", "null", "'a'"]):
                    texts.append({"text": f"MATCH (n:P) RETURN {f}({a}, {b})"})
                    if a != "n.k":
                        texts.append({"text": f"MATCH (n:P) RETURN {f}(n.k, {b})"})
        for a in args:
            for b in ["-1", "0", "2", "9223372036854775807", "null"]:
                texts.append({"text": f"MATCH (n:P) RETURN substring('abc', {a}, {b}), [1, 2, 3][{a}], [1, 2, 3][{a}..{b}]"})
                texts.append({"text": f"MATCH (n:P) RETURN n.k ORDER BY n.k SKIP {a} LIMIT {b}"})
    nests = [10, 100, 1000, 3000, 10000] + ([100000] if tier != "quick" else [])
    # (prefix, repeated unit, innermost text, repeated closer, suffix)
    forms = {"gql": [("RETURN ", "(", "1", ")", ""), ("RETURN ", "[", "1", "]", ""), ("RETURN ", "NOT ", "true", "", ""), ("RETURN ", "-", "1", "", ""), ("MATCH (n) WHERE ", "(", "true", ")", " RETURN n"),
                     ("MATCH (n) WHERE ", "NOT ", "true", "", " RETURN n"), ("RETURN ", "CASE WHEN true THEN ", "1", " END", ""), ("RETURN ", "{a: ", "1", "}", ""), ("MATCH (a)", "-->()", "", "", " RETURN a"), ("RETURN 1", " + 1", "", "", "")],
             "cypher": [("RETURN ", "(", "1", ")", ""), ("RETURN ", "[", "1", "]", ""), ("RETURN ", "NOT ", "true", "", ""), ("RETURN ", "-", "1", "", ""), ("MATCH (n) WHERE ", "(", "true", ")", " RETURN n"),
                        ("RETURN ", "{a: ", "1", "}", ""), ("RETURN ", "[x IN ", "[1]", " | x]", ""), ("MATCH (a)", "-->()", "", "", " RETURN a"), ("RETURN 1", " + 1", "", "", "")],
             "gremlin": [("g.V()", ".out()", "", "", ""), ("g.V()", ".where(__", ".out()", ")", ""), ("g.V()", ".not(__", ".out()", ")", ""), ("g.V()", ".repeat(__", ".out()", ").times(1)", ""), ("g.V().has('k', ", "not(", "1", ")", ")"), ("", "(", "g", ")", "")],
             "graphql": [("", "{ a ", "{ b }", " }", ""), ("{ p(f: ", "{a: ", "1", "}", ") { b } }"), ("{ p(f: ", "[", "1", "]", ") { b } }"), ("", "{", "", "", ""), ("query Q ", "{ a ", "", "", "")],
             "sparql": [("SELECT * WHERE ", "{ ", "?s ?p ?o", " }", ""), ("SELECT * WHERE { ", "OPTIONAL { ", "?s ?p ?o", " }", " }"), ("SELECT * WHERE { ?s ?p ?o FILTER", "(", "1", ")", " }"), ("SELECT * WHERE { ?s ?p ?o FILTER(", "!", "1", "", ") }"),
                        ("SELECT * WHERE { ?s ?p ?o FILTER(", "-", "1", "", ") }"), ("SELECT * WHERE { ", "SELECT * WHERE { ", "?s ?p ?o", " }", " }"), ("SELECT ", "(", "1", ")", " WHERE { }"), ("SELECT * WHERE { ?s ", "(", "<http://x/p>", ")", " ?o }")]}[lang]
    for (pre, unit, inner, closer, suf) in forms:
        for n in nests:
            texts.append({"text": pre + unit * n + inner + closer * n + suf, "nest": n})     # well formed
            texts.append({"text": pre + unit * n, "nest": n})                                # cut at the deepest point
            texts.append({"text": pre + unit * n + inner + closer * (n // 2) + suf, "nest": n})  # unbalanced
    for n in [1000, 100000, 1000000]:
        texts.append({"text": "RETURN '" + "x" * n + "'"})
        texts.append({"text": "RETURN " + "9" * min(n, 100000)})
        texts.append({"text": "a" * n})
        texts.append({"text": "MATCH (" + "n" * min(n, 100000) + ") RETURN 1"})
        texts.append({"text": " " * n})
    texts.append({"text": "퟿￿\U0010ffff"})
    return texts


def run(tier, seed):
    prop = "C12"
    rep = V.Report(prop, "exploration", tier, seed)
    wd = V.workdir(prop)
    V.cargo_build()
    tok = json.load(open(TOKENS))
    jobs = []
    gen_stats = {}
    for lang in LANGS:
        t = tok[lang]
        K = len(t["tokens"])
        if tier == "quick":
            seqs, r = enumerate_seqs(wd, lang, K, t["open"], t["close"], 2, False)
            sim, r2 = enumerate_seqs(wd, lang, K, t["open"], t["close"], 8, True, simulate=400, seed=seed)
        else:
            seqs, r = enumerate_seqs(wd, lang, K, t["open"], t["close"], 3, False)
            sim, r2 = enumerate_seqs(wd, lang, K, t["open"], t["close"], 12, True, simulate=20000, seed=seed)
        allseqs = sorted(set(seqs) | set(sim))
        sp = os.path.join(wd, f"seqs-{lang}.txt")
        with open(sp, "w") as f:
            f.write("\n".join(allseqs) + "\n")
        gen_stats[lang] = dict(alphabet=K, exhaustive_texts=len(seqs), simulated_texts=len(set(sim) - set(seqs)), tlc_distinct_states=r.distinct)
        jobs.append((lang, "seqs", sp, len(allseqs), 4000))
        mc = mutation_corpus(lang, tier)
        mp = os.path.join(wd, f"mut-{lang}.ndjson")
        V.write_ndjson(mp, mc)
        gen_stats[lang]["mutation_texts"] = len(mc)
        jobs.append((lang, "texts", mp, len(mc), 1500))
    events = []
    totals = collections.Counter()
    t0 = time.time()
    with cf.ThreadPoolExecutor(max_workers=10) as ex:
        futs = {ex.submit(supervise, *j): j for j in jobs}
        for fu in cf.as_completed(futs):
            lang, kind, path, n, _ = futs[fu]
            counts, bad = fu.result()
            totals.update({f"{lang}/{kind}/{k}": v for k, v in counts.items()})
            inputs = open(path, encoding="utf-8").read().split("\n") if kind == "seqs" else None
            recs = V.read_ndjson(path) if kind == "texts" else None
            for (i, outcome, info) in bad:
                if kind == "seqs":
                    text = " ".join(tok[lang]["tokens"][int(x) - 1] for x in inputs[i].split())
                    params = None
                    nest = 0
                else:
                    text, params = recs[i]["text"], recs[i].get("params")
                    nest = recs[i].get("nest", 0)
                events.append({"lang": lang, "src": kind, "i": i, "outcome": outcome, "info": info, "text": text if len(text) < 400 else text[:200] + f"...<{len(text)} chars>", "params": params, "nest": nest,
                               "cls": (re.sub(r"\d+", "N", re.sub(r"`[^`]*`?|'[^']*'", "_", info))[:90] if outcome == "panic" else outcome + ("/nest" if nest >= 1000 else ""))})
            events.append({"lang": lang, "src": kind, "i": -1, "outcome": "ok", "info": f"{counts['ok']} ok, {counts['err']} err", "text": "", "params": None, "nest": 0, "cls": "summary"})
    # the recorded outcomes are judged by TLC
    tp = os.path.join(wd, "outcomes.ndjson")
    V.write_ndjson(tp, [{k: (v if v is not None else "") for k, v in e.items() if k != "params"} for e in events])
    cfg = os.path.join(wd, "front.cfg")
    with open(cfg, "w") as f:
        f.write("SPECIFICATION Spec\nCHECK_DEADLOCK FALSE\n")
    r = V.tlc(TRACE, cfg, name="C12-trace", workers=1, timeout=600, xmx="2g", env={"TRACE": tp})
    if r.timeout or "No error has been found" not in r.out:
        V.log(r.out[-2000:])
        raise V.ToolError("Trace_Front run failed")
    badlines = [int(m.group(1)) for m in re.finditer(r'<<"BAD", (\d+)', r.out)]
    known = {f["id"]: f for f in V.known_for(prop) if f["status"] == "known"}
    groups = collections.defaultdict(list)
    for ln in badlines:
        e = events[ln - 1]
        groups[(e["lang"], e["outcome"], e["cls"])].append(e)
    for (lang, outcome, cls), es in sorted(groups.items()):
        es.sort(key=lambda e: len(e["text"]))
        e = es[0]
        # a known finding names a language, an outcome and the input class (deep nests: >= 1000 repetitions of one construct)
        fid = next((k for k, f in known.items() if f.get("lang") == lang and f.get("outcome") == outcome and f.get("input_class") == "nest" and all(x["nest"] >= 1000 for x in es)), None)
        if fid:
            rep.known(fid, known[fid]["what_fails"])
            continue
        rep.violation(f"{lang} front end: {outcome} ({cls}) on {len(es)} inputs, shortest: {e['text'][:160]!r} params={e['params']}",
                      {"lang": lang, "outcome": outcome, "text": e["text"], "params": e["params"], "info": e["info"], "count": len(es), "more": [x["text"][:120] for x in es[1:6]]})
    n_inputs = sum(v for k, v in totals.items() if k.split("/")[-1] in ("ok", "err", "panic", "abort", "hang", "ok_or_err_before_crash"))
    rep.add(evaluations=n_inputs, distinct_nontrivial=sum(g["exhaustive_texts"] + g["simulated_texts"] + g["mutation_texts"] for g in gen_stats.values()),
            samples=[{"lang": l, **g} for l, g in gen_stats.items()], outcomes=dict(totals), supervise_wall_s=round(time.time() - t0, 1), exhaustive=False,
            rule="evaluations = inputs executed (each on a populated and on an empty database; GQL texts containing $p also with a parameter map). "
                 "Inputs: every token sequence of length <= 2 (quick) / <= 3 (thorough) over each language's alphabet (52-68 tokens: keywords, punctuation, extreme numbers, unterminated strings, NUL, backslash, non-ASCII) "
                 "enumerated by TLC from QueryGen.tla + bracket-balanced random behaviours up to 8 / 12 tokens (TLC simulation); plus per language a mutation corpus of 6-13 valid queries: every truncation, "
                 "every position (every second one in the quick tier) replaced by (and in the thorough tier also preceded by) each of 27 (quick: 9, always including two multi-byte) special characters, 10 parameter maps, bracket / operator nests of depth 10..10^4 (10^5 thorough), literals and identifiers up to 10^6 characters")
    rep.assumptions += ["a call is a hang if a batch of inputs exceeds 120 s and the single input then exceeds the per-input limit; memory exhaustion is detected only as an abort of the child",
                        "the C binding (crates/bindings/c) is not built here: it forwards to the same Session calls, so an unwinding panic found here is the FFI hazard the property describes",
                        "the judgement Outcome in {ok, err} is evaluated by TLC over the recorded outcomes (Trace_Front.tla); the front ends' grammar is not modelled: the model is the input space"]
    return rep.finish()


def replay(path):
    obj = json.load(open(path))
    print(json.dumps(obj["replay"])[:3000])
    print(f"re-run: bin/check C12;  VIOLATION property=C12 replay={path}")
    return 1
