"""C11: query results obey the algebra of predicates, limits and aggregates — spec/query/Metamorphic.tla
(identities over recorded results, evaluated by TLC) + harness `gv qmeta`."""
import json
import os
import re

import vcommon as V

SPECDIR = os.path.join(V.SPEC, "query")
MOD = os.path.join(SPECDIR, "Metamorphic.tla")


def check(path, name):
    cfg = os.path.join(os.path.dirname(path), name + ".cfg")
    with open(cfg, "w") as f:
        f.write("SPECIFICATION Spec\nCHECK_DEADLOCK FALSE\n")
    r = V.tlc(MOD, cfg, name=name, workers=1, timeout=2400, xmx="10g", env={"TRACE": path})
    if r.timeout or "No error has been found" not in r.out:
        V.log(r.out[-3000:])
        raise V.ToolError(f"metamorphic run {name} failed")
    return [int(m.group(1)) for m in re.finditer(r'<<"MISMATCH", (\d+),', r.out)], r.generated - 1


def run(tier, seed):
    prop = "C11"
    rep = V.Report(prop, "model_checking", tier, seed)
    wd = V.workdir(prop)
    V.cargo_build()
    cp = os.path.join(wd, "meta.ndjson")
    args = ["qmeta", "--seed", seed, "--graphs", 25 if tier == "quick" else 250, "--random", 80 if tier == "quick" else 1500, "--big", "--out", cp]
    V.gv(args, timeout=3000)
    cases = V.read_ndjson(cp)
    known = {k["id"]: k for k in V.known_for("C11")}
    total = 0
    kinds = {}
    samples = []
    for b in range(0, len(cases), 2500):
        batch = cases[b:b + 2500]
        bp = os.path.join(wd, f"batch-{b}.ndjson")
        V.write_ndjson(bp, batch)
        mm, n = check(bp, f"C11-{b}")
        total += n
        for i in mm:
            c = batch[i - 1]
            if c["kind"] == "union" and c["lang"] == "gql" and "GqlUnionAllFirstBranch" in known:
                k = known["GqlUnionAllFirstBranch"]
                rep.known(k["id"], k["what_fails"] + " [" + k["site"] + "]")
                continue
            if len(rep.violations) < 8:
                small = {k2: (v2 if not isinstance(v2, list) or len(v2) < 40 else v2[:40]) for k2, v2 in c.items()}
                rep.violation(f"{c['lang']} {c['kind']} identity fails for: {c['text']}", {"case": small})
    for c in cases:
        kinds[c["kind"] + "/" + c["lang"]] = kinds.get(c["kind"] + "/" + c["lang"], 0) + 1
    nontriv = sum(1 for c in cases if (c["kind"] == "partition" and len(c["all"]) > 1 and len(c["p"]) + len(c["np"]) < len(c["all"]))
                  or (c["kind"] in ("window", "uwindow") and len(c["full"]) > 2) or (c["kind"] == "distinct" and len(c["d"]) < len(c["full"]))
                  or (c["kind"] == "count" and c["n"] > 1) or c["kind"] == "union")
    for c in cases:
        if c["kind"] == "partition" and 1 < len(c["all"]) < 8 and len(samples) < 2:
            samples.append({"kind": c["kind"], "text": c["text"], "all": len(c["all"]), "p": len(c["p"]), "np": len(c["np"]), "u": len(c["u"]), "hasu": c["hasu"]})
        if c["kind"] == "window" and len(c["full"]) > 2000 and len(samples) < 4:
            samples.append({"kind": c["kind"], "text": c["text"], "full": len(c["full"]), "win": len(c["win"])})
    # binding self-test
    good = next(c for c in cases if c["kind"] == "count" and c["n"] > 0)
    bad = json.loads(json.dumps(good))
    bad["n"] += 1
    sp = os.path.join(wd, "st.ndjson")
    V.write_ndjson(sp, [good, bad])
    mm, _ = check(sp, "C11-st")
    if mm != [2]:
        raise V.ToolError("binding self-test failed (wrong count not reported)")
    rep.add(states=total, transitions=total, traces_validated_against_impl=total, evaluations=total, distinct_nontrivial=nontriv,
            rule="one case = the recorded row lists of a family of related queries on one graph; non-trivial: partition with unknown rows, window over > 2 rows, "
                 "DISTINCT that removes rows, count > 1, any UNION ALL", samples=samples, cases_by_kind=kinds,
            sizes="random graphs of 0-6 nodes plus single-label graphs of 0, 1, 2047, 2048 and 2049 nodes (chunk boundary)",
            binding_selftest="count identity with a wrong count is reported as MISMATCH")
    rep.assumptions += ["identities are evaluated by TLC on recorded results only (no semantic oracle)",
                        "predicates: comparisons, arithmetic (+, *, %), AND/OR/NOT, IN, STARTS WITH, a property no node has; the 'unknown' part uses (p) IS NULL where the language accepts it",
                        "GQL and Cypher; skip/limit values 0, 1, n-1, n, n+1, 2047, 2048 and combinations"]
    return rep.finish()


def replay(path):
    obj = json.load(open(path))
    print(json.dumps(obj["replay"]["case"])[:3000])
    print("re-run `bin/check C11` to re-execute the query family; the recorded rows above violate the identity")
    print(f"VIOLATION property=C11 replay={path}")
    return 1
