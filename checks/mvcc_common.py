"""C01 / C02 (and the session-level part of C03): sessions + MVCC — spec/txn/Mvcc.tla.
MC: TLC explores all histories of the bounded model (as-is mechanism vs ideal snapshot views).
A: TLC -simulate behaviours replayed through real Sessions.  B: seeded random histories.
Every read kind of every session is logged after every action and validated by TLC (Trace_Mvcc)."""
import json
import os
import re

import vcommon as V
import rdftx_common

SPECDIR = os.path.join(V.SPEC, "txn")
TRACE = os.path.join(SPECDIR, "Trace_Mvcc.tla")
MC = os.path.join(SPECDIR, "MC_Mvcc.tla")
KINDS = ["ls", "as", "gt", "ex", "no", "ni", "nc", "ec", "fcw"]


def trace_cfg(path, devall=False, copyonly=False):
    return V.write_cfg(path, spec="TSpec", constants={
        "Sess": V.tla_strset(["s1", "s2", "s3"]), "MaxN": 10, "MaxE": 10,
        "DevAll": "TRUE" if devall else "FALSE", "CopyOnly": "TRUE" if copyonly else "FALSE"}, postcondition="Accepted")


def parse_devs(out):
    res = []
    for m in re.finditer(r'<<"DEV", (\d+), \{([^}]*)\}>>', out):
        res.append((int(m.group(1)), set(re.findall(r'"(\w+)"', m.group(2)))))
    return res


def strip(tr):
    return [{k: v for k, v in e.items() if k not in ("obs",)} for e in tr if e.get("a") != "reset"]


def run_scripts(scripts, wd, name):
    sp = os.path.join(wd, name + "-scripts.ndjson")
    V.write_ndjson(sp, scripts)
    tp = os.path.join(wd, name + "-trace.ndjson")
    V.gv(["mvcc", "--script", sp, "--out", tp])
    return V.read_ndjson(tp)


def validate(rep, events, cfg, wd, name, origin, stats):
    ok, nev, rej = V.validate_all(TRACE, cfg, events, name=name, wd=wd, max_violations=4)
    stats["traces"] += ok
    stats["events"] += nev
    for r in rej:
        rep.violation(f"{origin}: event #{r['offset']} ({(r['event'] or {}).get('a')}) is explained neither by the as-is "
                      f"mechanism model nor by the ideal snapshot view of Mvcc.tla ({r['kind']})",
                      {"script": strip(r["trace"]), "event": r["event"], "trace": r["trace"]})


NONTRIV = {
    "C01": "a session in an open transaction observes the database after another session wrote (any write event while some other session is inside a transaction)",
    "C02": "the trace contains a rollback, drop or commit of a transaction that performed at least one write",
}


def nontrivial(tr, prop):
    intx = set()
    wrote = set()
    for e in tr:
        a = e.get("a")
        s = e.get("s")
        if a == "begin":
            intx.add(s)
            wrote.discard(s)
        elif a in ("commit", "rollback", "drop"):
            if prop == "C02" and s in intx and s in wrote:
                return True
            intx.discard(s)
        elif a in ("cnode", "setp", "setl", "deln", "cedge", "dbdele"):
            if s in intx:
                wrote.add(s)
            if prop == "C01" and (intx - {s}):
                return True
    return False


def run(prop, tier, seed):
    rep = V.Report(prop, "model_checking", tier, seed)
    wd = V.workdir(prop)
    V.cargo_build()
    states = trans = 0
    mcs = []
    # ------------------------------------------------------------ 1. MC: all histories of the bounded as-is model
    # The as-is mechanism must violate SnapshotReads (that is what the known findings say); TLC's shortest
    # counterexample is recorded. (The property is *defined* by the ideal views; see DESIGN §7 C01.)
    cfg = V.write_cfg(os.path.join(wd, "mc-asis.cfg"), spec="GSpec", constants={
        "Sess": V.tla_strset(["s1", "s2"]), "MaxN": 2, "MaxE": 1, "Vals": "{1, 2}", "Depth": 5},
        invariants=["SnapshotReads"], view="MView")
    r = V.tlc(MC, cfg, name=prop + "mc-asis", workers=4, timeout=300)
    mcs.append({"config": "as-is mechanism vs ideal, 2 sessions/2 nodes/1 edge, depth 5, invariant SnapshotReads",
                "expected": "violated", **r.summary()})
    if r.violation != "SnapshotReads":
        rep.notes.append("as-is model no longer violates SnapshotReads in the bounded model")
    # exhaustive enumeration of the bounded model's behaviours (no invariant): state-space size of what A samples
    depth = 5 if tier == "quick" else 6
    cfg = V.write_cfg(os.path.join(wd, "mc-enum.cfg"), spec="GSpec", constants={
        "Sess": V.tla_strset(["s1", "s2"]), "MaxN": 2, "MaxE": 1, "Vals": "{1, 2}", "Depth": depth}, view="MView")
    r = V.tlc(MC, cfg, name=prop + "mc-enum", workers=8, timeout=600 if tier == "quick" else 2400)
    mcs.append({"config": f"enumeration of all histories to depth {depth} (2 sessions/2 nodes/1 edge)", **r.summary()})
    states += r.distinct
    trans += r.generated
    V.log(f"[{prop}] TLC enumeration: {r.summary()}")

    stats = {"traces": 0, "events": 0}
    cfg_t = trace_cfg(os.path.join(wd, "trace.cfg"))
    cfg_w = trace_cfg(os.path.join(wd, "trace-w.cfg"), devall=True)

    # ------------------------------------------------------------ 2. known findings: re-execute every witness
    kf = [k for k in V.load_known()["findings"] if k.get("spec") == "Mvcc" and k["status"] == "known"
          and k["property"] in (prop, "C03" if prop == "C02" else prop)]
    for k in kf:
        ev = run_scripts([k["witness"]], wd, "w-" + k["id"])
        p = os.path.join(wd, "w.ndjson")
        V.write_ndjson(p, ev)
        res = V.validate_trace(TRACE, cfg_w, p, name=prop + "-w")
        if not res["accepted"]:
            rep.violation(f"witness of known finding {k['id']} is no longer explained by the model (event {res.get('index')})",
                          {"script": k["witness"], "event": res.get("event")}, tag="w")
            continue
        # need the DEV lines: re-run capturing output
        r2 = V.tlc(TRACE, cfg_w, name=prop + "-w2", workers=1, dfs=True, env={"TRACE": p}, timeout=120)
        devs = parse_devs(r2.out)
        want_l = k["expect"]["event"] + 1
        hit = any(l == want_l and set(k["expect"]["kinds"]) & kinds for l, kinds in devs)
        if hit:
            rep.known(k["id"], k["what_fails"] + " [" + k["site"] + "]")
        else:
            rep.notes.append(f"known finding {k['id']} does not reproduce on this tree (observation equals the ideal view)")

    # ------------------------------------------------------------ 3. binding self-test: a corrupted observation must be rejected
    ev = run_scripts([[{"a": "cnode", "s": "s1", "L": ["P"], "v": 1, "via": "api"}, {"a": "begin", "s": "s2"},
                       {"a": "cnode", "s": "s2", "L": ["P"], "v": 2, "via": "gql"}, {"a": "commit", "s": "s2"}]], wd, "selftest")
    bad = json.loads(json.dumps(ev))
    bad[3]["obs"]["gt"]["s1"][0][1] = 4
    p = os.path.join(wd, "selftest-bad.ndjson")
    V.write_ndjson(p, bad)
    res = V.validate_trace(TRACE, cfg_t, p, name=prop + "-st")
    if res["accepted"] or res.get("index") != 4:
        raise V.ToolError("binding self-test failed: corrupted observation was not rejected at its event")
    rep.add(binding_selftest="corrupted get_node value rejected at event 4")

    samples, seen, nontriv = [], set(), 0

    def account(events):
        nonlocal nontriv
        for _, tr in V.split_traces(events):
            st = strip(tr)
            key = json.dumps(st, sort_keys=True)
            if key in seen:
                continue
            seen.add(key)
            if nontrivial(st, prop):
                nontriv += 1
                if len(samples) < 2:
                    samples.append(st)

    # ------------------------------------------------------------ 4. binding A: TLC -simulate behaviours
    nsim, d = (150, 14) if tier == "quick" else (3000, 18)
    gcfg = V.write_cfg(os.path.join(wd, "gen.cfg"), spec="GSpec", constants={
        "Sess": V.tla_strset(["s1", "s2"]), "MaxN": 4, "MaxE": 3, "Vals": "{1, 2, 3}", "Depth": d}, invariants=["Emit"])
    r = V.tlc(MC, gcfg, name=prop + "gen", workers=1, simulate=nsim, depth=d + 2, seed=seed, timeout=600)
    scripts = []
    for line in r.printed:
        if line.startswith('<<"REPLAY"'):
            s = line[line.index(",") + 1:].strip()
            s = s[:s.rindex(">>")].strip()
            scripts.append(json.loads(json.loads(s)))
    if not scripts:
        V.log(r.out[-3000:])
        raise V.ToolError("behaviour generation produced no scripts")
    scripts = scripts[: (400 if tier == "quick" else 6000)]
    ev = run_scripts(scripts, wd, "gen")
    account(ev)
    validate(rep, ev, cfg_t, wd, prop + "-A", "binding A (TLC behaviour replayed through real sessions)", stats)
    rep.add(behaviours_replayed=len(scripts))

    # ------------------------------------------------------------ 5. binding B: seeded random histories
    ntr, ln = (500, 30) if tier == "quick" else (8000, 45)
    tp = os.path.join(wd, "rnd-trace.ndjson")
    V.gv(["mvcc", "--seed", seed + (0 if prop == "C01" else 1000), "--traces", ntr, "--len", ln, "--maxn", 8, "--maxe", 8,
          "--profile", prop, "--out", tp], timeout=1800)
    ev = V.read_ndjson(tp)
    account(ev)
    traces = V.split_traces(ev)
    batch, n = [], 0
    for _, tr in traces:
        batch += tr
        if len(batch) >= 40000:
            validate(rep, batch, cfg_t, wd, f"{prop}-B{n}", "binding B (recorded history)", stats)
            batch, n = [], n + 1
    if batch:
        validate(rep, batch, cfg_t, wd, f"{prop}-B{n}", "binding B (recorded history)", stats)

    # ------------------------------------------------------------ 6. triples under transactions (RdfTx.tla)
    rdftx_common.section(rep, prop, tier, seed)

    states += stats["events"]
    trans += stats["events"]
    rep.add(states=states, transitions=trans, model_checking=mcs,
            traces_validated_against_impl=stats["traces"], events_validated=stats["events"],
            evaluations=stats["traces"], distinct_nontrivial=nontriv,
            rule="distinct action scripts; non-trivial: " + NONTRIV[prop], samples=samples,
            read_kinds_logged_after_every_action=["label scan (GQL)", "unlabelled scan + labels() (GQL)", "Session::get_node for every id",
                                                  "1-hop expand (GQL)", "get_neighbors_outgoing", "get_neighbors_incoming",
                                                  "GrafeoDB::node_count", "GrafeoDB::edge_count"])
    rep.assumptions += [
        "sessions driven from one thread (interleaving = order of calls); true thread interleavings are C20",
        "acceptance per observation: equals the as-is mechanism model OR the ideal snapshot view; anything else is a violation",
        "operations: begin/commit/rollback/drop, create node (API and GQL INSERT), SET/REMOVE property, SET/REMOVE label, DETACH DELETE, "
        "Session::create_edge, GrafeoDB::delete_edge; one property key, two labels, one edge type"]
    return rep.finish()


def replay(path):
    wd = V.workdir("replay-mvcc")
    obj = json.load(open(path))
    if obj["replay"].get("engine") == "rdftx":
        return rdftx_common.replay(obj, path)
    ev = run_scripts([obj["replay"]["script"]], wd, "replay")
    p = os.path.join(wd, "t.ndjson")
    V.write_ndjson(p, ev)
    res = V.validate_trace(TRACE, trace_cfg(os.path.join(wd, "t.cfg")), p, name="replay-mvcc")
    print(json.dumps({k: v for k, v in res.items() if k != "out"}, indent=1)[:3000])
    if res["accepted"]:
        print("replay: trace accepted (violation does not reproduce)")
        return 0
    print(f"VIOLATION property={obj['property']} replay={path}")
    return 1
