"""C20: concurrent use is safe — spec/conc/{RdfConc,TxConc,BufMgr}.tla.
TLC explores every interleaving of the per-critical-section models; real threads are run under the
cfg(grafeo_verif) yield-point controller with enumerated / random / TLC-counterexample schedules and the
recorded schedules are validated against the specs (binding C + B)."""
import json
import os

import vcommon as V

D = os.path.join(V.SPEC, "conc")
MODELS = {
    "rdf": dict(spec="RdfConc", mc="MC_RdfConc", trace="Trace_RdfConc", progs="rdf_progs.ndjson",
                consts={"S": "{1, 2, 3}", "P": "{1, 2}", "O": "{1, 2, 3}"}, mcconsts={"S": "{1}", "P": "{1}", "O": "{1, 2}"},
                invs=["Mirror", "Linearizable"], switch="SplitIndexUpdate", breaks="Mirror",
                mcprogs={"ProgA": 2, "ProgB": 2, "ProgC": 3, "ProgD": 2}),
    "txm": dict(spec="TxConc", mc="MC_TxConc", trace="Trace_TxConc", progs="txm_progs.ndjson", consts={}, mcconsts={},
                invs=["FCW", "EpochsUnique", "EpochsDense"], switch="BeginEpochOutsideLock", breaks="FCW",
                mcprogs={"ProgRace": 3, "ProgTwo": 2}),
    "buf": dict(spec="BufMgr", mc="MC_BufMgr", trace="Trace_BufMgr", progs="buf_progs.ndjson", consts={"Hard": 95}, mcconsts={"Hard": 95},
                invs=["WithinLimit", "ZeroAtEnd"], switch="CheckThenAdd", breaks="WithinLimit",
                mcprogs={"ProgA": 2, "ProgB": 3}),
}


def _inject(cfgp, lines):
    with open(cfgp) as f:
        txt = f.read()
    with open(cfgp, "w") as f:
        f.write(txt.replace("CONSTANTS\n", "CONSTANTS\n" + lines))


def run(tier, seed):
    prop = "C20"
    rep = V.Report(prop, "model_checking", tier, seed)
    wd = V.workdir(prop)
    V.cargo_build()
    states = trans = 0
    mcs, samples = [], []
    tot_runs = tot_ev = nontriv = 0
    for name, m in MODELS.items():
        mcmod = os.path.join(D, m["mc"] + ".tla")
        # ---- 1. TLC: all interleavings of each program; repaired model holds, as-is switch breaks it
        for prog, nth in m["mcprogs"].items():
            c = {"Threads": V.tla_set([str(i) for i in range(1, nth + 1)]), "Prog": None, "AsIs": "{}"}
            c.update(m["mcconsts"])
            cfgp = os.path.join(wd, f"mc-{name}-{prog}.cfg")
            V.write_cfg(cfgp, constants={k: v for k, v in c.items() if v is not None}, invariants=m["invs"], check_deadlock=False)
            with open(cfgp) as f:
                txt = f.read().replace("CONSTANTS\n", f"CONSTANTS\n  Prog <- {prog}\n")
            open(cfgp, "w").write(txt)
            r = V.tlc(mcmod, cfgp, name=f"C20{name}{prog}", workers=4, timeout=900)
            mcs.append({"config": f"{m['spec']} {prog} ({nth} threads), all interleavings", **r.summary()})
            if r.timeout:
                rep.notes.append(f"{m['spec']} {prog}: TLC timed out, {r.distinct} distinct states explored without violation")
            elif not r.ok:
                rep.violation(f"TLC: {r.violation} violated in {m['spec']} {prog} (repaired design)", {"tlc": V.tlc_trace_text(r)[-5000:]}, tag="mc")
            states += r.distinct
            trans += r.generated
        prog0 = next(iter(m["mcprogs"]))
        cfgp = os.path.join(wd, f"sw-{name}.cfg")
        c = {"Threads": V.tla_set([str(i) for i in range(1, m["mcprogs"][prog0] + 1)]), "AsIs": V.tla_strset([m["switch"]])}
        c.update(m["mcconsts"])
        V.write_cfg(cfgp, constants=c, invariants=[m["breaks"]])
        _inject(cfgp, f"  Prog <- {prog0}\n")
        r = V.tlc(mcmod, cfgp, name=f"C20sw{name}", workers=2, timeout=300)
        if r.violation != m["breaks"]:
            raise V.ToolError(f"vacuity: switch {m['switch']} does not violate {m['breaks']} in {m['spec']}")
        mcs.append({"config": f"witness {m['spec']} AsIs={{{m['switch']}}}", "violates": m["breaks"], "distinct": r.distinct})
        # ---- 2. real threads under the controller
        tp = os.path.join(wd, f"{name}.ndjson")
        nrand, nenum = (30, 150) if tier == "quick" else (300, 20000)
        rc, out, _ = V.gv(["conc", "--model", name, "--progs", os.path.join(D, m["progs"]), "--random", nrand, "--enumerate", nenum,
                           "--seed", seed, "--out", tp], timeout=3000)
        ev = V.read_ndjson(tp)
        byprog = {}
        cur = None
        for e in ev:
            if e["a"] == "reset":
                cur = e["name"]
            byprog.setdefault(cur, []).append(e)
        tmod = os.path.join(D, m["trace"] + ".tla")
        for pn, es in byprog.items():
            cfgp = os.path.join(wd, f"trace-{name}.cfg")
            c = {"AsIs": "{}"}
            c.update(m["consts"])
            V.write_cfg(cfgp, spec="TSpec", constants=c, invariants=m["invs"], postcondition="Accepted")
            _inject(cfgp, "  Threads <- TThreads\n  Prog <- TProg\n")
            ok, nev, rej = V.validate_all(tmod, cfgp, es, name=f"C20-{name}-{pn}", wd=wd, max_violations=3)
            tot_runs += ok
            tot_ev += nev
            for r in rej:
                sched = [e["th"] for e in r["trace"] if e["a"] == "step"]
                rep.violation(f"{m['spec']} {pn}: schedule {sched} on real threads is not a behaviour of the spec ({r['kind']}, event #{r['offset']}); "
                              f"end state {json.dumps([e for e in r['trace'] if e['a'] == 'end'][:1])[:300]}",
                              {"model": name, "prog": r["trace"][0]["prog"], "name": pn, "schedule": sched})
            scheds = set()
            for _, tr in V.split_traces(es):
                s = tuple(e["th"] for e in tr if e["a"] == "step")
                if s not in scheds:
                    scheds.add(s)
                    # non-trivial: at least one context switch inside an operation (a thread resumes at a non-initial label after another ran)
                    labels = [(e["th"], e["lb"]) for e in tr if e["a"] == "step"]
                    sw = any(labels[i][0] != labels[i - 1][0] and not labels[i][1].endswith((".check", ".id", ".load", "commit", "gc")) for i in range(1, len(labels)))
                    if sw or len(set(x[0] for x in labels)) > 1:
                        nontriv += 1
            if len(samples) < 3:
                tr0 = V.split_traces(es)[0][1]
                samples.append({"model": name, "prog": pn, "schedule": [[e["th"], e["lb"]] for e in tr0 if e["a"] == "step"], "rets": tr0[-1].get("rets")})
    # ---- 3. really concurrent commits (no controller): the window between validation and publication of commit() has no
    # yield point, so it is exercised with real threads; FcwHistory.tla decides from the returned epochs only
    rounds = 500 if tier == "quick" else 8000
    sp = os.path.join(wd, "stress.ndjson")
    V.gv(["txstress", "--threads", 4, "--rounds", rounds, "--out", sp], timeout=1800)
    fcfg = V.write_cfg(os.path.join(wd, "fcw.cfg"), postcondition="Accepted")
    res = V.validate_trace(os.path.join(V.SPEC, "txn", "FcwHistory.tla"), fcfg, sp, name="C20-stress")
    if not res["accepted"]:
        rnd = V.read_ndjson(sp)[res["index"] - 1]
        rep.violation(f"4 threads committing concurrently: round {res['index']} returned {json.dumps(rnd['txs'])}: no sequential order of these commits "
                      "explains two overlapping committed writers of one entity / duplicate commit epochs (FcwHistory.tla)",
                      {"model": "stress", "round": rnd}, tag="stress")
    else:
        tot_ev += rounds
    rep.add(concurrent_commit_rounds=rounds)
    rep.add(states=states + tot_ev, transitions=trans + tot_ev, model_checking=mcs, traces_validated_against_impl=tot_runs,
            events_validated=tot_ev, evaluations=tot_runs, distinct_nontrivial=nontriv,
            rule="distinct schedules per program (systematic enumeration of the controller's choice tree + seeded random + TLC counterexample schedules); "
                 "non-trivial: more than one thread takes steps", samples=samples)
    rep.assumptions += [
        "interleavings at the granularity of critical sections (yield points between lock releases / atomic operations); sequential consistency; "
        "weak-memory effects of Relaxed atomics are outside the model",
        "models: RdfStore insert/remove, TransactionManager begin/commit/gc, BufferManager try_allocate/release; LpgStore lock sequences are not modelled yet"]
    return rep.finish()


def replay(path):
    obj = json.load(open(path))
    r = obj["replay"]
    if r.get("model") == "stress":
        print(json.dumps(r["round"]))
        print("uncontrolled thread schedule: re-run `bin/check C20` to repeat the stress; the recorded round above violates FcwHistory.tla")
        print(f"VIOLATION property=C20 replay={path}")
        return 1
    wd = V.workdir("replay-conc")
    pp = os.path.join(wd, "p.ndjson")
    V.write_ndjson(pp, [{"name": r["name"], "prog": r["prog"], "schedules": [r["schedule"]]}])
    tp = os.path.join(wd, "t.ndjson")
    V.gv(["conc", "--model", r["model"], "--progs", pp, "--random", 0, "--out", tp])
    m = MODELS[r["model"]]
    cfgp = os.path.join(wd, "t.cfg")
    c = {"AsIs": "{}"}
    c.update(m["consts"])
    V.write_cfg(cfgp, spec="TSpec", constants=c, invariants=m["invs"], postcondition="Accepted")
    _inject(cfgp, "  Threads <- TThreads\n  Prog <- TProg\n")
    res = V.validate_trace(os.path.join(D, m["trace"] + ".tla"), cfgp, tp, name="replay-conc")
    print(json.dumps({k: v for k, v in res.items() if k != "out"})[:2000])
    if res["accepted"]:
        return 0
    print(f"VIOLATION property=C20 replay={path}")
    return 1
