"""C20: concurrent use is safe — spec/conc/{RdfConc,TxConc,BufMgr}.tla.
TLC explores every interleaving of the per-critical-section models; real threads are run under the
cfg(grafeo_verif) yield-point controller with enumerated / random / TLC-counterexample schedules and the
recorded schedules are validated against the specs (binding C + B)."""
import json
import os
import re

import vcommon as V

D = os.path.join(V.SPEC, "conc")
MODELS = {
    "rdf": dict(spec="RdfConc", mc="MC_RdfConc", trace="Trace_RdfConc", progs="rdf_progs.ndjson",
                consts={"S": "{1, 2, 3}", "P": "{1, 2}", "O": "{1, 2, 3}"}, mcconsts={"S": "{1}", "P": "{1}", "O": "{1, 2}"},
                invs=["Mirror", "Linearizable"], switch="SplitIndexUpdate", breaks="Mirror",
                mcprogs={"ProgA": 2, "ProgB": 2, "ProgC": 3, "ProgD": 2}),
    "txm": dict(spec="TxConc", mc="MC_TxConc", trace="Trace_TxConc", progs="txm_progs.ndjson", consts={}, mcconsts={},
                invs=["FCW", "EpochsUnique", "EpochsDense"], switch="BeginEpochOutsideLock", breaks="FCW",
                mcprogs={"ProgRace": 3, "ProgTwo": 2}),
    "buf": dict(spec="BufMgr", mc="MC_BufMgr", trace="Trace_BufMgr", progs="buf_progs.ndjson", consts={"Hard": 95}, mcconsts={"Hard": 95},
                invs=["WithinLimit", "ZeroAtEnd"], switch="CheckThenAdd", breaks="WithinLimit",
                mcprogs={"ProgA": 2, "ProgB": 3}),
}


def _inject(cfgp, lines):
    with open(cfgp) as f:
        txt = f.read()
    with open(cfgp, "w") as f:
        f.write(txt.replace("CONSTANTS\n", "CONSTANTS\n" + lines))


LPG_PROGS = {"ProgSpSp": 2, "ProgSpDn": 2, "ProgAlDn": 2, "ProgAlRl": 2, "ProgAlAl": 2, "ProgRlDn": 2, "ProgDnDn": 2, "ProgCnCn": 2, "ProgEdge": 2, "ProgThree": 3, "ProgCeCe": 2, "ProgCeCe3": 3, "ProgCnCn3": 3}
LPG_INVS = ["Linearizable", "UniqueIds", "LabelMirror", "PropMirror", "AdjMirror"]


def _lpg_signature(prog, obs):
    """which derived structure disagrees with the primary data in a recorded quiescent observation"""
    sig = set()
    gn = obs["gn"]
    for v in (1, 2, 3):
        for n in obs["fp"][v - 1]:
            if gn[n - 1][0] == 1 and gn[n - 1][2] != v:
                sig.add("prop-index")
    for n, g in enumerate(gn, 1):
        if g[0] == 1 and g[2] != 0 and n not in obs["fp"][g[2] - 1]:
            sig.add("prop-index")
        if g[0] == 1 and (g[1] == 1) != (n in obs["la"]):
            sig.add("label-index")
    for n in obs["la"]:
        if gn[n - 1][0] == 0:
            sig.add("label-index")
    return sig


def _lpg_trace(args):
    k, path, cfg = args
    return k, V.tlc(os.path.join(D, "Trace_LpgConc.tla"), cfg, name=f"C20-lpg-{k}", workers=1, timeout=1500, xmx="3g", dfs=True, env={"TRACE": path})


def lpg_part(rep, wd, tier, seed):
    """LpgStore mutators: LpgConc.tla (sections, linearizability), LpgLocks.tla (lock order), controlled and free-running real threads"""
    import concurrent.futures as cf
    mcs = []
    states = trans = 0
    mcmod = os.path.join(D, "MC_LpgConc.tla")
    # ---- 1. TLC: every interleaving of the sections of the current tree is linearizable; the pinned tree's sections are not
    for prog, nth in LPG_PROGS.items():
        cfgp = os.path.join(wd, f"mc-lpg-{prog}.cfg")
        V.write_cfg(cfgp, constants={"Threads": V.tla_set([str(i) for i in range(1, nth + 1)]), "AsIs": "{}"}, invariants=LPG_INVS, check_deadlock=False)
        _inject(cfgp, f"  Prog <- {prog}\n")
        r = V.tlc(mcmod, cfgp, name=f"C20lpg{prog}", workers=2, timeout=600)
        states += r.distinct
        trans += r.generated
        mcs.append({"config": f"LpgConc {prog} ({nth} threads), all interleavings of the lock scopes", **r.summary()})
        if not r.ok and not r.timeout:
            rep.violation(f"TLC: {r.violation} violated in LpgConc {prog}", {"tlc": V.tlc_trace_text(r)[-5000:]}, tag="mc")
    for sw, prog in (("SplitProps", "ProgSpSp"), ("SplitLabels", "ProgAlDn"), ("SplitLabels", "ProgAlRl")):
        cfgp = os.path.join(wd, f"sw-lpg-{sw}-{prog}.cfg")
        V.write_cfg(cfgp, constants={"Threads": "{1, 2}", "AsIs": V.tla_strset([sw])}, invariants=["Linearizable"], check_deadlock=False)
        _inject(cfgp, f"  Prog <- {prog}\n")
        r = V.tlc(mcmod, cfgp, name=f"C20lpgsw{prog}", workers=2, timeout=300)
        if r.violation != "Linearizable":
            raise V.ToolError(f"vacuity: switch {sw} does not violate Linearizable in LpgConc {prog}")
        mcs.append({"config": f"witness LpgConc {prog} AsIs={{{sw}}}", "violates": "Linearizable", "distinct": r.distinct})
    # lock order: every pair / triple of mutators, no deadlock; the pinned tree's add_label / remove_label scopes must deadlock
    lmod = os.path.join(D, "LpgLocks.tla")
    for nth in ((2, 3) if tier == "quick" else (2, 3)):
        cfgp = os.path.join(wd, f"locks-{nth}.cfg")
        V.write_cfg(cfgp, constants={"Threads": V.tla_set([str(i) for i in range(1, nth + 1)]), "AsIs": "{}"}, invariants=["NoDeadlock", "Ordered"], check_deadlock=False)
        r = V.tlc(lmod, cfgp, name=f"C20locks{nth}", workers=4, timeout=900)
        states += r.distinct
        trans += r.generated
        mcs.append({"config": f"LpgLocks: any {nth} of 9 LpgStore calls, every interleaving of lock acquisitions", **r.summary()})
        if not r.ok and not r.timeout:
            rep.violation(f"TLC: {r.violation} violated in LpgLocks ({nth} threads)", {"tlc": V.tlc_trace_text(r)[-5000:]}, tag="locks")
    cfgp = os.path.join(wd, "locks-sw.cfg")
    V.write_cfg(cfgp, constants={"Threads": "{1, 2}", "AsIs": '{"IndexHeldAcrossCount"}'}, invariants=["NoDeadlock"], check_deadlock=False)
    r = V.tlc(lmod, cfgp, name="C20locksw", workers=2, timeout=300)
    if r.violation != "NoDeadlock":
        raise V.ToolError("vacuity: switch IndexHeldAcrossCount does not deadlock in LpgLocks")
    mcs.append({"config": "witness LpgLocks AsIs={IndexHeldAcrossCount}", "violates": "NoDeadlock", "distinct": r.distinct})
    # ---- name registry behind create_edge (EdgeTypes.tla): read-locked fast path, write-locked slow path with a double check
    emod = os.path.join(D, "MC_EdgeTypes.tla")
    for asis, want in (("{}", None), ('{"NoDoubleCheck"}', "TypeMirror")):
        cfgp = os.path.join(wd, "mc-edgetypes.cfg")
        V.write_cfg(cfgp, constants={"Threads": '{"t1", "t2", "t3"}', "Names": '{"T", "U"}', "AsIs": asis}, invariants=["TypeMirror", "NameOk", "Injective"], check_deadlock=False)
        _inject(cfgp, "  Want <- MCWant\n")
        r = V.tlc(emod, cfgp, name="C20edgetypes", workers=2, timeout=300)
        states += r.distinct
        trans += r.generated
        if want is None:
            mcs.append({"config": "EdgeTypes: 3 threads registering 2 type names, every interleaving of the fast / slow / store sections", **r.summary()})
            if not r.ok:
                rep.violation(f"TLC: {r.violation} violated in EdgeTypes.tla", {"tlc": V.tlc_trace_text(r)[-5000:]}, tag="types")
        else:
            if r.violation != want:
                raise V.ToolError(f"vacuity: switch NoDoubleCheck does not violate {want} in EdgeTypes.tla")
            mcs.append({"config": "witness EdgeTypes AsIs={NoDoubleCheck}", "violates": want, "distinct": r.distinct})
    # ---- 2. real threads: controlled schedules (all of them for the two-thread programs) + free-running rounds
    tp = os.path.join(wd, "lpg.ndjson")
    nrand, nenum = (20, 400) if tier == "quick" else (200, 20000)
    V.gv(["conc", "--model", "lpg", "--progs", os.path.join(D, "lpg_progs.ndjson"), "--random", nrand, "--enumerate", nenum, "--seed", seed, "--out", tp], timeout=3000)
    fp = os.path.join(wd, "lpg-free.ndjson")
    rc, _, _ = V.gv(["lpgstress", "--progs", os.path.join(D, "lpg_progs.ndjson"), "--rounds", 3000 if tier == "quick" else 60000, "--limit", 20, "--out", fp], timeout=3000, check=False)
    free = V.read_ndjson(fp)
    if rc == 3:
        h = free.pop()
        rep.violation(f"LpgStore: threads running {json.dumps(h['prog']['threads'])} at the same time stopped making progress ({h['finished_threads']} of {len(h['prog']['threads'])} finished): deadlock",
                      {"model": "lpg-loops", "prog": h["prog"], "name": h["name"]}, tag="hang")
    elif rc != 0:
        raise V.ToolError(f"gv lpgstress exited {rc}")
    ev = V.read_ndjson(tp) + free
    byprog = {}
    cur = None
    for e in ev:
        if e["a"] == "reset":
            cur = e["name"]
        byprog.setdefault(cur, []).append(e)
    cfgp = os.path.join(wd, "trace-lpg.cfg")
    V.write_cfg(cfgp, spec="TSpec", constants={"AsIs": "{}"}, postcondition="Accepted")
    _inject(cfgp, "  Threads <- TThreads\n  Prog <- TProg\n")
    jobs = []
    for pn, es in byprog.items():
        p = os.path.join(wd, f"lpg-{pn}.ndjson")
        V.write_ndjson(p, es)
        jobs.append((pn, p, cfgp))
    runs = nontriv = nev = 0
    scheds = set()
    with cf.ThreadPoolExecutor(max_workers=6) as ex:
        for pn, r in ex.map(_lpg_trace, jobs):
            es = byprog[pn]
            if r.timeout:
                raise V.ToolError(f"Trace_LpgConc {pn} timed out")
            m = re.search(r'<<"REJECT", (\d+)', r.out)
            if m or "No error has been found" not in r.out:
                if not m:
                    V.log(r.out[-3000:])
                    raise V.ToolError(f"Trace_LpgConc {pn}: TLC failed without a verdict")
                idx = int(m.group(1))
                start = max(i for i in range(idx) if es[i]["a"] == "reset")
                tr = es[start: idx + 1]
                sched = [e["th"] for e in tr if e["a"] == "step"]
                rep.violation(f"LpgConc {pn}: schedule {sched} on real threads is not a behaviour of the section model (event #{idx - start}: {json.dumps(es[idx - 1])[:300]})",
                              {"model": "lpg", "prog": es[start]["prog"], "name": pn, "schedule": sched}, tag="lpg")
                continue
            nev += len(es)
            states += r.distinct
            for _, tr in V.split_traces(es):
                runs += 1
                sc = tuple(e["th"] for e in tr if e["a"] == "step")
                if sc and (pn, sc) not in scheds:
                    scheds.add((pn, sc))
                    if len(set(sc)) > 1:
                        nontriv += 1
            for m in re.finditer(r'<<"NONLIN", (\d+)>>', r.out):
                e = es[int(m.group(1)) - 1]
                idx = int(m.group(1)) - 1
                start = max(i for i in range(idx + 1) if es[i]["a"] == "reset")
                sched = [x["th"] for x in es[start: idx] if x["a"] == "step"]
                what = ", ".join(sorted(_lpg_signature(es[start]["prog"], e["obs"]))) or "returned values / ids / adjacency"
                rep.violation(f"LpgStore {pn}: real threads {'(free-running) ' if e.get('free') else 'under schedule ' + str(sched) + ' '}returned {json.dumps(e['rets'])} and left "
                              f"{json.dumps(e['obs'])[:400]}: no sequential order of the operations explains it (LpgConc.tla LinObs; disagreeing structure: {what})",
                              {"model": "lpg", "prog": es[start]["prog"], "name": pn, "schedule": sched, "end": e}, tag="lpg")
    # ---- 3. deadlock hunt: tight loops of mutator pairs / triples on one store, watchdog
    lp = os.path.join(wd, "lpg-loops.ndjson")
    rc, out, _ = V.gv(["lpgstress", "--progs", os.path.join(D, "lpg_loops.ndjson"), "--loops", 100000 if tier == "quick" else 2000000, "--limit", 60 if tier == "quick" else 600, "--out", lp], timeout=4000, check=False)
    if rc == 3:
        h = V.read_ndjson(lp)[-1]
        rep.violation(f"LpgStore: threads looping over {json.dumps(h['prog']['threads'])} stopped making progress ({h['finished_threads']} of {len(h['prog']['threads'])} threads finished): deadlock",
                      {"model": "lpg-loops", "prog": h["prog"], "name": h["name"]}, tag="hang")
    elif rc != 0:
        raise V.ToolError(f"gv lpgstress exited {rc}")
    return dict(mcs=mcs, states=states, trans=trans, runs=runs, events=nev, nontriv=nontriv,
                sample=[{"model": "lpg", "prog": pn, "schedule": list(sc)} for pn, sc in sorted(scheds)[:2]])


def run(tier, seed):
    prop = "C20"
    rep = V.Report(prop, "model_checking", tier, seed)
    wd = V.workdir(prop)
    V.cargo_build()
    states = trans = 0
    mcs, samples = [], []
    tot_runs = tot_ev = nontriv = 0
    for name, m in MODELS.items():
        mcmod = os.path.join(D, m["mc"] + ".tla")
        # ---- 1. TLC: all interleavings of each program; repaired model holds, as-is switch breaks it
        for prog, nth in m["mcprogs"].items():
            c = {"Threads": V.tla_set([str(i) for i in range(1, nth + 1)]), "Prog": None, "AsIs": "{}"}
            c.update(m["mcconsts"])
            cfgp = os.path.join(wd, f"mc-{name}-{prog}.cfg")
            V.write_cfg(cfgp, constants={k: v for k, v in c.items() if v is not None}, invariants=m["invs"], check_deadlock=False)
            with open(cfgp) as f:
                txt = f.read().replace("CONSTANTS\n", f"CONSTANTS\n  Prog <- {prog}\n")
            open(cfgp, "w").write(txt)
            r = V.tlc(mcmod, cfgp, name=f"C20{name}{prog}", workers=4, timeout=900)
            mcs.append({"config": f"{m['spec']} {prog} ({nth} threads), all interleavings", **r.summary()})
            if r.timeout:
                rep.notes.append(f"{m['spec']} {prog}: TLC timed out, {r.distinct} distinct states explored without violation")
            elif not r.ok:
                rep.violation(f"TLC: {r.violation} violated in {m['spec']} {prog} (repaired design)", {"tlc": V.tlc_trace_text(r)[-5000:]}, tag="mc")
            states += r.distinct
            trans += r.generated
        prog0 = next(iter(m["mcprogs"]))
        cfgp = os.path.join(wd, f"sw-{name}.cfg")
        c = {"Threads": V.tla_set([str(i) for i in range(1, m["mcprogs"][prog0] + 1)]), "AsIs": V.tla_strset([m["switch"]])}
        c.update(m["mcconsts"])
        V.write_cfg(cfgp, constants=c, invariants=[m["breaks"]])
        _inject(cfgp, f"  Prog <- {prog0}\n")
        r = V.tlc(mcmod, cfgp, name=f"C20sw{name}", workers=2, timeout=300)
        if r.violation != m["breaks"]:
            raise V.ToolError(f"vacuity: switch {m['switch']} does not violate {m['breaks']} in {m['spec']}")
        mcs.append({"config": f"witness {m['spec']} AsIs={{{m['switch']}}}", "violates": m["breaks"], "distinct": r.distinct})
        # ---- 2. real threads under the controller
        tp = os.path.join(wd, f"{name}.ndjson")
        nrand, nenum = (30, 150) if tier == "quick" else (300, 20000)
        rc, out, _ = V.gv(["conc", "--model", name, "--progs", os.path.join(D, m["progs"]), "--random", nrand, "--enumerate", nenum,
                           "--seed", seed, "--out", tp], timeout=3000)
        ev = V.read_ndjson(tp)
        byprog = {}
        cur = None
        for e in ev:
            if e["a"] == "reset":
                cur = e["name"]
            byprog.setdefault(cur, []).append(e)
        tmod = os.path.join(D, m["trace"] + ".tla")
        for pn, es in byprog.items():
            cfgp = os.path.join(wd, f"trace-{name}.cfg")
            c = {"AsIs": "{}"}
            c.update(m["consts"])
            V.write_cfg(cfgp, spec="TSpec", constants=c, invariants=m["invs"], postcondition="Accepted")
            _inject(cfgp, "  Threads <- TThreads\n  Prog <- TProg\n")
            ok, nev, rej = V.validate_all(tmod, cfgp, es, name=f"C20-{name}-{pn}", wd=wd, max_violations=3)
            tot_runs += ok
            tot_ev += nev
            for r in rej:
                sched = [e["th"] for e in r["trace"] if e["a"] == "step"]
                rep.violation(f"{m['spec']} {pn}: schedule {sched} on real threads is not a behaviour of the spec ({r['kind']}, event #{r['offset']}); "
                              f"end state {json.dumps([e for e in r['trace'] if e['a'] == 'end'][:1])[:300]}",
                              {"model": name, "prog": r["trace"][0]["prog"], "name": pn, "schedule": sched})
            scheds = set()
            for _, tr in V.split_traces(es):
                s = tuple(e["th"] for e in tr if e["a"] == "step")
                if s not in scheds:
                    scheds.add(s)
                    # non-trivial: at least one context switch inside an operation (a thread resumes at a non-initial label after another ran)
                    labels = [(e["th"], e["lb"]) for e in tr if e["a"] == "step"]
                    sw = any(labels[i][0] != labels[i - 1][0] and not labels[i][1].endswith((".check", ".id", ".load", "commit", "gc")) for i in range(1, len(labels)))
                    if sw or len(set(x[0] for x in labels)) > 1:
                        nontriv += 1
            if len(samples) < 3:
                tr0 = V.split_traces(es)[0][1]
                samples.append({"model": name, "prog": pn, "schedule": [[e["th"], e["lb"]] for e in tr0 if e["a"] == "step"], "rets": tr0[-1].get("rets")})
    # ---- 3. really concurrent commits (no controller): the window between validation and publication of commit() has no
    # yield point, so it is exercised with real threads; FcwHistory.tla decides from the returned epochs only
    rounds = 500 if tier == "quick" else 8000
    sp = os.path.join(wd, "stress.ndjson")
    V.gv(["txstress", "--threads", 4, "--rounds", rounds, "--out", sp], timeout=1800)
    fcfg = V.write_cfg(os.path.join(wd, "fcw.cfg"), postcondition="Accepted")
    res = V.validate_trace(os.path.join(V.SPEC, "txn", "FcwHistory.tla"), fcfg, sp, name="C20-stress")
    if not res["accepted"]:
        rnd = V.read_ndjson(sp)[res["index"] - 1]
        rep.violation(f"4 threads committing concurrently: round {res['index']} returned {json.dumps(rnd['txs'])}: no sequential order of these commits "
                      "explains two overlapping committed writers of one entity / duplicate commit epochs (FcwHistory.tla)",
                      {"model": "stress", "round": rnd}, tag="stress")
    else:
        tot_ev += rounds
    # ---- 3b. free-running threads: begin races with another thread's commit + gc (no barrier); same judge
    nfree, iters = (3, 40000) if tier == "quick" else (12, 150000)
    free_tx = 0
    for k in range(nfree):
        fp = os.path.join(wd, f"free-{k}.ndjson")
        _, out, _ = V.gv(["txstress", "--free", iters, "--threads", 3 + k % 2, "--out", fp], timeout=1800)
        res = V.validate_trace(os.path.join(V.SPEC, "txn", "FcwHistory.tla"), fcfg, fp, name=f"C20-free-{k}")
        if not res["accepted"]:
            w = V.read_ndjson(fp)[res["index"] - 1]
            bad = [(a, b) for a, b in zip(w["txs"], w["txs"][1:]) if b["s"] < a["c"]]
            rep.violation(f"free-running begin/commit/gc threads: committed writers of one entity overlap, e.g. {json.dumps(bad[:1])} "
                          "(the later one took its snapshot before the earlier one committed and still committed): no sequential order of begin/commit/gc explains it (FcwHistory.tla)",
                          {"model": "stress", "round": w}, tag="free")
            break
        free_tx += json.loads(out.strip().splitlines()[-1])["committed"]
        tot_ev += len(V.read_ndjson(fp))
    rep.add(concurrent_commit_rounds=rounds, free_running_committed_transactions=free_tx)
    lp = lpg_part(rep, wd, tier, seed)
    mcs += lp["mcs"]
    states += lp["states"]
    trans += lp["trans"]
    tot_runs += lp["runs"]
    tot_ev += lp["events"]
    nontriv += lp["nontriv"]
    samples += lp["sample"]
    rep.add(states=states + tot_ev, transitions=trans + tot_ev, model_checking=mcs, traces_validated_against_impl=tot_runs,
            events_validated=tot_ev, evaluations=tot_runs, distinct_nontrivial=nontriv,
            rule="distinct schedules per program (systematic enumeration of the controller's choice tree + seeded random + TLC counterexample schedules); "
                 "non-trivial: more than one thread takes steps", samples=samples)
    rep.assumptions += [
        "interleavings at the granularity of critical sections (yield points between lock releases / atomic operations); sequential consistency; "
        "weak-memory effects of Relaxed atomics are outside the model",
        "models: RdfStore insert/remove, TransactionManager begin/commit/gc, BufferManager try_allocate/release, LpgStore create/delete node, add/remove label, "
        "set property (indexed key), create/delete edge; lock scopes of LpgLocks.tla are transcribed from store.rs by hand (bound to the code by the looping stress only); "
        "tiered-storage variants, WAL, catalog, query cache and HNSW are not modelled"]
    return rep.finish()


def replay(path):
    obj = json.load(open(path))
    r = obj["replay"]
    if r.get("model") == "stress":
        print(json.dumps(r["round"]))
        print("uncontrolled thread schedule: re-run `bin/check C20` to repeat the stress; the recorded round above violates FcwHistory.tla")
        print(f"VIOLATION property=C20 replay={path}")
        return 1
    wd = V.workdir("replay-conc")
    pp = os.path.join(wd, "p.ndjson")
    if r.get("model") == "lpg-loops":
        V.write_ndjson(pp, [{"name": r["name"], "prog": r["prog"]}])
        rc, out, _ = V.gv(["lpgstress", "--progs", pp, "--loops", 2000000, "--limit", 60, "--out", os.path.join(wd, "l.ndjson")], timeout=300, check=False)
        print(out.strip())
        if rc == 3:
            print(f"VIOLATION property=C20 replay={path}")
            return 1
        return 0
    V.write_ndjson(pp, [{"name": r["name"], "prog": r["prog"], "schedules": [r["schedule"]]}])
    if r.get("model") == "lpg":
        tp = os.path.join(wd, "t.ndjson")
        if r["schedule"]:
            V.gv(["conc", "--model", "lpg", "--progs", pp, "--random", 0, "--out", tp])
        else:
            V.gv(["lpgstress", "--progs", pp, "--rounds", 20000, "--out", tp], timeout=600, check=False)
        cfgp = os.path.join(wd, "t.cfg")
        V.write_cfg(cfgp, spec="TSpec", constants={"AsIs": "{}"}, postcondition="Accepted")
        _inject(cfgp, "  Threads <- TThreads\n  Prog <- TProg\n")
        res = V.tlc(os.path.join(D, "Trace_LpgConc.tla"), cfgp, name="replay-lpg", workers=1, timeout=900, dfs=True, env={"TRACE": tp})
        bad = re.findall(r'<<"(NONLIN|REJECT)", (\d+)', res.out)
        print(json.dumps({"verdicts": bad[:5], "ok": res.ok}))
        if bad or not res.ok:
            print(f"VIOLATION property=C20 replay={path}")
            return 1
        return 0
    tp = os.path.join(wd, "t.ndjson")
    V.gv(["conc", "--model", r["model"], "--progs", pp, "--random", 0, "--out", tp])
    m = MODELS[r["model"]]
    cfgp = os.path.join(wd, "t.cfg")
    c = {"AsIs": "{}"}
    c.update(m["consts"])
    V.write_cfg(cfgp, spec="TSpec", constants=c, invariants=m["invs"], postcondition="Accepted")
    _inject(cfgp, "  Threads <- TThreads\n  Prog <- TProg\n")
    res = V.validate_trace(os.path.join(D, m["trace"] + ".tla"), cfgp, tp, name="replay-conc")
    print(json.dumps({k: v for k, v in res.items() if k != "out"})[:2000])
    if res["accepted"]:
        return 0
    print(f"VIOLATION property=C20 replay={path}")
    return 1
